package main

// Copy points of the memory KV backend: what pisces/mem_entry.go does with
// the byte slices it is given and gives out (Gen/KvMemOwn.v, used by
// Kv/OwnSkel.v / Kv/KvGen.v), and every use of an entry's buffer outside
// those four functions.

import (
	"fmt"
	"go/ast"
	"path/filepath"
	"strings"
)

func init() { register("KvMemOwn", genKvMemOwn) }

var ownFuncs = []struct{ recv, name string }{
	{"", "newMemEntry"}, {"memEntry", "setBytes"}, {"memEntry", "appendBytes"}, {"memEntry", "bytes"},
}

// ownStmt classifies one statement of one of the four functions.
func ownStmt(p *pkg, fn string, st ast.Stmt, param string) []string {
	src := p.src(st)
	unknown := []string{fmt.Sprintf("MUnknown %s", coqStr(src))}
	switch s := st.(type) {
	case *ast.IfStmt:
		if s.Init == nil && s.Else == nil && len(s.Body.List) == 1 &&
			p.src(s.Cond) == "len(bs) == 0" && p.src(s.Body.List[0]) == "return nil" {
			return []string{"MNilIfEmpty"}
		}
		return unknown
	case *ast.ExprStmt:
		switch src {
		case "entry.buf.Truncate(0)", "entry.buf.Reset()":
			return []string{"MTruncate"}
		case "entry.buf.Write(" + param + ")":
			return []string{"MWrite"}
		case "ret.setBytes(" + param + ")":
			return []string{"MCallSetBytes"}
		case "copy(ret, bs)":
			return []string{"MCopy"}
		}
		return unknown
	case *ast.AssignStmt:
		switch src {
		case "bs := entry.buf.Bytes()":
			return []string{"MView"}
		case "ret := make([]byte, len(bs))":
			return []string{"MMake"}
		case "entry.buf = bytes.NewBuffer(" + param + ")":
			return []string{"MWrapArg"}
		}
		if fn == "newMemEntry" && len(s.Lhs) == 1 && len(s.Rhs) == 1 && p.src(s.Lhs[0]) == "ret" {
			if a := ownLiteral(p, s.Rhs[0], param); a != "" {
				return []string{a}
			}
		}
		return unknown
	case *ast.ReturnStmt:
		if len(s.Results) != 1 {
			return unknown
		}
		r := p.src(s.Results[0])
		switch {
		case fn == "newMemEntry" && r == "ret":
			return []string{"MReturn"}
		case fn == "newMemEntry":
			if a := ownLiteral(p, s.Results[0], param); a != "" {
				return []string{a, "MReturn"}
			}
		case fn == "bytes" && r == "ret":
			return []string{"MReturnFresh"}
		case fn == "bytes" && (r == "bs" || r == "entry.buf.Bytes()"):
			return []string{"MReturnView"}
		}
		return unknown
	}
	return unknown
}

// ownLiteral recognises &memEntry{cls: cls, buf: ...}.
func ownLiteral(p *pkg, e ast.Expr, param string) string {
	u, ok := e.(*ast.UnaryExpr)
	if !ok {
		return ""
	}
	cl, ok := u.X.(*ast.CompositeLit)
	if !ok || p.src(cl.Type) != "memEntry" || len(cl.Elts) != 2 {
		return ""
	}
	var cls, buf string
	for _, el := range cl.Elts {
		kv, ok := el.(*ast.KeyValueExpr)
		if !ok {
			return ""
		}
		switch p.src(kv.Key) {
		case "cls":
			cls = p.src(kv.Value)
		case "buf":
			buf = p.src(kv.Value)
		}
	}
	if cls != "cls" {
		return ""
	}
	switch buf {
	case "new(bytes.Buffer)", "&bytes.Buffer{}":
		return "MNewBuffer"
	case "bytes.NewBuffer(" + param + ")":
		return "MWrapArg"
	}
	return ""
}

func genKvMemOwn(repo string) (string, error) {
	p, err := loadPkg(filepath.Join(repo, "pisces"))
	if err != nil {
		return "", err
	}
	var b strings.Builder
	b.WriteString("(* generated from pisces/mem_entry.go (and the other files of the package for uses of .buf); do not edit *)\n")
	b.WriteString("From Coq Require Import List String.\nFrom Verif Require Import Kv.OwnSkel.\nImport ListNotations.\nLocal Open Scope string_scope.\n\n")
	own := map[*ast.FuncDecl]bool{}
	var rows []string
	for _, f := range ownFuncs {
		fd := p.funcDecl(f.recv, f.name)
		if fd == nil || fd.Body == nil {
			rows = append(rows, fmt.Sprintf("(%s, [ MUnknown \"function not found\" ])", coqStr(f.name)))
			continue
		}
		own[fd] = true
		// the []byte parameter
		param := ""
		for _, fl := range fd.Type.Params.List {
			if p.src(fl.Type) == "[]byte" && len(fl.Names) == 1 {
				param = fl.Names[0].Name
			}
		}
		var acts []string
		if f.recv != "" && recvVar(fd) != "entry" {
			acts = append(acts, fmt.Sprintf("MUnknown %s", coqStr("receiver "+recvVar(fd))))
		}
		for _, st := range fd.Body.List {
			acts = append(acts, ownStmt(p, f.name, st, param)...)
		}
		rows = append(rows, fmt.Sprintf("(%s, [%s])", coqStr(f.name), strings.Join(acts, "; ")))
	}
	fmt.Fprintf(&b, "Definition gen_mem_entry_skel : list (string * list mact) :=\n  %s.\n\n", coqList(rows))
	// every other place of the package that touches an entry's buffer
	var outside []string
	for _, fd := range p.allFuncs() {
		if own[fd] || fd.Body == nil {
			continue
		}
		ast.Inspect(fd.Body, func(n ast.Node) bool {
			if se, ok := n.(*ast.SelectorExpr); ok && se.Sel.Name == "buf" {
				outside = append(outside, coqStr(fd.Name.Name+": "+p.src(se)))
			}
			return true
		})
	}
	fmt.Fprintf(&b, "Definition gen_mem_buf_outside : list string :=\n  %s.\n", coqList(outside))
	return b.String(), nil
}
