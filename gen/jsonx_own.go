package main

import (
	"fmt"
	"go/ast"
	"go/constant"
	"go/token"
	"sort"
	"path/filepath"
	"strings"
)

// JsonxOwn: who owns the bytes an entry point of jsonx / strtoken / lexing
// hands back.  For every function with a []byte result: where the returned
// slice comes from (a buffer made in that very call, the result of another
// function of the table, or anything else: a pool, a package-level variable,
// a field of a long-lived receiver).  And every package-level variable that
// is, or may hold, a buffer (sync.Pool, bytes.Buffer, []byte,
// strings.Builder).  Jsonx/ConstsGen.v [gen_results_fresh] decides that
// every result is fresh; Jsonx/Own.v shows what that buys the caller.
func init() { register("JsonxOwn", genJsonxOwn) }

func hasByteSliceResult(fd *ast.FuncDecl) (idx int, ok bool) {
	if fd.Type.Results == nil {
		return 0, false
	}
	k := 0
	for _, f := range fd.Type.Results.List {
		n := len(f.Names)
		if n == 0 {
			n = 1
		}
		if at, isArr := f.Type.(*ast.ArrayType); isArr && at.Len == nil {
			if id, isID := at.Elt.(*ast.Ident); isID && id.Name == "byte" {
				return k, true
			}
		}
		k += n
	}
	return 0, false
}

// isFreshBufferExpr: new(bytes.Buffer), &bytes.Buffer{}, bytes.NewBuffer(nil),
// new(strings.Builder), make([]byte, ...), []byte(x), append([]byte(nil), ...)
func isFreshBufferExpr(p *pkg, e ast.Expr) bool {
	s := p.src(e)
	switch s {
	case "new(bytes.Buffer)", "&bytes.Buffer{}", "bytes.NewBuffer(nil)", "new(strings.Builder)", "&strings.Builder{}":
		return true
	}
	if c, ok := e.(*ast.CallExpr); ok {
		if id, ok := c.Fun.(*ast.Ident); ok && id.Name == "make" && len(c.Args) > 0 && p.src(c.Args[0]) == "[]byte" {
			return true
		}
		if p.src(c.Fun) == "[]byte" {
			return true // a conversion copies
		}
		if id, ok := c.Fun.(*ast.Ident); ok && id.Name == "append" && len(c.Args) > 0 && p.src(c.Args[0]) == "[]byte(nil)" {
			return true
		}
	}
	return false
}

// defOf finds what the local name is bound to inside fd: the right-hand side
// of its (single) definition, or the declared type of a `var x T`.
func defOf(p *pkg, fd *ast.FuncDecl, name string) (rhs ast.Expr, varType string, index int, n int, found int) {
	ast.Inspect(fd.Body, func(nd ast.Node) bool {
		switch x := nd.(type) {
		case *ast.AssignStmt:
			for i, l := range x.Lhs {
				if id, ok := l.(*ast.Ident); ok && id.Name == name {
					found++
					if len(x.Rhs) == len(x.Lhs) {
						rhs, index, n = x.Rhs[i], 0, 1
					} else if len(x.Rhs) == 1 {
						rhs, index, n = x.Rhs[0], i, len(x.Lhs)
					}
				}
			}
		case *ast.ValueSpec:
			for i, id := range x.Names {
				if id.Name == name {
					found++
					if x.Type != nil {
						varType = p.src(x.Type)
					}
					if i < len(x.Values) {
						rhs, index, n = x.Values[i], 0, 1
					}
				}
			}
		}
		return true
	})
	return
}

func isParamOrRecv(fd *ast.FuncDecl, name string) bool {
	lists := []*ast.FieldList{fd.Recv, fd.Type.Params}
	for _, l := range lists {
		if l == nil {
			continue
		}
		for _, f := range l.List {
			for _, id := range f.Names {
				if id.Name == name {
					return true
				}
			}
		}
	}
	return false
}

// origin classifies the expression a function returns as its []byte result.
func origin(p *pkg, fd *ast.FuncDecl, e ast.Expr, local map[string]bool, depth int) string {
	unknown := func() string { return "(RUnknown " + coqStr(p.src(e)) + ")" }
	if depth > 4 {
		return unknown()
	}
	switch x := e.(type) {
	case *ast.ParenExpr:
		return origin(p, fd, x.X, local, depth+1)
	case *ast.Ident:
		if x.Name == "nil" {
			return "RNil"
		}
		if isParamOrRecv(fd, x.Name) {
			return "(RParam " + coqStr(x.Name) + ")"
		}
		rhs, vt, idx, n, found := defOf(p, fd, x.Name)
		if found == 0 {
			return "(RGlobal " + coqStr(x.Name) + ")"
		}
		if found > 1 {
			return unknown() // assigned more than once: not followed
		}
		if rhs == nil {
			if vt == "bytes.Buffer" || vt == "strings.Builder" || vt == "[]byte" {
				return "RFresh"
			}
			return unknown()
		}
		if n > 1 {
			// x, err := f(...)
			if c, ok := rhs.(*ast.CallExpr); ok && idx == 0 {
				if id, ok := c.Fun.(*ast.Ident); ok && local[id.Name] {
					return "(RCall " + coqStr(id.Name) + ")"
				}
			}
			return "(RForeign " + coqStr(p.src(rhs)) + ")"
		}
		return origin(p, fd, rhs, local, depth+1)
	case *ast.CallExpr:
		if isFreshBufferExpr(p, x) {
			return "RFresh"
		}
		if id, ok := x.Fun.(*ast.Ident); ok && local[id.Name] {
			return "(RCall " + coqStr(id.Name) + ")"
		}
		if sel, ok := x.Fun.(*ast.SelectorExpr); ok && (sel.Sel.Name == "Bytes" || sel.Sel.Name == "Next") && len(x.Args) <= 1 {
			// buf.Bytes(): the buffer's own memory
			switch b := sel.X.(type) {
			case *ast.Ident:
				o := origin(p, fd, b, local, depth+1)
				if o == "RFresh" {
					return "RFresh"
				}
				return "(RBufferOf " + o + ")"
			default:
				return "(RField " + coqStr(p.src(sel.X)) + ")"
			}
		}
		return "(RForeign " + coqStr(p.src(x)) + ")"
	case *ast.UnaryExpr:
		if isFreshBufferExpr(p, x) {
			return "RFresh"
		}
	case *ast.TypeAssertExpr:
		return "(RPooled " + coqStr(p.src(x)) + ")"
	case *ast.SelectorExpr:
		return "(RField " + coqStr(p.src(x)) + ")"
	case *ast.SliceExpr:
		return origin(p, fd, x.X, local, depth+1)
	}
	return unknown()
}

func genJsonxOwn(repo string) (string, error) {
	var b strings.Builder
	b.WriteString("(* Generated by gen/jsonx_own.go from jsonx/, lexing/ and strtoken/ of the repository. *)\n")
	b.WriteString("From Coq Require Import List String NArith.\nFrom Verif Require Import Jsonx.GenTypes.\n")
	b.WriteString("Import ListNotations.\nLocal Open Scope string_scope.\n\n")
	var origins, vars []string
	for _, dir := range []string{"jsonx", "lexing", "strtoken"} {
		p, err := loadPkg(filepath.Join(repo, dir))
		if err != nil {
			return "", err
		}
		local := map[string]bool{}
		for _, fd := range p.allFuncs() {
			if fd.Recv == nil {
				local[fd.Name.Name] = true
			}
		}
		for _, fd := range p.allFuncs() {
			idx, ok := hasByteSliceResult(fd)
			if !ok || fd.Body == nil {
				continue
			}
			name := fd.Name.Name
			if r := recvName(fd); r != "" {
				name = r + "." + name
			}
			var os []string
			named := ""
			if fd.Type.Results != nil {
				k := 0
				for _, f := range fd.Type.Results.List {
					for _, id := range f.Names {
						if k == idx {
							named = id.Name
						}
						k++
					}
					if len(f.Names) == 0 {
						k++
					}
				}
			}
			ast.Inspect(fd.Body, func(nd ast.Node) bool {
				if _, isLit := nd.(*ast.FuncLit); isLit {
					return false
				}
				rs, ok := nd.(*ast.ReturnStmt)
				if !ok {
					return true
				}
				switch {
				case len(rs.Results) == 0 && named != "":
					os = append(os, origin(p, fd, ast.NewIdent(named), local, 0))
				case len(rs.Results) == 1 && idx == 0:
					// return f(...) with several results, or the single result
					if c, isCall := rs.Results[0].(*ast.CallExpr); isCall {
						if id, isID := c.Fun.(*ast.Ident); isID && local[id.Name] {
							os = append(os, "(RCall "+coqStr(id.Name)+")")
							return true
						}
					}
					os = append(os, origin(p, fd, rs.Results[0], local, 0))
				case idx < len(rs.Results):
					os = append(os, origin(p, fd, rs.Results[idx], local, 0))
				default:
					os = append(os, "(RUnknown "+coqStr(p.src(rs))+")")
				}
				return true
			})
			origins = append(origins, fmt.Sprintf("(%s, %s)", coqStr(dir+"."+name), coqList(os)))
		}
		// package-level variables that are or may hold a buffer
		for _, fn := range p.sortedFiles() {
			for _, d := range p.files[fn].Decls {
				gd, ok := d.(*ast.GenDecl)
				if !ok || gd.Tok != token.VAR {
					continue
				}
				for _, s := range gd.Specs {
					vs := s.(*ast.ValueSpec)
					txt := ""
					if vs.Type != nil {
						txt += p.src(vs.Type) + " "
					}
					for _, v := range vs.Values {
						txt += p.src(v) + " "
					}
					for _, kind := range []string{"sync.Pool", "bytes.Buffer", "strings.Builder", "[]byte", "bufio."} {
						if strings.Contains(txt, kind) {
							for _, id := range vs.Names {
								vars = append(vars, fmt.Sprintf("(%s, %s)", coqStr(dir+"."+id.Name), coqStr(kind)))
							}
							break
						}
					}
				}
			}
		}
	}
	// how files are opened for writing
	opens := []string{}
	if p, err := loadPkg(filepath.Join(repo, "jsonx")); err == nil {
		for _, fd := range p.allFuncs() {
			if fd.Body == nil {
				continue
			}
			name := "jsonx." + fd.Name.Name
			ast.Inspect(fd.Body, func(nd ast.Node) bool {
				c, ok := nd.(*ast.CallExpr)
				if !ok {
					return true
				}
				switch p.src(c.Fun) {
				case "os.WriteFile", "ioutil.WriteFile":
					opens = append(opens, fmt.Sprintf("(%s, WOWriteFile)", coqStr(name)))
				case "os.Create":
					opens = append(opens, fmt.Sprintf("(%s, WOCreate)", coqStr(name)))
				case "os.OpenFile":
					if len(c.Args) == 3 {
						if fl, ok := openFlags(p, c.Args[1]); ok {
							if len(fl) == 1 && fl[0] == "O_RDONLY" {
								return true // reading
							}
							qs := []string{}
							for _, f := range fl {
								qs = append(qs, coqStr(f))
							}
							opens = append(opens, fmt.Sprintf("(%s, (WOOpenFile [%s]))", coqStr(name), strings.Join(qs, "; ")))
							return true
						}
					}
					opens = append(opens, fmt.Sprintf("(%s, (WOUnknown %s))", coqStr(name), coqStr(p.src(c))))
				case "os.Rename", "os.Link", "os.Symlink", "syscall.Open", "os.NewFile":
					opens = append(opens, fmt.Sprintf("(%s, (WOUnknown %s))", coqStr(name), coqStr(p.src(c))))
				}
				return true
			})
		}
	}
	// every integer the packages name that is large enough to be a size bound:
	// literals, constants and constant expressions (1 << 20) of at least 256
	seenInt := map[int64]bool{}
	var ints []int64
	addInt := func(v constant.Value) {
		if v == nil || v.Kind() != constant.Int {
			return
		}
		if x, ok := constant.Int64Val(v); ok && x >= 256 && !seenInt[x] {
			seenInt[x] = true
			ints = append(ints, x)
		}
	}
	for _, dir := range []string{"jsonx", "lexing", "strtoken"} {
		p, err := loadPkg(filepath.Join(repo, dir))
		if err != nil {
			continue
		}
		consts, _ := p.consts()
		for _, v := range consts {
			addInt(v)
		}
		for _, fn := range p.sortedFiles() {
			ast.Inspect(p.files[fn], func(n ast.Node) bool {
				switch x := n.(type) {
				case *ast.BasicLit:
					if x.Kind == token.INT {
						addInt(constant.MakeFromLiteral(x.Value, token.INT, 0))
					}
				case *ast.BinaryExpr:
					switch x.Op {
					case token.SHL, token.SHR, token.MUL, token.ADD, token.SUB, token.QUO:
						func() {
							defer func() { recover() }() // not a constant expression
							addInt(evalConst(x, consts, 0))
						}()
					}
				}
				return true
			})
		}
	}
	sort.Slice(ints, func(i, j int) bool { return ints[i] < ints[j] })
	its := []string{}
	for _, x := range ints {
		its = append(its, fmt.Sprintf("%d%%N", x))
	}
	// state the file readers look at besides the file: package-level variables
	// they mention and file-status calls (a cache keyed by name, size, time)
	rstate := []string{}
	if p, err := loadPkg(filepath.Join(repo, "jsonx")); err == nil {
		vars := map[string]bool{}
		for _, fn := range p.sortedFiles() {
			for _, d := range p.files[fn].Decls {
				if gd, ok := d.(*ast.GenDecl); ok && gd.Tok == token.VAR {
					for _, sp := range gd.Specs {
						for _, id := range sp.(*ast.ValueSpec).Names {
							vars[id.Name] = true
						}
					}
				}
			}
		}
		for _, name := range []string{"ReadFile", "ReadFileMaybeJSON", "ReadSeriesFile", "unmarshalFile", "NewFileDecoder", "NewDecoder"} {
			fd := p.funcDecl("", name)
			if fd == nil || fd.Body == nil {
				rstate = append(rstate, fmt.Sprintf("(%s, %s)", coqStr("jsonx."+name), coqStr("<missing>")))
				continue
			}
			ast.Inspect(fd.Body, func(nd ast.Node) bool {
				switch x := nd.(type) {
				case *ast.Ident:
					if vars[x.Name] && x.Obj == nil || (x.Obj != nil && x.Obj.Kind == ast.Var && vars[x.Name] && x.Obj.Decl != nil && isTopLevel(p, x.Obj.Decl)) {
						rstate = append(rstate, fmt.Sprintf("(%s, %s)", coqStr("jsonx."+name), coqStr("var "+x.Name)))
					}
				case *ast.CallExpr:
					switch f := p.src(x.Fun); f {
					case "os.Stat", "os.Lstat":
						rstate = append(rstate, fmt.Sprintf("(%s, %s)", coqStr("jsonx."+name), coqStr(f)))
					default:
						if strings.HasSuffix(f, ".Stat") || strings.HasSuffix(f, ".ModTime") {
							rstate = append(rstate, fmt.Sprintf("(%s, %s)", coqStr("jsonx."+name), coqStr(f)))
						}
					}
				}
				return true
			})
		}
	}
	fmt.Fprintf(&b, "Definition gen_reader_state : list (string * string) :=\n  %s.\n\n", coqList(rstate))
	fmt.Fprintf(&b, "Definition gen_int_literals : list N := [%s].\n\n", strings.Join(its, "; "))
	fmt.Fprintf(&b, "Definition gen_writefile_opens : list (string * wopen) :=\n  %s.\n\n", coqList(opens))
	fmt.Fprintf(&b, "Definition gen_result_origins : list (string * list rorigin) :=\n  %s.\n\n", coqList(origins))
	fmt.Fprintf(&b, "Definition gen_pkg_buffers : list (string * string) :=\n  %s.\n", coqList(vars))
	return b.String(), nil
}

// openFlags: os.O_A | os.O_B | ... as the list of flag names.
func openFlags(p *pkg, e ast.Expr) ([]string, bool) {
	switch x := e.(type) {
	case *ast.ParenExpr:
		return openFlags(p, x.X)
	case *ast.BinaryExpr:
		if x.Op != token.OR {
			return nil, false
		}
		a, ok1 := openFlags(p, x.X)
		b, ok2 := openFlags(p, x.Y)
		return append(a, b...), ok1 && ok2
	case *ast.SelectorExpr:
		if id, ok := x.X.(*ast.Ident); ok && (id.Name == "os" || id.Name == "syscall") && strings.HasPrefix(x.Sel.Name, "O_") {
			return []string{x.Sel.Name}, true
		}
	}
	return nil, false
}

// isTopLevel: the declaration is a package-level var spec.
func isTopLevel(p *pkg, decl interface{}) bool {
	vs, ok := decl.(*ast.ValueSpec)
	if !ok {
		return false
	}
	for _, fn := range p.sortedFiles() {
		for _, d := range p.files[fn].Decls {
			if gd, ok := d.(*ast.GenDecl); ok && gd.Tok == token.VAR {
				for _, sp := range gd.Specs {
					if sp == vs {
						return true
					}
				}
			}
		}
	}
	return false
}
