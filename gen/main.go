// Command verifgen translates parts of /repo's current source into Coq
// definitions under coq/theories/Gen. It uses only go/parser and go/ast; it
// never executes the code it reads. Source shapes it does not recognise are
// emitted as explicit Unknown constructors, never dropped.
package main

import (
	"flag"
	"fmt"
	"os"
	"path/filepath"
)

type emitter struct {
	name string
	fn   func(repo string) (string, error)
}

var emitters = []emitter{}

func register(name string, fn func(repo string) (string, error)) {
	emitters = append(emitters, emitter{name, fn})
}

func main() {
	repo := flag.String("repo", "/repo", "repository root")
	out := flag.String("out", "", "output directory (coq/theories/Gen)")
	flag.Parse()
	if *out == "" {
		fmt.Fprintln(os.Stderr, "need -out")
		os.Exit(2)
	}
	fail := false
	for _, e := range emitters {
		s, err := e.fn(*repo)
		if err != nil {
			fmt.Fprintf(os.Stderr, "gen %s: %v\n", e.name, err)
			// An emitter that cannot read its sources writes a file that does
			// not compile, so dependent obligations fail visibly.
			s = fmt.Sprintf("(* generation failed: %s *)\nDefinition gen_failed : False := I.\n", err)
			fail = true
		}
		if err := writeIfChanged(filepath.Join(*out, e.name+".v"), s); err != nil {
			fmt.Fprintf(os.Stderr, "write %s: %v\n", e.name, err)
			os.Exit(2)
		}
	}
	if fail {
		os.Exit(1)
	}
}
