package main

// The functions of /repo that gotrans.go translates, one generated file
// coq/theories/Gen/Code<Area>.v per area.  The refinement lemmas are in
// coq/theories/<Area>/CodeRefine.v.

// sniproxy decoder methods (decoder.go): d.r is an abstract reader; d.n, d.err, d.tail are state.
var (
	dR    = pspec{src: "d.r", name: "d_r", typ: "object:reader"}
	dN    = pspec{src: "d.n", name: "d_n", typ: "int64"}
	dErr  = pspec{src: "d.err", name: "d_err", typ: "error"}
	dTail = pspec{src: "d.tail", name: "d_tail", typ: "int64"}
)

var (
	eW   = pspec{src: "e.w", name: "e_w", typ: "object:writer"}
	eN   = pspec{src: "e.n", name: "e_n", typ: "int64"}
	eErr = pspec{src: "e.err", name: "e_err", typ: "error"}
)

func encT(name string, res bool, ps ...pspec) codeTarget {
	cfg := transCfg{res: res, params: ps,
		libAlias: map[string]string{"endian.PutUint64": "encoding/binary.LittleEndian.PutUint64"},
		calls: map[string]string{
			"e.hasErr": "sniproxy|encoder|hasErr", "e.write": "sniproxy|encoder|write",
			"e.u64": "sniproxy|encoder|u64", "e.bytes": "sniproxy|encoder|bytes"}}
	if res {
		cfg.stateOut = []string{"e.n", "e.err"}
	}
	return codeTarget{dir: "sniproxy", recv: "encoder", name: name, cfg: cfg}
}

func decT(name string, res bool, ps ...pspec) codeTarget {
	cfg := transCfg{res: res, params: ps,
		errLits:  map[string]bool{"tailError": true},
		libAlias: map[string]string{"endian.Uint64": "encoding/binary.LittleEndian.Uint64"},
		calls: map[string]string{
			"d.hasErr": "sniproxy|decoder|hasErr", "d.read": "sniproxy|decoder|read",
			"d.u64": "sniproxy|decoder|u64", "d.bytes": "sniproxy|decoder|bytes",
			"d.tailError": "sniproxy|decoder|tailError"},
		fuel: "S (rd_size d_r_rd)"}
	if res {
		for _, p := range ps {
			switch p.src {
			case "d.n", "d.err", "d.tail":
				cfg.stateOut = append(cfg.stateOut, p.src)
			case "buf":
				if name == "read" {
					cfg.stateOut = append(cfg.stateOut, p.src)
				}
			}
		}
	}
	return codeTarget{dir: "sniproxy", recv: "decoder", name: name, cfg: cfg}
}

func init() {
	register("CodeCaco", func(repo string) (string, error) {
		return emitCodeArea(repo, "CodeCaco", []codeTarget{
			{dir: "caco3", name: "makeRelPath"},
			{dir: "caco3", name: "makePath"},
			// C10: the stat comparison that decides whether a source file is unchanged
			{dir: "caco3", name: "sameFileStat", cfg: transCfg{params: []pspec{
				{src: "newFileStat(env, stat.Name, stat.Type)", name: "cur_err", typ: "(nonnil?,error)"},
				{src: "cur.Size", name: "cur_Size", typ: "int64"},
				{src: "cur.ModTimestamp", name: "cur_ModTimestamp", typ: "int64"},
				{src: "cur.Mode", name: "cur_Mode", typ: "uint32"},
				{src: "cur.Symlink", name: "cur_Symlink", typ: "string"},
				{src: "stat.Size", name: "stat_Size", typ: "int64"},
				{src: "stat.ModTimestamp", name: "stat_ModTimestamp", typ: "int64"},
				{src: "stat.Mode", name: "stat_Mode", typ: "uint32"},
				{src: "stat.Symlink", name: "stat_Symlink", typ: "string"},
			}}},
		})
	})
	register("CodeKv", func(repo string) (string, error) {
		hash := map[string]extern{
			"hashutil.HashStr": {name: "hashutil_HashStr", args: []string{"string"}, res: []string{"string"}},
		}
		return emitCodeArea(repo, "CodeKv", []codeTarget{
			{dir: "pisces", name: "keyHash", cfg: transCfg{externs: hash}},
			{dir: "pisces", name: "kvMapKey"},
			{dir: "pisces", name: "partialKeys", cfg: transCfg{checked: true, params: []pspec{
				{src: "p.Offset", name: "p_Offset", typ: "uint64"},
				{src: "p.N", name: "p_N", typ: "uint64"},
				{src: "keys", name: "keys", typ: "[]string"},
			}}},
		})
	})
	register("CodeSni", func(repo string) (string, error) {
		return emitCodeArea(repo, "CodeSni", []codeTarget{
			{dir: "sniproxy", name: "isRejectedDomain", cfg: transCfg{externs: map[string]extern{
				"net.ParseIP": {name: "net_ParseIP_notnil", args: []string{"string"}, res: []string{tNonnil}},
			}}},
			// C13: the wire decoder over an abstract reader; receiver fields n, err, tail are state
			decT("hasErr", false, dErr),
			decT("Err", false, dErr),
			decT("count", false, dN),
			decT("overread", false, dErr),
			decT("tailError", false, dTail),
			decT("read", true, dR, dN, dErr, pspec{src: "buf", name: "buf", typ: "[]byte"}),
			decT("rest", true, dR, dN, dErr),
			decT("u8", true, dR, dN, dErr),
			decT("u64", true, dR, dN, dErr),
			decT("bytes", true, dR, dN, dErr, pspec{src: "buf", name: "buf", typ: "[]byte"}),
			decT("str", true, dR, dN, dErr),
			decT("end", true, dR, dErr, dTail),
			// C13: the wire encoder over an abstract writer; n and err are state
			encT("hasErr", false, eErr),
			encT("Err", false, eErr),
			encT("write", true, eW, eN, eErr, pspec{src: "bs", name: "bs", typ: "[]byte"}),
			encT("u64", true, eW, eN, eErr, pspec{src: "v", name: "v", typ: "uint64"}),
			encT("u8", true, eW, eN, eErr, pspec{src: "v", name: "v", typ: "uint8"}),
			encT("bytes", true, eW, eN, eErr, pspec{src: "bs", name: "bs", typ: "[]byte"}),
			encT("str", true, eW, eN, eErr, pspec{src: "s", name: "s", typ: "string"}),
			// C14: the length of the second Peek of HelloInfo: the statements up to `recLen := ...`
			{dir: "sniproxy", recv: "TLSHelloConn", name: "HelloInfo", cfg: transCfg{
				coqName: "gen_sniproxy_HelloInfo_recLen", checked: true,
				sliceVar: "recLen", sliceEarly: true, results: []string{"int"},
				params: []pspec{{src: "c.br.Peek(headerLen)", name: "hdr_err", typ: "([]byte,error)"}}}},
		})
	})
	register("CodeCred", func(repo string) (string, error) {
		hash := map[string]extern{
			"s.hash": {name: "signer_hash", args: []string{"[]byte"}, res: []string{"[]byte"}},
		}
		now := pspec{src: "now(s.TimeFunc)", name: "tnow", typ: "time.Time"}
		return emitCodeArea(repo, "CodeCred", []codeTarget{
			{dir: "signer", name: "inWindow"},
			{dir: "signer", name: "refreshTTL"},
			{dir: "signer", recv: "Sessions", name: "NeedRefresh", cfg: transCfg{params: []pspec{
				{src: "s.refreshTTL", name: "s_refreshTTL", typ: "time.Duration"},
				{src: "ttl", name: "ttl", typ: "time.Duration"}}}},
			{dir: "signer", recv: "Signer", name: "Check", cfg: transCfg{externs: hash, params: []pspec{
				{src: "bs", name: "bs", typ: "[]byte"}}}},
			{dir: "signer", recv: "Signer", name: "CheckHex", cfg: transCfg{
				calls:  map[string]string{"s.Check": "signer|Signer|Check"},
				params: []pspec{{src: "str", name: "str", typ: "string"}}}},
			// the lifetime actually granted: the statements of Sessions.New up to `expires := ...`
			{dir: "signer", recv: "Sessions", name: "New", cfg: transCfg{
				coqName: "gen_signer_Sessions_New_expires",
				skip:    []string{"buf := new(bytes.Buffer)"}, sliceVar: "expires", sliceRes: 1,
				results: []string{"time.Time"},
				params: []pspec{{src: "s.ttl", name: "s_ttl", typ: "time.Duration"}, now,
					{src: "ttl", name: "ttl", typ: "time.Duration"}}}},
			{dir: "signer", recv: "Sessions", name: "Check", cfg: transCfg{
				calls:  map[string]string{"s.s.CheckHex": "signer|Signer|CheckHex"},
				params: []pspec{now, {src: "session", name: "session", typ: "string"}}}},
			{dir: "signer", recv: "TimeSigner", name: "Check", cfg: transCfg{
				calls: map[string]string{"s.s.CheckHex": "signer|Signer|CheckHex"},
				params: []pspec{{src: "s.window", name: "s_window", typ: "time.Duration"}, now,
					{src: "token", name: "token", typ: "string"}}}},
			{dir: "jwt", name: "CheckTime", cfg: transCfg{params: []pspec{
				{src: "claims.Iat", name: "claims_Iat", typ: "int64"},
				{src: "claims.Exp", name: "claims_Exp", typ: "int64"},
				{src: "now", name: "now", typ: "time.Time"}}}},
			{dir: "jwt", name: "checkHeader", cfg: transCfg{params: []pspec{
				{src: "got.KeyID", name: "got_KeyID", typ: "string"}, {src: "got.Alg", name: "got_Alg", typ: "string"},
				{src: "got.Typ", name: "got_Typ", typ: "string"},
				{src: "want.KeyID", name: "want_KeyID", typ: "string"}, {src: "want.Alg", name: "want_Alg", typ: "string"},
				{src: "want.Typ", name: "want_Typ", typ: "string"}}}},
			{dir: "jwt", name: "CheckClaimSet", cfg: transCfg{params: []pspec{
				{src: "claims", name: "claims_nil", typ: tNilness}, {src: "tmpl", name: "tmpl_nil", typ: tNilness},
				{src: "claims.Iss", name: "claims_Iss", typ: "string"}, {src: "claims.Aud", name: "claims_Aud", typ: "string"},
				{src: "claims.Typ", name: "claims_Typ", typ: "string"}, {src: "claims.Sub", name: "claims_Sub", typ: "string"},
				{src: "claims.Scope", name: "claims_Scope", typ: "string"},
				{src: "tmpl.Iss", name: "tmpl_Iss", typ: "string"}, {src: "tmpl.Aud", name: "tmpl_Aud", typ: "string"},
				{src: "tmpl.Typ", name: "tmpl_Typ", typ: "string"}, {src: "tmpl.Sub", name: "tmpl_Sub", typ: "string"},
				{src: "tmpl.Scope", name: "tmpl_Scope", typ: "string"}}}},
			// the window a constructor stores: |w|
			{dir: "signer", name: "NewTimeSigner", cfg: transCfg{
				coqName: "gen_signer_NewTimeSigner_window", retField: "window", results: []string{"time.Duration"},
				params: []pspec{{src: "window", name: "window", typ: "time.Duration"}}}},
			{dir: "signer", name: "NewRSATimeSigner", cfg: transCfg{
				coqName: "gen_signer_NewRSATimeSigner_window", retField: "window", results: []string{"time.Duration"},
				params: []pspec{{src: "w", name: "w", typ: "time.Duration"}}}},
			{dir: "roles", name: "subtleStringEq"},
			{dir: "roles", name: "checkPassCode", cfg: transCfg{params: []pspec{
				{src: "claim", name: "claim", typ: "string"},
				{src: "code", name: "code_nil", typ: tNilness},
				{src: "code.Valid", name: "code_Valid_nil", typ: tNilness},
				{src: "code.Expire", name: "code_Expire_nil", typ: tNilness},
				{src: "code.Tried", name: "code_Tried", typ: "int"},
				{src: "code.Consumed", name: "code_Consumed", typ: "bool"},
				{src: "code.Valid.Time()", name: "code_Valid_Time", typ: "time.Time"},
				{src: "code.Expire.Time()", name: "code_Expire_Time", typ: "time.Time"},
				{src: "code.Code", name: "code_Code", typ: "string"},
				{src: "now", name: "now", typ: "time.Time"}}}},
		})
	})
	register("CodeArch", func(repo string) (string, error) {
		return emitCodeArea(repo, "CodeArch", []codeTarget{
			{dir: "ziputil", name: "inDir"},
			{dir: "dock", name: "inDir"},
		})
	})
	register("CodeObj", func(repo string) (string, error) {
		return emitCodeArea(repo, "CodeObj", []codeTarget{
			{dir: "objects", name: "isValidKey"},
			// hashutil.CheckReader.Read: what it passes on, given what the underlying reader returned
			{dir: "hashutil", recv: "CheckReader", name: "Read", cfg: transCfg{
				stateOut: []string{"r.n", "r.h"},
				appendTo: map[string]string{"r.h.Write": "r.h"},
				externs: map[string]extern{
					"r.h.Sum": {name: "sha256_Sum", args: []string{"state:r.h"}, res: []string{"[]byte"}},
				},
				params: []pspec{
					{src: "r.r.Read(buf)", name: "n_err", typ: "(int,error)"},
					{src: "buf", name: "buf", typ: "[]byte"},
					{src: "r.n", name: "r_n", typ: "int64"},
					{src: "r.h", name: "r_h", typ: "[]byte"},
					{src: "r.wantLen", name: "r_wantLen", typ: "int64"},
					{src: "r.wantSha256", name: "r_wantSha256", typ: "[]byte"},
				}}},
		})
	})
	register("CodeAries", func(repo string) (string, error) {
		routes := pspec{src: "r.routes", name: "r_routes", typ: "[]string"}
		return emitCodeArea(repo, "CodeAries", []codeTarget{
			{dir: "aries", recv: "route", name: "size", cfg: transCfg{params: []pspec{routes}}},
			{dir: "aries", recv: "route", name: "relRoute", cfg: transCfg{params: []pspec{
				routes, {src: "i", name: "i", typ: "int"}}}},
			{dir: "aries", recv: "C", name: "ShiftRoute", cfg: transCfg{
				stateOut: []string{"c.routePos"},
				calls:    map[string]string{"c.route.size": "aries|route|size"},
				params: []pspec{{src: "c.route.routes", name: "c_route_routes", typ: "[]string"},
					{src: "c.routePos", name: "c_routePos", typ: "int"},
					{src: "inc", name: "inc", typ: "int"}}}},
		})
	})
	register("CodeLexing", func(repo string) (string, error) {
		tm := map[string]string{"*Error": "goerr", "[]*Error": "[]goerr", "*Token": "token"}
		lex := func(name string) codeTarget {
			return codeTarget{dir: "lexing", name: name, cfg: transCfg{
				res: true, fuel: "S (List.length x_in)", typeMap: tm,
				objects: map[string]string{"x": "lexer"}}}
		}
		return emitCodeArea(repo, "CodeLexing", []codeTarget{
			// ErrorList.Add: the receiver's fields are state; e == nil is the Go panic
			{dir: "lexing", recv: "ErrorList", name: "Add", cfg: transCfg{
				res: true, typeMap: tm, stateOut: []string{"lst.errs", "lst.inJail"},
				params: []pspec{
					{src: "lst.errs", name: "lst_errs", typ: "[]goerr"},
					{src: "lst.Max", name: "lst_Max", typ: "int"},
					{src: "lst.inJail", name: "lst_inJail", typ: "bool"},
					{src: "e", name: "e_nil", typ: tNilness},
					{src: "e", name: "e", typ: "goerr"}}}},
			{dir: "lexing", name: "IsLetter"},
			{dir: "lexing", name: "IsDigit"},
			{dir: "lexing", name: "IsHexDigit"},
			{dir: "lexing", name: "IsIdentLetter"},
			{dir: "lexing", name: "IsWhite"},
			{dir: "lexing", name: "IsWhiteOrEndl"},
			lex("lexLineComment"),
			lex("lexBlockComment"),
			lex("LexComment"),
			lex("LexNumber"),
			lex("LexIdent"),
			{dir: "lexing", name: "digitVal"},
			lex("lexEscape"),
			lex("LexRawString"),
			lex("LexString"),
		})
	})
}
