package main

// The functions of /repo that gotrans.go translates, one generated file
// coq/theories/Gen/Code<Area>.v per area.  The refinement lemmas are in
// coq/theories/<Area>/CodeRefine.v.

func init() {
	register("CodeCaco", func(repo string) (string, error) {
		return emitCodeArea(repo, "CodeCaco", []codeTarget{
			{dir: "caco3", name: "makeRelPath"},
			{dir: "caco3", name: "makePath"},
		})
	})
	register("CodeKv", func(repo string) (string, error) {
		hash := map[string]extern{
			"hashutil.HashStr": {name: "hashutil_HashStr", args: []string{"string"}, res: []string{"string"}},
		}
		return emitCodeArea(repo, "CodeKv", []codeTarget{
			{dir: "pisces", name: "keyHash", cfg: transCfg{externs: hash}},
			{dir: "pisces", name: "kvMapKey"},
		})
	})
	register("CodeSni", func(repo string) (string, error) {
		return emitCodeArea(repo, "CodeSni", []codeTarget{
			{dir: "sniproxy", name: "isRejectedDomain", cfg: transCfg{externs: map[string]extern{
				"net.ParseIP": {name: "net_ParseIP_notnil", args: []string{"string"}, res: []string{tNonnil}},
			}}},
		})
	})
	register("CodeCred", func(repo string) (string, error) {
		return emitCodeArea(repo, "CodeCred", []codeTarget{
			{dir: "signer", name: "inWindow"},
		})
	})
}
