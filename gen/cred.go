package main

import (
	"fmt"
	"go/ast"
	"go/constant"
	"go/token"
	"path/filepath"
	"strings"
)

// CredConsts: constants and guard skeletons of the credential code (C16).
//
// Extracted: the integer/string constants the models use (timestamp length,
// passcode limits and windows, JWT grace period, algorithm and type names) and,
// for every function the models transcribe, its "guard skeleton": the
// conditions of its if statements, its return statements, its increments and
// its assignments to struct fields, in source order, as normalised source
// text.  Cred/CredGen.v compares both with the values the models were written
// against.
func init() { register("CredConsts", genCred) }

type credFn struct{ pkg, recv, name string }

var credFns = []credFn{
	{"signer", "Signer", "Sign"},
	{"signer", "Signer", "Check"},
	{"signer", "Signer", "SignHex"},
	{"signer", "Signer", "CheckHex"},
	{"signer", "Sessions", "New"},
	{"signer", "Sessions", "Check"},
	{"signer", "", "signTime"},
	{"signer", "", "NewTimeSigner"},
	{"signer", "TimeSigner", "Check"},
	{"signer", "", "inWindow"},
	{"signer", "", "NewRSATimeSigner"},
	{"signer", "RSATimeSigner", "Check"},
	{"jwt", "", "decodeSegmentBytes"},
	{"jwt", "", "encodeSegmentBytes"},
	{"jwt", "", "Decode"},
	{"jwt", "", "DecodeAndVerify"},
	{"jwt", "", "Verify"},
	{"jwt", "HS256", "Verify"},
	{"jwt", "", "checkHeader"},
	{"jwt", "", "CheckTime"},
	{"jwt", "", "CheckClaimSet"},
	{"identity", "jwtVerifier", "Verify"},
	{"identity", "", "publicKeyValid"},
	{"identity", "", "FindPublicKey"},
	{"identity", "", "VerifySelfToken"},
	{"roles", "", "checkPassCode"},
	{"roles", "Roles", "SetupWithCode"},
	{"roles", "Roles", "NewPassCode"},
	{"roles", "Roles", "SetPassCodeExpiry"},
}

// credObjects: the types whose values live across calls (one object, many
// calls).  For each the translator extracts the fields with their types and,
// for every method, the statements that write through the receiver.
var credObjects = []struct{ pkg, typ string }{
	{"signer", "Signer"}, {"signer", "Sessions"}, {"signer", "TimeSigner"}, {"signer", "RSATimeSigner"},
	{"jwt", "HS256"}, {"identity", "jwtVerifier"}, {"identity", "jwtSigner"}, {"identity", "simpleCore"},
	{"signin/authgate", "Gate"}, {"signin/authgate", "Exchange"}, {"signin/authgate", "Challenger"},
	{"roles", "Roles"},
}

// orderedFields lists (name, type text) of a struct in source order; embedded
// fields have the empty name.
func (p *pkg) orderedFields(name string) ([][2]string, bool) {
	for _, fn := range p.sortedFiles() {
		for _, d := range p.files[fn].Decls {
			gd, ok := d.(*ast.GenDecl)
			if !ok || gd.Tok != token.TYPE {
				continue
			}
			for _, s := range gd.Specs {
				ts := s.(*ast.TypeSpec)
				if ts.Name.Name != name {
					continue
				}
				st, ok := ts.Type.(*ast.StructType)
				if !ok {
					return nil, false
				}
				var out [][2]string
				for _, f := range st.Fields.List {
					if len(f.Names) == 0 {
						out = append(out, [2]string{"", p.src(f.Type)})
					}
					for _, n := range f.Names {
						out = append(out, [2]string{n.Name, p.src(f.Type)})
					}
				}
				return out, true
			}
		}
	}
	return nil, false
}

// credRootIdent strips selectors, indexing, dereferences and parentheses.
func credRootIdent(e ast.Expr) (*ast.Ident, bool) {
	depth := 0
	for {
		switch t := e.(type) {
		case *ast.Ident:
			return t, depth > 0
		case *ast.SelectorExpr:
			e = t.X
		case *ast.IndexExpr:
			e = t.X
		case *ast.StarExpr:
			e = t.X
		case *ast.ParenExpr:
			e = t.X
		default:
			return nil, false
		}
		depth++
	}
}

// receiverWrites lists the statements of a method that assign through its
// receiver (s.f = ..., s.f[i] = ..., s.f++, *s = ...).
func (p *pkg) receiverWrites(fd *ast.FuncDecl) []string {
	if fd.Recv == nil || len(fd.Recv.List) == 0 || len(fd.Recv.List[0].Names) == 0 || fd.Body == nil {
		return nil
	}
	recv := fd.Recv.List[0].Names[0].Name
	var out []string
	through := func(e ast.Expr) bool {
		id, deeper := credRootIdent(e)
		return id != nil && deeper && id.Name == recv
	}
	ast.Inspect(fd.Body, func(n ast.Node) bool {
		switch s := n.(type) {
		case *ast.AssignStmt:
			for _, l := range s.Lhs {
				if through(l) {
					out = append(out, p.src(s))
					break
				}
			}
		case *ast.IncDecStmt:
			if through(s.X) {
				out = append(out, p.src(s))
			}
		}
		return true
	})
	return out
}

// credParam reports whether name is a parameter (or the receiver) of fd.
func credParam(fd *ast.FuncDecl, name string) bool {
	for _, l := range []*ast.FieldList{fd.Recv, fd.Type.Params} {
		if l == nil {
			continue
		}
		for _, f := range l.List {
			for _, id := range f.Names {
				if id.Name == name {
					return true
				}
			}
		}
	}
	return false
}

// credLocalDef finds the single definition `name := rhs` / `var name T` of a
// local variable; n counts the definitions and assignments to it.
func credLocalDef(fd *ast.FuncDecl, name string) (rhs ast.Expr, varType ast.Expr, n int) {
	ast.Inspect(fd.Body, func(nd ast.Node) bool {
		switch s := nd.(type) {
		case *ast.AssignStmt:
			for i, l := range s.Lhs {
				if id, ok := l.(*ast.Ident); ok && id.Name == name {
					n++
					if len(s.Lhs) == len(s.Rhs) {
						rhs = s.Rhs[i]
					} else {
						rhs = nil
						n += 10 // multi-value: not followed
					}
				}
			}
		case *ast.DeclStmt:
			if gd, ok := s.Decl.(*ast.GenDecl); ok && gd.Tok == token.VAR {
				for _, sp := range gd.Specs {
					vs := sp.(*ast.ValueSpec)
					for i, id := range vs.Names {
						if id.Name == name {
							n++
							varType = vs.Type
							if i < len(vs.Values) {
								rhs = vs.Values[i]
							}
						}
					}
				}
			}
		}
		return true
	})
	return
}

// credOrigin says where the memory of a returned []byte comes from:
//   "nil"                     no memory
//   "fresh"                   a buffer made inside the function (new(bytes.Buffer) / var bytes.Buffer / make /
//                             a composite literal / append to one of those / the Bytes() of such a buffer)
//   "view-of-param <p>"       a sub-slice of the parameter p (the caller's memory, by design)
//   "param <p>"               the parameter itself
//   "append-to-param <p>"     append(p, ...): in place whenever p has spare capacity
//   "Unknown <text>"          anything else
func (p *pkg) credOrigin(fd *ast.FuncDecl, e ast.Expr, depth int) string {
	unknown := "Unknown " + p.src(e)
	if depth > 5 {
		return unknown
	}
	freshType := func(t ast.Expr) bool {
		s := p.src(t)
		return s == "bytes.Buffer" || s == "[]byte"
	}
	switch x := e.(type) {
	case *ast.ParenExpr:
		return p.credOrigin(fd, x.X, depth+1)
	case *ast.Ident:
		if x.Name == "nil" {
			return "nil"
		}
		if credParam(fd, x.Name) {
			return "param " + x.Name
		}
		rhs, vt, n := credLocalDef(fd, x.Name)
		if n != 1 {
			return unknown
		}
		if rhs == nil {
			if vt != nil && freshType(vt) {
				return "fresh"
			}
			return unknown
		}
		return p.credOrigin(fd, rhs, depth+1)
	case *ast.CompositeLit:
		return "fresh"
	case *ast.UnaryExpr:
		if x.Op == token.AND {
			if _, ok := x.X.(*ast.CompositeLit); ok {
				return "fresh"
			}
		}
	case *ast.SliceExpr:
		o := p.credOrigin(fd, x.X, depth+1)
		if strings.HasPrefix(o, "param ") {
			return "view-of-" + o
		}
		return o
	case *ast.CallExpr:
		if id, ok := x.Fun.(*ast.Ident); ok {
			switch id.Name {
			case "make":
				return "fresh"
			case "new":
				if len(x.Args) == 1 && freshType(x.Args[0]) {
					return "fresh"
				}
			case "append":
				if len(x.Args) > 0 {
					o := p.credOrigin(fd, x.Args[0], depth+1)
					switch {
					case o == "fresh":
						return "fresh"
					case o == "nil":
						return "fresh"
					case strings.HasPrefix(o, "param "), strings.HasPrefix(o, "view-of-param "):
						return "append-to-" + strings.TrimPrefix(o, "view-of-")
					}
					return unknown
				}
			}
		}
		if sel, ok := x.Fun.(*ast.SelectorExpr); ok && sel.Sel.Name == "Sum" && len(x.Args) == 1 {
			// hash.Hash.Sum(b) appends the digest to b
			o := p.credOrigin(fd, x.Args[0], depth+1)
			switch {
			case o == "nil", o == "fresh":
				return "fresh"
			case strings.HasPrefix(o, "param "), strings.HasPrefix(o, "view-of-param "):
				return "append-to-" + strings.TrimPrefix(o, "view-of-")
			}
			return unknown
		}
		if sel, ok := x.Fun.(*ast.SelectorExpr); ok && sel.Sel.Name == "Bytes" && len(x.Args) == 0 {
			if p.credOrigin(fd, sel.X, depth+1) == "fresh" {
				return "fresh"
			}
		}
	}
	return unknown
}

// credStoredKey describes, for every `Signer{key: X}` literal in signer.New,
// what X is: "param key" (the caller's slice itself), "copy-of-param key"
// (append to an empty slice), "make(<len>)+copy" (a buffer of that length
// filled by copy), "random" (rand.Bytes under the nil guard), else Unknown.
func (p *pkg) credStoredKey(fd *ast.FuncDecl) []string {
	var out []string
	ast.Inspect(fd.Body, func(n ast.Node) bool {
		cl, ok := n.(*ast.CompositeLit)
		if !ok || typeName(cl.Type) != "Signer" {
			return true
		}
		for _, el := range cl.Elts {
			kv, ok := el.(*ast.KeyValueExpr)
			if !ok {
				out = append(out, "Unknown "+p.src(el))
				continue
			}
			if id, ok := kv.Key.(*ast.Ident); !ok || id.Name != "key" {
				continue
			}
			out = append(out, p.credKeyExpr(fd, kv.Value))
		}
		return true
	})
	if len(out) == 0 {
		out = append(out, "Unknown no Signer literal")
	}
	return out
}

func (p *pkg) credKeyExpr(fd *ast.FuncDecl, e ast.Expr) string {
	switch x := e.(type) {
	case *ast.Ident:
		if credParam(fd, x.Name) {
			return "param " + x.Name
		}
		rhs, _, n := credLocalDef(fd, x.Name)
		if n == 1 && rhs != nil {
			if c, ok := rhs.(*ast.CallExpr); ok {
				if id, ok := c.Fun.(*ast.Ident); ok && id.Name == "make" && len(c.Args) >= 2 {
					return "make(" + p.src(c.Args[1]) + ")+copy"
				}
			}
			return p.credKeyExpr(fd, rhs)
		}
	case *ast.CallExpr:
		if id, ok := x.Fun.(*ast.Ident); ok && id.Name == "append" && len(x.Args) == 2 && x.Ellipsis.IsValid() {
			if o := p.credOrigin(fd, x.Args[0], 0); o == "fresh" || o == "nil" {
				if a, ok := x.Args[1].(*ast.Ident); ok && credParam(fd, a.Name) {
					return "copy-of-param " + a.Name
				}
			}
		}
		if strings.HasPrefix(p.src(x), "rand.Bytes(") {
			return "random"
		}
	}
	return "Unknown " + p.src(e)
}

// credResultOrigins lists, for every return statement of fd (function
// literals apart), the origin of result number idx.
func (p *pkg) credResultOrigins(fd *ast.FuncDecl, idx int) []string {
	var out []string
	var walk func(n ast.Node) bool
	walk = func(n ast.Node) bool {
		switch s := n.(type) {
		case *ast.FuncLit:
			return false
		case *ast.ReturnStmt:
			if idx < len(s.Results) {
				out = append(out, p.credOrigin(fd, s.Results[idx], 0))
			} else {
				out = append(out, "Unknown "+p.src(s))
			}
		}
		return true
	}
	ast.Inspect(fd.Body, walk)
	return out
}

// skeleton lists, in source order, what decides the outcome of a function.
func (p *pkg) skeleton(fd *ast.FuncDecl) []string {
	var out []string
	ast.Inspect(fd.Body, func(n ast.Node) bool {
		switch s := n.(type) {
		case *ast.IfStmt:
			out = append(out, "if "+p.src(s.Cond))
		case *ast.ReturnStmt:
			// a return of a function literal is described by its own statements
			lit := false
			for _, r := range s.Results {
				ast.Inspect(r, func(m ast.Node) bool {
					if _, ok := m.(*ast.FuncLit); ok {
						lit = true
					}
					return !lit
				})
			}
			if lit {
				out = append(out, "return <func>")
			} else {
				out = append(out, p.src(s))
			}
		case *ast.IncDecStmt:
			out = append(out, p.src(s))
		case *ast.AssignStmt, *ast.ExprStmt:
			// a statement containing a function literal is described by the
			// literal's own statements
			lit := false
			ast.Inspect(s, func(m ast.Node) bool {
				if _, ok := m.(*ast.FuncLit); ok {
					lit = true
				}
				return !lit
			})
			if lit {
				out = append(out, "<stmt with func>")
			} else {
				out = append(out, p.src(s))
			}
		case *ast.RangeStmt:
			out = append(out, "range "+p.src(s.X))
		case *ast.ForStmt:
			out = append(out, "for")
		case *ast.SwitchStmt, *ast.TypeSwitchStmt, *ast.SelectStmt, *ast.GoStmt, *ast.DeferStmt:
			out = append(out, "Unknown "+p.src(n))
		}
		return true
	})
	return out
}

func coqZ(v constant.Value) string {
	if v == nil {
		return "(0)%Z (* unevaluated *)"
	}
	return "(" + v.ExactString() + ")%Z"
}

// localConst finds `const name = expr` declared inside a function body.
func localConst(fd *ast.FuncDecl, name string, env map[string]constant.Value) constant.Value {
	var v constant.Value
	ast.Inspect(fd.Body, func(n ast.Node) bool {
		ds, ok := n.(*ast.DeclStmt)
		if !ok {
			return true
		}
		gd, ok := ds.Decl.(*ast.GenDecl)
		if !ok || gd.Tok != token.CONST {
			return true
		}
		for _, s := range gd.Specs {
			vs := s.(*ast.ValueSpec)
			for i, nm := range vs.Names {
				if nm.Name == name && i < len(vs.Values) {
					v = evalConst(vs.Values[i], env, 0)
				}
			}
		}
		return true
	})
	return v
}

// firstCallArg finds the first call `<x>.<method>(arg)` in the body and
// evaluates its single argument.
func firstCallArg(fd *ast.FuncDecl, method string, env map[string]constant.Value) constant.Value {
	var v constant.Value
	ast.Inspect(fd.Body, func(n ast.Node) bool {
		if v != nil {
			return false
		}
		c, ok := n.(*ast.CallExpr)
		if !ok || len(c.Args) != 1 {
			return true
		}
		s, ok := c.Fun.(*ast.SelectorExpr)
		if !ok || s.Sel.Name != method {
			return true
		}
		v = evalConst(c.Args[0], env, 0)
		return true
	})
	return v
}

// compositeField finds `field: <expr>` in the first composite literal of the
// body that has it, and evaluates it.
func compositeField(fd *ast.FuncDecl, field string, env map[string]constant.Value) constant.Value {
	var v constant.Value
	ast.Inspect(fd.Body, func(n ast.Node) bool {
		kv, ok := n.(*ast.KeyValueExpr)
		if !ok || v != nil {
			return true
		}
		if id, ok := kv.Key.(*ast.Ident); ok && id.Name == field {
			v = evalConst(kv.Value, env, 0)
		}
		return true
	})
	return v
}

func genCred(repo string) (string, error) {
	pkgs := map[string]*pkg{}
	for _, n := range []string{"signer", "jwt", "identity", "roles", "signin/authgate"} {
		p, err := loadPkg(filepath.Join(repo, n))
		if err != nil {
			return "", err
		}
		pkgs[n] = p
	}
	var b strings.Builder
	b.WriteString("(* Generated by gen/cred.go from signer/, jwt/, identity/, roles/. Do not edit. *)\n")
	b.WriteString("From Coq Require Import List NArith ZArith String.\nImport ListNotations.\nLocal Open Scope string_scope.\n\n")

	sc, _ := pkgs["signer"].consts()
	rc, _ := pkgs["roles"].consts()
	jc, _ := pkgs["jwt"].consts()
	ic, _ := pkgs["identity"].consts()
	fmt.Fprintf(&b, "Definition gen_timestamp_len : Z := %s.\n", coqZ(sc["timestampLen"]))
	fmt.Fprintf(&b, "Definition gen_pass_max_tries : Z := %s.\n", coqZ(rc["passCodeMaxTries"]))
	var buffer, expiry, grace constant.Value
	if fd := pkgs["roles"].funcDecl("Roles", "NewPassCode"); fd != nil {
		buffer = localConst(fd, "buffer", rc)
	}
	if fd := pkgs["roles"].funcDecl("", "NewWithName"); fd != nil {
		expiry = compositeField(fd, "passCodeExpiry", rc)
	}
	if fd := pkgs["jwt"].funcDecl("", "CheckTime"); fd != nil {
		grace = firstCallArg(fd, "Add", jc)
	}
	fmt.Fprintf(&b, "Definition gen_pass_valid_buffer : Z := %s.\n", coqZ(buffer))
	fmt.Fprintf(&b, "Definition gen_pass_default_expiry : Z := %s.\n", coqZ(expiry))
	fmt.Fprintf(&b, "(* the duration added to the issue time in CheckTime (negative: a grace period) *)\n")
	fmt.Fprintf(&b, "Definition gen_jwt_issue_shift : Z := %s.\n", coqZ(grace))
	str := func(m map[string]constant.Value, n string) string {
		if v, ok := m[n]; ok && v.Kind() == constant.String {
			return coqStr(constant.StringVal(v))
		}
		return coqStr("?missing " + n)
	}
	fmt.Fprintf(&b, "Definition gen_alg_hs256 : string := %s.\n", str(jc, "AlgHS256"))
	fmt.Fprintf(&b, "Definition gen_alg_rs256 : string := %s.\n", str(jc, "AlgRS256"))
	fmt.Fprintf(&b, "Definition gen_default_type : string := %s.\n", str(jc, "DefaultType"))
	fmt.Fprintf(&b, "Definition gen_rsa_key_type : string := %s.\n", str(ic, "rsaKeyType"))
	fmt.Fprintf(&b, "Definition gen_identity_self : string := %s.\n\n", str(ic, "Self"))

	b.WriteString("Definition gen_guards : list (string * list string) :=\n  [ ")
	for i, f := range credFns {
		p := pkgs[f.pkg]
		name := f.pkg + "."
		if f.recv != "" {
			name += f.recv + "."
		}
		name += f.name
		var sk []string
		fd := p.funcDecl(f.recv, f.name)
		if fd == nil || fd.Body == nil {
			sk = []string{"Unknown missing function"}
		} else {
			sk = p.skeleton(fd)
		}
		var items []string
		for _, s := range sk {
			items = append(items, coqStr(s))
		}
		if i > 0 {
			b.WriteString(";\n    ")
		}
		fmt.Fprintf(&b, "(%s,\n     [ %s ])", coqStr(name), strings.Join(items, ";\n       "))
	}
	b.WriteString(" ].\n\n")

	// long-lived objects: fields and writes through the receiver
	b.WriteString("(* Fields (name, type) of the types whose values live across calls. *)\n")
	b.WriteString("Definition gen_object_fields : list (string * list (string * string)) :=\n  [ ")
	for i, o := range credObjects {
		p := pkgs[o.pkg]
		fs, ok := p.orderedFields(o.typ)
		var items []string
		if !ok {
			items = append(items, "("+coqStr("?")+", "+coqStr("Unknown missing type")+")")
		}
		for _, f := range fs {
			items = append(items, "("+coqStr(f[0])+", "+coqStr(f[1])+")")
		}
		if i > 0 {
			b.WriteString(";\n    ")
		}
		fmt.Fprintf(&b, "(%s, [ %s ])", coqStr(o.pkg+"."+o.typ), strings.Join(items, "; "))
	}
	b.WriteString(" ].\n\n")
	b.WriteString("(* Every method of those types with the statements that assign through its receiver. *)\n")
	b.WriteString("Definition gen_receiver_writes : list (string * list string) :=\n  [ ")
	first := true
	for _, o := range credObjects {
		p := pkgs[o.pkg]
		for _, fd := range p.allFuncs() {
			if recvName(fd) != o.typ {
				continue
			}
			var items []string
			for _, w := range p.receiverWrites(fd) {
				items = append(items, coqStr(w))
			}
			if !first {
				b.WriteString(";\n    ")
			}
			first = false
			fmt.Fprintf(&b, "(%s, [ %s ])", coqStr(o.pkg+"."+o.typ+"."+fd.Name.Name), strings.Join(items, "; "))
		}
	}
	b.WriteString(" ].\n\n")

	// where the memory of returned byte slices comes from
	b.WriteString("(* For every return statement, the origin of the []byte result. *)\n")
	b.WriteString("Definition gen_result_origins : list (string * list string) :=\n  [ ")
	for i, f := range []struct {
		recv, name string
		idx        int
	}{{"Signer", "Sign", 0}, {"Signer", "Check", 1}, {"Signer", "hash", 0}} {
		fd := pkgs["signer"].funcDecl(f.recv, f.name)
		var items []string
		if fd == nil || fd.Body == nil {
			items = append(items, coqStr("Unknown missing function"))
		} else {
			for _, o := range pkgs["signer"].credResultOrigins(fd, f.idx) {
				items = append(items, coqStr(o))
			}
		}
		if i > 0 {
			b.WriteString(";\n    ")
		}
		fmt.Fprintf(&b, "(%s, [ %s ])", coqStr("signer."+f.recv+"."+f.name), strings.Join(items, "; "))
	}
	b.WriteString(" ].\n\n")
	b.WriteString("(* What signer.New stores as the signer's key, for every Signer literal it builds. *)\n")
	var sk []string
	if fd := pkgs["signer"].funcDecl("", "New"); fd != nil && fd.Body != nil {
		for _, o := range pkgs["signer"].credStoredKey(fd) {
			sk = append(sk, coqStr(o))
		}
	} else {
		sk = append(sk, coqStr("Unknown missing function"))
	}
	fmt.Fprintf(&b, "Definition gen_signer_stored_key : list string := [ %s ].\n", strings.Join(sk, "; "))
	return b.String(), nil
}
