package main

// Translator for pisces (C05, C06):
//   Gen/KvSql.v     per method of sqlite3KV and psqlKV the source-order events
//                   (statement shape parsed from the SQL text, Sprintf
//                   arguments, bound Go arguments, handle, Scan / sqlResError
//                   / transaction events) and MaxKeyLen;
//   Gen/KvMemSkel.v per method of memKV the source-order sequence of lock
//                   operations and accesses to the shared map and entries.
// Anything not recognised becomes an explicit Unknown constructor.

import (
	"fmt"
	"go/ast"
	"go/constant"
	"go/token"
	"path/filepath"
	"regexp"
	"strconv"
	"strings"
)

func init() {
	register("KvSql", genKvSql)
	register("KvMemSkel", genKvMemSkel)
}

var kvMethods = []string{
	"clear", "add", "get", "has", "set", "setClass", "remove", "emplace",
	"replace", "appendBytes", "mutate", "count", "walk", "walkClass",
	"walkPartial", "walkPartialClass",
}

// ---------------------------------------------------------------- SQL text

var (
	reIns  = regexp.MustCompile(`^insert into %s \(([a-z, ]+)\) values \(([?, ]+)\)(?: on conflict \(k\) (.+))?$`)
	reSel  = regexp.MustCompile(`^select (v|1|count\(1\)|k, c, v) from %s(?: where ([kcv])=\?)?(?: order by k( %s| asc| desc)?)?( limit %d offset %d)?$`)
	reUpd  = regexp.MustCompile(`^update %s set ([kcv])=\? where ([kcv])=\?$`)
	reDel  = regexp.MustCompile(`^delete from %s where ([kcv])=\?$`)
	rePsql = regexp.MustCompile(`\$([0-9]+)`)
)

func colOf(s string) string {
	switch strings.TrimSpace(s) {
	case "k":
		return "CK"
	case "c":
		return "CC"
	case "v":
		return "CV"
	}
	return ""
}

// normalisePlaceholders turns $1..$n (which must appear in increasing order,
// starting at 1) into ?; ok=false otherwise.
func normalisePlaceholders(q string) (string, bool) {
	ms := rePsql.FindAllStringSubmatch(q, -1)
	if len(ms) == 0 {
		return q, true
	}
	if strings.Contains(q, "?") {
		return q, false
	}
	for i, m := range ms {
		n, _ := strconv.Atoi(m[1])
		if n != i+1 {
			return q, false
		}
	}
	return rePsql.ReplaceAllString(q, "?"), true
}

func parseSQL(raw string) string {
	q := strings.Join(strings.Fields(raw), " ")
	unknown := "SUnknown " + coqStr(q)
	q, ok := normalisePlaceholders(q)
	if !ok {
		return unknown
	}
	switch q {
	case "delete from %s", "truncate table %s":
		return "SDeleteAll"
	}
	if m := reIns.FindStringSubmatch(q); m != nil {
		var cols []string
		for _, c := range strings.Split(m[1], ",") {
			cc := colOf(c)
			if cc == "" {
				return unknown
			}
			cols = append(cols, cc)
		}
		nph := strings.Count(m[2], "?")
		if nph != len(cols) || strings.Join(strings.Fields(m[2]), "") != strings.TrimSuffix(strings.Repeat("?,", nph), ",") {
			return unknown
		}
		oc := ""
		switch m[3] {
		case "":
			oc = "OcNone"
		case "do nothing":
			oc = "OcNothing"
		case "do update set v=excluded.v":
			oc = "OcSetV"
		case "do update set v = %s.v || excluded.v":
			oc = "OcAppendV"
		default:
			oc = "(OcUnknown " + coqStr(m[3]) + ")"
		}
		return fmt.Sprintf("(SInsert [%s] %s)", strings.Join(cols, "; "), oc)
	}
	if m := reSel.FindStringSubmatch(q); m != nil {
		what := map[string]string{"v": "SelV", "1": "SelOne", "count(1)": "SelCount", "k, c, v": "SelKCV"}[m[1]]
		wh := "None"
		if m[2] != "" {
			wh = "(Some " + colOf(m[2]) + ")"
		}
		ord := "OrdNone"
		if strings.Contains(q, " order by k") {
			switch m[3] {
			case "", " asc":
				ord = "OrdAsc"
			case " desc":
				ord = "OrdDesc"
			case " %s":
				ord = "OrdDyn"
			}
		}
		lim := "false"
		if m[4] != "" {
			lim = "true"
		}
		return fmt.Sprintf("(SSelect %s %s %s %s)", what, wh, ord, lim)
	}
	if m := reUpd.FindStringSubmatch(q); m != nil {
		return fmt.Sprintf("(SUpdate %s %s)", colOf(m[1]), colOf(m[2]))
	}
	if m := reDel.FindStringSubmatch(q); m != nil {
		return fmt.Sprintf("(SDelete %s)", colOf(m[1]))
	}
	return unknown
}

// kvStrLit evaluates a string literal or a + concatenation of literals.
func kvStrLit(e ast.Expr) (string, bool) {
	switch x := e.(type) {
	case *ast.BasicLit:
		if x.Kind != token.STRING {
			return "", false
		}
		s, err := strconv.Unquote(x.Value)
		return s, err == nil
	case *ast.BinaryExpr:
		if x.Op != token.ADD {
			return "", false
		}
		a, ok1 := kvStrLit(x.X)
		b, ok2 := kvStrLit(x.Y)
		return a + b, ok1 && ok2
	case *ast.ParenExpr:
		return kvStrLit(x.X)
	}
	return "", false
}

type sqlQuery struct {
	stmt string
	fmt  []string
}

func (p *pkg) sprintfQuery(e ast.Expr, recv string) (sqlQuery, bool) {
	c, ok := e.(*ast.CallExpr)
	if !ok {
		return sqlQuery{}, false
	}
	if p.src(c.Fun) != "fmt.Sprintf" || len(c.Args) == 0 {
		return sqlQuery{}, false
	}
	text, ok := kvStrLit(c.Args[0])
	if !ok {
		return sqlQuery{stmt: "(SUnknown " + coqStr(p.src(c.Args[0])) + ")"}, true
	}
	q := sqlQuery{stmt: parseSQL(text)}
	for _, a := range c.Args[1:] {
		switch s := p.src(a); s {
		case recv + ".table":
			q.fmt = append(q.fmt, "GTable")
		case "sqlOrderStr(p.Desc)":
			q.fmt = append(q.fmt, "GOrder")
		case "p.N":
			q.fmt = append(q.fmt, "GN")
		case "p.Offset":
			q.fmt = append(q.fmt, "GOff")
		default:
			q.fmt = append(q.fmt, "GArgUnknown "+coqStr(s))
		}
	}
	return q, true
}

func sqlArg(p *pkg, e ast.Expr) string {
	switch s := p.src(e); s {
	case "k":
		return "GK"
	case "cls":
		return "GCls"
	case "bs":
		return "GBs"
	case "newBytes":
		return "GNew"
	case `""`:
		return "GEmpty"
	default:
		return "GArgUnknown " + coqStr(s)
	}
}

// isErrReturn: `return err`, `return nil, err`, `return false, err`, `return 0, err`.
func isErrReturn(p *pkg, s ast.Stmt) bool {
	r, ok := s.(*ast.ReturnStmt)
	if !ok || len(r.Results) == 0 {
		return false
	}
	return p.src(r.Results[len(r.Results)-1]) == "err"
}

func isErrNotNil(p *pkg, e ast.Expr) bool { return p.src(e) == "err != nil" }

func (p *pkg) sqlEvents(fd *ast.FuncDecl) []string {
	recv := recvVar(fd)
	var evs []string
	var q sqlQuery
	haveQ := false
	unknown := func(n ast.Node) { evs = append(evs, "EUnknownEv "+coqStr(p.src(n))) }

	// dbCall recognises recv.db.X / Q1 / Q and tx.X / Q1 / Q.
	dbCall := func(e ast.Expr) (string, bool) {
		c, ok := e.(*ast.CallExpr)
		if !ok {
			return "", false
		}
		sel, ok := c.Fun.(*ast.SelectorExpr)
		if !ok {
			return "", false
		}
		handle := ""
		switch p.src(sel.X) {
		case recv + ".db":
			handle = "HDb"
		case "tx":
			handle = "HTx"
		default:
			return "", false
		}
		fn := map[string]string{"X": "FX", "Q1": "FQ1", "Q": "FQ"}[sel.Sel.Name]
		if fn == "" || len(c.Args) == 0 {
			return "", false
		}
		var cq sqlQuery
		if id, ok := c.Args[0].(*ast.Ident); ok && id.Name == "q" && haveQ {
			cq = q
		} else if qq, ok := p.sprintfQuery(c.Args[0], recv); ok {
			cq = qq
		} else {
			cq = sqlQuery{stmt: "(SUnknown " + coqStr(p.src(c.Args[0])) + ")"}
		}
		var args []string
		for _, a := range c.Args[1:] {
			args = append(args, sqlArg(p, a))
		}
		return fmt.Sprintf("ECall %s %s %s [%s] [%s]", handle, fn, cq.stmt,
			strings.Join(cq.fmt, "; "), strings.Join(args, "; ")), true
	}

	for _, st := range fd.Body.List {
		switch s := st.(type) {
		case *ast.DeclStmt:
			// var bs []byte etc.
			continue
		case *ast.AssignStmt:
			if len(s.Rhs) != 1 {
				unknown(s)
				continue
			}
			if len(s.Lhs) == 1 && p.src(s.Lhs[0]) == "q" {
				if qq, ok := p.sprintfQuery(s.Rhs[0], recv); ok {
					q, haveQ = qq, true
					continue
				}
				unknown(s)
				continue
			}
			if ev, ok := dbCall(s.Rhs[0]); ok {
				evs = append(evs, ev)
				continue
			}
			switch p.src(s.Rhs[0]) {
			case recv + ".db.Begin()":
				if p.src(s.Lhs[0]) == "tx" {
					evs = append(evs, "EBegin")
					continue
				}
			case "f(bs)":
				if p.src(s.Lhs[0]) == "newBytes" {
					evs = append(evs, "ECallUser")
					continue
				}
			}
			unknown(s)
		case *ast.DeferStmt:
			switch p.src(s.Call) {
			case "tx.Rollback()":
				evs = append(evs, "EDeferRollback")
			case "rows.Close()":
				evs = append(evs, "EDeferClose")
			default:
				unknown(s)
			}
		case *ast.IfStmt:
			// plain error propagation
			if s.Init == nil && s.Else == nil && isErrNotNil(p, s.Cond) &&
				len(s.Body.List) == 1 && isErrReturn(p, s.Body.List[0]) {
				continue
			}
			if s.Init != nil {
				init := p.src(s.Init)
				if init == "err := sqlResError(res)" && s.Else == nil && isErrNotNil(p, s.Cond) &&
					len(s.Body.List) == 1 && isErrReturn(p, s.Body.List[0]) {
					evs = append(evs, "EResErr")
					continue
				}
				if strings.HasPrefix(init, "has, err := row.Scan(&") && isErrNotNil(p, s.Cond) &&
					len(s.Body.List) == 1 && isErrReturn(p, s.Body.List[0]) {
					if e2, ok := s.Else.(*ast.IfStmt); ok && p.src(e2.Cond) == "!has" && e2.Else == nil &&
						len(e2.Body.List) == 1 {
						if r, ok := e2.Body.List[0].(*ast.ReturnStmt); ok {
							var rs []string
							for _, x := range r.Results {
								rs = append(rs, p.src(x))
							}
							evs = append(evs, "EScan "+coqStr(strings.Join(rs, ", ")))
							continue
						}
					}
				}
			}
			unknown(s)
		case *ast.ReturnStmt:
			var rs []string
			for _, x := range s.Results {
				rs = append(rs, p.src(x))
			}
			text := strings.Join(rs, ", ")
			switch text {
			case "sqlResError(res)":
				evs = append(evs, "EResErr")
			case "tx.Commit()", "sqlite3CommitTx(tx)":
				evs = append(evs, "ECommit")
			case "sqlIterRows(rows, f)":
				evs = append(evs, "EIterRows")
			default:
				evs = append(evs, "ERet "+coqStr(text))
			}
		default:
			// `row := b.db.Q1(...)` is an AssignStmt; anything else is unknown
			unknown(st)
		}
	}
	return evs
}

func genKvSql(repo string) (string, error) {
	p, err := loadPkg(filepath.Join(repo, "pisces"))
	if err != nil {
		return "", err
	}
	var b strings.Builder
	b.WriteString("(* generated from pisces/sqlite3_kv.go, pisces/psql_kv.go, pisces/kv_key.go; do not edit *)\n")
	b.WriteString("From Coq Require Import List NArith String.\nFrom Verif Require Import Kv.Sql.\nImport ListNotations.\nLocal Open Scope string_scope.\n\n")
	for _, be := range []struct{ typ, name string }{{"sqlite3KV", "sqlite"}, {"psqlKV", "psql"}} {
		var ms []string
		for _, m := range kvMethods {
			fd := p.funcDecl(be.typ, m)
			if fd == nil || fd.Body == nil {
				ms = append(ms, fmt.Sprintf("(%s, [ EUnknownEv \"method not found\" ])", coqStr(m)))
				continue
			}
			ms = append(ms, fmt.Sprintf("(%s, %s)", coqStr(m), coqListInline(p.sqlEvents(fd))))
		}
		fmt.Fprintf(&b, "Definition gen_%s_methods : methods :=\n  %s.\n\n", be.name, coqList(ms))
		fmt.Fprintf(&b, "Definition gen_%s_ops : list (string * string) :=\n  %s.\n\n", be.name, coqList(p.opsBinding(be.typ)))
	}
	// how mutate ends its transaction, and the helper it uses for that
	for _, be := range []struct{ typ, name string }{{"sqlite3KV", "sqlite"}, {"psqlKV", "psql"}} {
		how := ""
		if fd := p.funcDecl(be.typ, "mutate"); fd != nil && fd.Body != nil && len(fd.Body.List) > 0 {
			if r, ok := fd.Body.List[len(fd.Body.List)-1].(*ast.ReturnStmt); ok && len(r.Results) == 1 {
				how = p.src(r.Results[0])
			}
		}
		fmt.Fprintf(&b, "Definition gen_%s_commit : string := %s.\n", be.name, coqStr(how))
	}
	// psqlKV.mutate: how the transaction is begun and the raw text of its
	// SELECT (does it lock the row it is going to update?)
	{
		begin, sel := "", ""
		if fd := p.funcDecl("psqlKV", "mutate"); fd != nil && fd.Body != nil {
			ast.Inspect(fd.Body, func(n ast.Node) bool {
				c, ok := n.(*ast.CallExpr)
				if !ok {
					return true
				}
				fun := p.src(c.Fun)
				if strings.HasSuffix(fun, ".Begin") || strings.HasSuffix(fun, ".BeginTx") {
					begin = p.src(c)
				}
				if fun == "fmt.Sprintf" && len(c.Args) > 0 && sel == "" {
					if text, ok := strLit(c.Args[0]); ok {
						t := strings.ToLower(strings.Join(strings.Fields(text), " "))
						if strings.HasPrefix(t, "select") {
							sel = t
						}
					}
				}
				return true
			})
		}
		fmt.Fprintf(&b, "Definition gen_psql_mutate_begin : string := %s.\n", coqStr(begin))
		fmt.Fprintf(&b, "Definition gen_psql_mutate_select : string := %s.\n", coqStr(sel))
		lock := "false"
		if strings.Contains(sel, " for update") || strings.Contains(sel, " for no key update") {
			lock = "true"
		}
		fmt.Fprintf(&b, "Definition gen_psql_mutate_select_locks_row : bool := %s.\n", lock)
	}
	helper := ""
	if fd := p.funcDecl("", "sqlite3CommitTx"); fd != nil && fd.Body != nil {
		var parts []string
		for _, st := range fd.Body.List {
			parts = append(parts, p.src(st))
		}
		helper = strings.Join(parts, " ;; ")
	}
	fmt.Fprintf(&b, "Definition gen_sqlite_commit_helper : string := %s.\n\n", coqStr(helper))
	consts, _ := p.consts()
	fmt.Fprintf(&b, "Definition gen_max_key_len : N := %s.\n", coqN(consts["MaxKeyLen"]))
	// the scheme of the sqlite table: which columns are unique / not null
	scheme := ""
	if v, ok := consts["sqlite3KVScheme"]; ok {
		scheme = strings.Join(strings.Fields(constant.StringVal(v)), " ")
	}
	fmt.Fprintf(&b, "Definition gen_sqlite_scheme : string := %s.\n", coqStr(scheme))
	// ... and as a structure: (column, type, constraints); words that are not a
	// known constraint stay as they are (and fail the obligation)
	fmt.Fprintf(&b, "Definition gen_sqlite_columns : list (string * string * list string) :=\n  %s.\n",
		coqList(schemeColumns(scheme)))
	return b.String(), nil
}

// schemeColumns parses "( k text not null unique, c text not null, ... )".
func schemeColumns(scheme string) []string {
	body := strings.TrimSpace(scheme)
	body = strings.TrimSuffix(strings.TrimPrefix(body, "("), ")")
	var out []string
	for _, col := range strings.Split(body, ",") {
		f := strings.Fields(strings.ToLower(col))
		if len(f) < 2 {
			out = append(out, fmt.Sprintf("(%s, %s, [%s])", coqStr(strings.TrimSpace(col)), coqStr("?"), coqStr("unparsed")))
			continue
		}
		var cons []string
		for i := 2; i < len(f); i++ {
			switch {
			case f[i] == "not" && i+1 < len(f) && f[i+1] == "null":
				cons = append(cons, coqStr("not null"))
				i++
			case f[i] == "primary" && i+1 < len(f) && f[i+1] == "key":
				cons = append(cons, coqStr("primary key"))
				i++
			default:
				cons = append(cons, coqStr(f[i]))
			}
		}
		out = append(out, fmt.Sprintf("(%s, %s, [%s])", coqStr(f[0]), coqStr(f[1]), strings.Join(cons, "; ")))
	}
	return out
}

// opsBinding lists which method each KVOps field is bound to in ops().
func (p *pkg) opsBinding(typ string) []string {
	var binds []string
	if fd := p.funcDecl(typ, "ops"); fd != nil && fd.Body != nil {
		ast.Inspect(fd.Body, func(n ast.Node) bool {
			kv, ok := n.(*ast.KeyValueExpr)
			if !ok {
				return true
			}
			binds = append(binds, fmt.Sprintf("(%s, %s)", coqStr(p.src(kv.Key)), coqStr(p.src(kv.Value))))
			return true
		})
	}
	return binds
}

func coqListInline(items []string) string {
	if len(items) == 0 {
		return "[]"
	}
	return "[ " + strings.Join(items, ";\n      ") + " ]"
}

// ---------------------------------------------------------------- mem skeleton

type skel struct {
	p    *pkg
	recv string
	acts []string
	seen map[string]bool // helper methods being inlined (no recursion)
}

func (s *skel) emit(a string) { s.acts = append(s.acts, a) }

func (s *skel) isMap(e ast.Expr) bool { return s.p.src(e) == s.recv+".m" }

var pureCalls = map[string]bool{
	"newMemEntry": true, "make": true, "len": true, "int64": true, "sortKeys": true,
	"partialKeys": true, "errcode.InvalidArgf": true, "append": true,
}

func (s *skel) expr(e ast.Expr) {
	switch x := e.(type) {
	case nil:
	case *ast.CallExpr:
		fun := s.p.src(x.Fun)
		switch fun {
		case s.recv + ".mu.Lock":
			s.emit("ALock")
			return
		case s.recv + ".mu.RLock":
			s.emit("ARLock")
			return
		case s.recv + ".mu.Unlock":
			s.emit("AUnlock")
			return
		case s.recv + ".mu.RUnlock":
			s.emit("ARUnlock")
			return
		case "delete":
			if len(x.Args) == 2 && s.isMap(x.Args[0]) {
				s.expr(x.Args[1])
				s.emit("AWriteMap")
				return
			}
		case "entry.setBytes", "entry.appendBytes":
			for _, a := range x.Args {
				s.expr(a)
			}
			s.emit("AWriteEntry")
			return
		case "entry.bytes":
			s.emit("AReadEntry")
			return
		case "f":
			for _, a := range x.Args {
				s.expr(a)
			}
			s.emit("ACallUser")
			return
		}
		if fun == "make" {
			return
		}
		if pureCalls[fun] {
			for _, a := range x.Args {
				s.expr(a)
			}
			return
		}
		// helper method of the same receiver: inline its skeleton
		if sel, ok := x.Fun.(*ast.SelectorExpr); ok && s.p.src(sel.X) == s.recv {
			if fd := s.p.funcDecl("memKV", sel.Sel.Name); fd != nil && fd.Body != nil && !s.seen[sel.Sel.Name] {
				for _, a := range x.Args {
					s.expr(a)
				}
				inner := &skel{p: s.p, recv: recvVar(fd), seen: s.seen}
				s.seen[sel.Sel.Name] = true
				inner.block(fd.Body)
				delete(s.seen, sel.Sel.Name)
				s.acts = append(s.acts, inner.acts...)
				return
			}
		}
		s.emit("AUnknown " + coqStr(s.p.src(x)))
	case *ast.IndexExpr:
		s.expr(x.Index)
		if s.isMap(x.X) {
			s.emit("AReadMap")
			return
		}
		s.expr(x.X)
	case *ast.SelectorExpr:
		if s.isMap(x) {
			s.emit("AReadMap")
			return
		}
		if s.p.src(x) == "entry.cls" {
			s.emit("AReadEntry")
			return
		}
		s.expr(x.X)
	case *ast.BinaryExpr:
		s.expr(x.X)
		s.expr(x.Y)
	case *ast.UnaryExpr:
		s.expr(x.X)
	case *ast.ParenExpr:
		s.expr(x.X)
	case *ast.StarExpr:
		s.expr(x.X)
	case *ast.SliceExpr:
		s.expr(x.X)
		s.expr(x.Low)
		s.expr(x.High)
	case *ast.Ident, *ast.BasicLit:
	case *ast.CompositeLit:
		for _, el := range x.Elts {
			s.expr(el)
		}
	case *ast.KeyValueExpr:
		s.expr(x.Value)
	default:
		s.emit("AUnknown " + coqStr(s.p.src(e)))
	}
}

func (s *skel) stmt(st ast.Stmt) {
	switch x := st.(type) {
	case nil:
	case *ast.ExprStmt:
		s.expr(x.X)
	case *ast.DeferStmt:
		switch s.p.src(x.Call) {
		case s.recv + ".mu.Unlock()":
			s.emit("ADeferUnlock")
		case s.recv + ".mu.RUnlock()":
			s.emit("ADeferRUnlock")
		default:
			s.emit("AUnknown " + coqStr(s.p.src(x)))
		}
	case *ast.AssignStmt:
		for _, r := range x.Rhs {
			s.expr(r)
		}
		for _, l := range x.Lhs {
			switch lx := l.(type) {
			case *ast.IndexExpr:
				s.expr(lx.Index)
				if s.isMap(lx.X) {
					s.emit("AWriteMap")
				} else {
					s.expr(lx.X)
				}
			case *ast.SelectorExpr:
				if s.isMap(lx) {
					s.emit("AWriteMap")
				} else if s.p.src(lx) == "entry.cls" {
					s.emit("AWriteEntry")
				} else {
					s.emit("AUnknown " + coqStr(s.p.src(lx)))
				}
			case *ast.Ident:
			default:
				s.emit("AUnknown " + coqStr(s.p.src(l)))
			}
		}
	case *ast.DeclStmt:
	case *ast.ReturnStmt:
		for _, r := range x.Results {
			s.expr(r)
		}
	case *ast.IfStmt:
		s.stmt(x.Init)
		s.expr(x.Cond)
		s.block(x.Body)
		s.stmt(x.Else)
	case *ast.BlockStmt:
		s.block(x)
	case *ast.RangeStmt:
		s.expr(x.X)
		s.block(x.Body)
	case *ast.IncDecStmt:
		s.expr(x.X)
	default:
		s.emit("AUnknown " + coqStr(s.p.src(st)))
	}
}

func (s *skel) block(b *ast.BlockStmt) {
	if b == nil {
		return
	}
	for _, st := range b.List {
		s.stmt(st)
	}
}

func genKvMemSkel(repo string) (string, error) {
	p, err := loadPkg(filepath.Join(repo, "pisces"))
	if err != nil {
		return "", err
	}
	var b strings.Builder
	b.WriteString("(* generated from pisces/mem_kv.go; do not edit *)\n")
	b.WriteString("From Coq Require Import List String.\nFrom Verif Require Import Kv.Skel.\nImport ListNotations.\nLocal Open Scope string_scope.\n\n")
	var ms []string
	for _, m := range kvMethods {
		fd := p.funcDecl("memKV", m)
		if fd == nil || fd.Body == nil {
			ms = append(ms, fmt.Sprintf("(%s, [ AUnknown \"method not found\" ])", coqStr(m)))
			continue
		}
		s := &skel{p: p, recv: recvVar(fd), seen: map[string]bool{m: true}}
		s.block(fd.Body)
		ms = append(ms, fmt.Sprintf("(%s, [%s])", coqStr(m), strings.Join(s.acts, "; ")))
	}
	fmt.Fprintf(&b, "Definition gen_mem_skeletons : list (string * list act) :=\n  %s.\n\n", coqList(ms))
	// which memKV function each KVOps field is bound to
	fmt.Fprintf(&b, "Definition gen_mem_ops : list (string * string) :=\n  %s.\n", coqList(p.opsBinding("memKV")))
	return b.String(), nil
}
