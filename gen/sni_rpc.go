package main

// Skeleton extraction for the sniproxy RPC transport and endpoint registry
// (C03, C04, C15): for a fixed list of functions, the statement skeleton
// (every statement except logging, one line each, nesting shown by a depth
// prefix), every blocking point (select statements and bare channel
// operations, with the channel expression of each arm), which functions
// refer to serve's local table, and which statements touching
// Server.endpoints lie between mu.Lock() and the deferred mu.Unlock().
//
// Nothing is interpreted here: a statement of a shape that is not listed
// below becomes an "unknown <source text>" line, which cannot equal the
// frozen skeleton on the Coq side.

import (
	"fmt"
	"go/ast"
	"go/token"
	"path/filepath"
	"strings"
)

func init() {
	register("TransportSkel", genTransportSkel)
	register("ServerSkel", genServerSkel)
	register("DialSkel", genDialSkel)
}

type skelFn struct{ recv, name string }

func (f skelFn) String() string {
	if f.recv == "" {
		return f.name
	}
	return f.recv + "." + f.name
}

type bpoint struct {
	fn   string
	kind string // select | send | recv | range
	arms []string
}

type skelWalker struct {
	p      *pkg
	fn     string
	lines  []string
	points []bpoint
}

func (w *skelWalker) emit(depth int, format string, a ...interface{}) {
	w.lines = append(w.lines, fmt.Sprintf("%d %s", depth, fmt.Sprintf(format, a...)))
}

func isLogCall(e ast.Expr) bool {
	c, ok := e.(*ast.CallExpr)
	if !ok {
		return false
	}
	// schedule points of the verification hooks are no-ops in the default build
	if id, ok := c.Fun.(*ast.Ident); ok && (id.Name == "verifPoint" || id.Name == "verifPointTr") {
		return true
	}
	s, ok := c.Fun.(*ast.SelectorExpr)
	if !ok {
		return false
	}
	id, ok := s.X.(*ast.Ident)
	return ok && id.Name == "log"
}

// recvOf recognises `<-ch` possibly inside parentheses.
func recvOf(e ast.Expr) (ast.Expr, bool) {
	for {
		p, ok := e.(*ast.ParenExpr)
		if !ok {
			break
		}
		e = p.X
	}
	u, ok := e.(*ast.UnaryExpr)
	if ok && u.Op == token.ARROW {
		return u.X, true
	}
	return nil, false
}

func (w *skelWalker) armOf(s ast.Stmt) string {
	switch c := s.(type) {
	case nil:
		return "ADefault"
	case *ast.SendStmt:
		return "ASend " + coqStr(w.p.src(c.Chan))
	case *ast.ExprStmt:
		if ch, ok := recvOf(c.X); ok {
			return "ARecv " + coqStr(w.p.src(ch))
		}
	case *ast.AssignStmt:
		if len(c.Rhs) == 1 {
			if ch, ok := recvOf(c.Rhs[0]); ok {
				return "ARecv " + coqStr(w.p.src(ch))
			}
		}
	}
	return "AUnknown " + coqStr(w.p.src(s))
}

func (w *skelWalker) point(kind string, arms []string) {
	w.points = append(w.points, bpoint{fn: w.fn, kind: kind, arms: arms})
}

func (w *skelWalker) block(depth int, list []ast.Stmt) {
	for _, s := range list {
		w.stmt(depth, s)
	}
}

func (w *skelWalker) funcLit(depth int, what string, fl *ast.FuncLit) {
	w.emit(depth, "%s func", what)
	w.block(depth+1, fl.Body.List)
}

// closureArgs emits closures passed as arguments (sync.Once.Do(func(){...})).
func (w *skelWalker) callLike(depth int, what string, c *ast.CallExpr) {
	if fl, ok := c.Fun.(*ast.FuncLit); ok {
		w.funcLit(depth, what, fl)
		return
	}
	hasLit := false
	for _, a := range c.Args {
		if _, ok := a.(*ast.FuncLit); ok {
			hasLit = true
		}
	}
	if !hasLit {
		w.emit(depth, "%s %s", what, w.p.src(c))
		return
	}
	w.emit(depth, "%s %s with closure", what, w.p.src(c.Fun))
	for _, a := range c.Args {
		if fl, ok := a.(*ast.FuncLit); ok {
			w.block(depth+1, fl.Body.List)
		}
	}
}

func (w *skelWalker) stmt(depth int, s ast.Stmt) {
	switch x := s.(type) {
	case *ast.ExprStmt:
		if isLogCall(x.X) {
			return
		}
		if ch, ok := recvOf(x.X); ok {
			w.emit(depth, "recv %s", w.p.src(ch))
			w.point("recv", []string{"ARecv " + coqStr(w.p.src(ch))})
			return
		}
		if c, ok := x.X.(*ast.CallExpr); ok {
			if id, ok := c.Fun.(*ast.Ident); ok && id.Name == "close" && len(c.Args) == 1 {
				w.emit(depth, "close %s", w.p.src(c.Args[0]))
				return
			}
			w.callLike(depth, "call", c)
			return
		}
		w.emit(depth, "unknown %s", w.p.src(s))
	case *ast.SendStmt:
		w.emit(depth, "send %s", w.p.src(x.Chan))
		w.point("send", []string{"ASend " + coqStr(w.p.src(x.Chan))})
	case *ast.AssignStmt:
		if len(x.Rhs) == 1 {
			if ch, ok := recvOf(x.Rhs[0]); ok {
				w.emit(depth, "recv %s", w.p.src(ch))
				w.point("recv", []string{"ARecv " + coqStr(w.p.src(ch))})
				return
			}
			if fl, ok := x.Rhs[0].(*ast.FuncLit); ok {
				w.funcLit(depth, "assign "+w.p.src(x.Lhs[0])+" =", fl)
				return
			}
		}
		w.emit(depth, "assign %s", w.p.src(s))
	case *ast.IncDecStmt:
		w.emit(depth, "assign %s", w.p.src(s))
	case *ast.DeclStmt:
		if gd, ok := x.Decl.(*ast.GenDecl); ok {
			cp := *gd
			cp.Doc = nil
			w.emit(depth, "decl %s", w.p.src(&cp))
		} else {
			w.emit(depth, "decl %s", w.p.src(s))
		}
	case *ast.ReturnStmt:
		w.emit(depth, "%s", w.p.src(s))
	case *ast.BranchStmt:
		w.emit(depth, "%s", w.p.src(s))
	case *ast.DeferStmt:
		w.callLike(depth, "defer", x.Call)
	case *ast.GoStmt:
		w.callLike(depth, "go", x.Call)
	case *ast.BlockStmt:
		w.block(depth, x.List)
	case *ast.IfStmt:
		if x.Init != nil {
			w.stmt(depth, x.Init)
		}
		w.emit(depth, "if %s", w.p.src(x.Cond))
		w.block(depth+1, x.Body.List)
		if x.Else != nil {
			w.emit(depth, "else")
			switch e := x.Else.(type) {
			case *ast.BlockStmt:
				w.block(depth+1, e.List)
			default:
				w.stmt(depth+1, e)
			}
		}
	case *ast.ForStmt:
		if x.Init != nil || x.Post != nil {
			w.emit(depth, "unknown %s", w.p.src(s))
			return
		}
		if x.Cond != nil {
			w.emit(depth, "for %s", w.p.src(x.Cond))
		} else {
			w.emit(depth, "for")
		}
		w.block(depth+1, x.Body.List)
	case *ast.RangeStmt:
		w.emit(depth, "range %s", w.p.src(x.X))
		w.block(depth+1, x.Body.List)
	case *ast.SelectStmt:
		w.emit(depth, "select")
		var arms []string
		for _, cc := range x.Body.List {
			c := cc.(*ast.CommClause)
			a := w.armOf(c.Comm)
			arms = append(arms, a)
			w.emit(depth+1, "case %s", a)
			w.block(depth+2, c.Body)
		}
		w.point("select", arms)
	case *ast.SwitchStmt:
		if x.Init != nil {
			w.stmt(depth, x.Init)
		}
		tag := ""
		if x.Tag != nil {
			tag = w.p.src(x.Tag)
		}
		w.emit(depth, "switch %s", tag)
		for _, cc := range x.Body.List {
			c := cc.(*ast.CaseClause)
			var es []string
			for _, e := range c.List {
				es = append(es, w.p.src(e))
			}
			if c.List == nil {
				w.emit(depth+1, "default")
			} else {
				w.emit(depth+1, "case %s", strings.Join(es, ", "))
			}
			w.block(depth+2, c.Body)
		}
	default:
		w.emit(depth, "unknown %s", w.p.src(s))
	}
}

// refersTo reports whether the function body uses the plain identifier name
// (not a field or method selector of that name).
func refersTo(fd *ast.FuncDecl, name string) bool {
	found := false
	ast.Inspect(fd.Body, func(n ast.Node) bool {
		switch x := n.(type) {
		case *ast.SelectorExpr:
			ast.Inspect(x.X, func(m ast.Node) bool {
				if id, ok := m.(*ast.Ident); ok && id.Name == name {
					found = true
				}
				return true
			})
			return false
		case *ast.KeyValueExpr:
			ast.Inspect(x.Value, func(m ast.Node) bool {
				if id, ok := m.(*ast.Ident); ok && id.Name == name {
					found = true
				}
				return true
			})
			return false
		case *ast.Ident:
			if x.Name == name {
				found = true
			}
		}
		return true
	})
	return found
}

func emitSkel(b *strings.Builder, prefix string, pkgs []*pkg, fns [][]skelFn) {
	var entries, points []string
	for pi, p := range pkgs {
		for _, f := range fns[pi] {
			fd := p.funcDecl(f.recv, f.name)
			if fd == nil || fd.Body == nil {
				entries = append(entries, fmt.Sprintf("(%s, [ %s ])", coqStr(f.String()),
					coqStr("0 unknown function not found")))
				continue
			}
			w := &skelWalker{p: p, fn: f.String()}
			w.block(0, fd.Body.List)
			var ls []string
			for _, l := range w.lines {
				ls = append(ls, coqStr(l))
			}
			entries = append(entries, fmt.Sprintf("(%s,\n    %s)", coqStr(f.String()),
				strings.Replace(coqList(ls), "\n    ", "\n      ", -1)))
			for _, bp := range w.points {
				points = append(points, fmt.Sprintf("mkBP %s %s %s", coqStr(bp.fn), coqStr(bp.kind),
					"["+strings.Join(bp.arms, "; ")+"]"))
			}
		}
	}
	fmt.Fprintf(b, "Definition %s_skel : list (string * list string) :=\n  %s.\n\n", prefix, coqList(entries))
	fmt.Fprintf(b, "Definition %s_blocking : list bpoint :=\n  %s.\n\n", prefix, coqList(points))
}

const skelHeader = "(* GENERATED by /verif/gen from /repo on every run. Do not edit. *)\n" +
	"From Coq Require Import List String NArith.\nFrom Verif Require Import Sni.SchedSkel.\n" +
	"Import ListNotations.\nLocal Open Scope string_scope.\n\n"

func genTransportSkel(repo string) (string, error) {
	p, err := loadPkg(filepath.Join(repo, "sniproxy"))
	if err != nil {
		return "", err
	}
	q, err := loadPkg(filepath.Join(repo, "netutil"))
	if err != nil {
		return "", err
	}
	var b strings.Builder
	b.WriteString(skelHeader)
	fns := []skelFn{
		{"transport", "startShutdown"}, {"transport", "handleMessage"}, {"transport", "serveRead"},
		{"transport", "send"}, {"transport", "serve"}, {"transport", "hasShutdown"},
		{"transport", "asyncCall"}, {"transport", "call"}, {"transport", "shutdown"},
		{"", "newTransport"}, {"", "newCallExchange"}, {"", "newTransportCall"},
		{"", "newTunnel"}, {"tunnel", "Write"}, {"tunnel", "Read"}, {"tunnel", "Close"},
		{"endpointClient", "serve"}, {"endpointClient", "Close"}, {"endpointClient", "Dial"},
		{"", "newEndpoint"}, {"Endpoint", "sendAccept"}, {"Endpoint", "serve"}, {"Endpoint", "Accept"}, {"Endpoint", "Close"},
		{"connMailBox", "Close"}, {"connMailBox", "receive"}, {"connMailBox", "deliver"},
		{"closerOnce", "Close"},
		// the endpoint's dial handlers, its connection set and its serve loop
		{"endpointServer", "handleDial"}, {"endpointServer", "handleDialSide2"}, {"endpointServer", "handleDialSide"},
		{"endpointServer", "findSession"}, {"endpointServer", "handleClose"}, {"endpointServer", "sideConn"},
		{"endpointServer", "cleanup"}, {"endpointServer", "serve"},
		{"connections", "add"}, {"connections", "get"}, {"connections", "remove"}, {"connections", "shutdown"},
		{"", "newConnection"}, {"connection", "cleanup"},
		// the side dial's hand-over on the server
		{"connMailBox", "cleanUp"}, {"connMailBox", "discard"}, {"sideConn", "wait"}, {"Server", "serveBackSide"},
	}
	emitSkel(&b, "gen_transport", []*pkg{p, q}, [][]skelFn{fns, {{"", "JoinConn"}}})

	// Which functions of the package refer to an identifier named pending
	// (serve's local table)?
	var refs []string
	for _, fd := range p.allFuncs() {
		if fd.Body != nil && refersTo(fd, "pending") {
			refs = append(refs, coqStr(skelFn{recvName(fd), fd.Name.Name}.String()))
		}
	}
	fmt.Fprintf(&b, "Definition gen_pending_refs : list string :=\n  %s.\n\n", coqList(refs))

	// Is pending declared as a local variable of serve (and nowhere else at
	// package level or as a struct field)?
	local := "false"
	if fd := p.funcDecl("transport", "serve"); fd != nil && fd.Body != nil {
		for _, s := range fd.Body.List {
			if as, ok := s.(*ast.AssignStmt); ok && as.Tok == token.DEFINE && len(as.Lhs) == 1 {
				if id, ok := as.Lhs[0].(*ast.Ident); ok && id.Name == "pending" {
					local = "true"
				}
			}
		}
	}
	if _, isField := p.structFields("transport")["pending"]; isField {
		local = "false"
	}
	fmt.Fprintf(&b, "Definition gen_pending_local_to_serve : bool := %s.\n\n", local)

	// Capacities of the channels made in newTransport, and the tunnel context.
	consts, _ := p.consts()
	caps := []string{}
	if fd := p.funcDecl("", "newTransport"); fd != nil && fd.Body != nil {
		ast.Inspect(fd.Body, func(n ast.Node) bool {
			kv, ok := n.(*ast.KeyValueExpr)
			if !ok {
				return true
			}
			c, ok := kv.Value.(*ast.CallExpr)
			if !ok {
				return true
			}
			id, ok := c.Fun.(*ast.Ident)
			if !ok || id.Name != "make" {
				return true
			}
			capv := "0%N"
			if len(c.Args) == 2 {
				if v := evalConst(c.Args[1], consts, 0); v != nil {
					capv = coqN(v)
				} else {
					capv = "999999%N (* unevaluated *)"
				}
			}
			caps = append(caps, fmt.Sprintf("(%s, %s)", coqStr(p.src(kv.Key)), capv))
			return true
		})
	}
	fmt.Fprintf(&b, "Definition gen_chan_caps : list (string * N) :=\n  %s.\n\n", coqList(caps))

	// How the bytes of a frame are read.  (1) transport.handleMessage: every
	// call on the frame reader itself -- a method call whose receiver is the
	// function's io.Reader parameter, or io.ReadAtLeast / io.ReadFull / a
	// bufio wrapper given that parameter -- i.e. every read that does not go
	// through the decoder.  (2) the decoder: every call that reads from d.r,
	// with the method it is in and whether it stands in a for loop.
	var direct, drains []string
	if fd := p.funcDecl("transport", "handleMessage"); fd != nil && fd.Body != nil {
		readers := map[string]bool{}
		for _, f := range fd.Type.Params.List {
			if p.src(f.Type) == "io.Reader" {
				for _, n := range f.Names {
					readers[n.Name] = true
				}
			}
		}
		ast.Inspect(fd.Body, func(n ast.Node) bool {
			c, ok := n.(*ast.CallExpr)
			if !ok {
				return true
			}
			if se, ok := c.Fun.(*ast.SelectorExpr); ok {
				if id, ok := se.X.(*ast.Ident); ok && readers[id.Name] {
					direct = append(direct, coqStr(p.src(c)))
					return true
				}
			}
			if p.src(c.Fun) == "newDecoder" {
				return true
			}
			for _, a := range c.Args {
				if id, ok := a.(*ast.Ident); ok && readers[id.Name] {
					switch p.src(c.Fun) {
					case "io.Copy", "io.ReadAll", "ioutil.ReadAll": // reads to EOF: however the bytes are cut
						drains = append(drains, coqStr(p.src(c)))
					default:
						direct = append(direct, coqStr(p.src(c)))
					}
				}
			}
			return true
		})
	} else {
		direct = append(direct, coqStr("<transport.handleMessage not found>"))
	}
	fmt.Fprintf(&b, "Definition gen_handleMessage_direct_reads : list string :=\n  %s.\n\n", coqList(direct))
	fmt.Fprintf(&b, "Definition gen_handleMessage_drains : list string :=\n  %s.\n\n", coqList(drains))
	var decReads []string
	for _, fd := range p.allFuncs() {
		if fd.Body == nil || recvName(fd) != "decoder" {
			continue
		}
		var walk func(n ast.Node, inLoop bool)
		walk = func(n ast.Node, inLoop bool) {
			ast.Inspect(n, func(m ast.Node) bool {
				switch x := m.(type) {
				case *ast.ForStmt:
					if m != n {
						walk(x.Body, true)
						return false
					}
				case *ast.CallExpr:
					txt := p.src(x)
					if wholeWord(txt, "d.r") && !strings.HasPrefix(txt, "newDecoder") {
						how := "once"
						if inLoop {
							how = "in a loop until EOF or error"
						}
						decReads = append(decReads, fmt.Sprintf("(%s, %s, %s)",
							coqStr("decoder."+fd.Name.Name), coqStr(p.src(x.Fun)), coqStr(how)))
						return false
					}
				}
				return true
			})
		}
		walk(fd.Body, false)
	}
	fmt.Fprintf(&b, "Definition gen_decoder_reads : list (string * string * string) :=\n  %s.\n\n", coqList(decReads))

	tctx := "unknown"
	if fd := p.funcDecl("", "newTunnel"); fd != nil && fd.Body != nil {
		ast.Inspect(fd.Body, func(n ast.Node) bool {
			kv, ok := n.(*ast.KeyValueExpr)
			if ok && p.src(kv.Key) == "ctx" {
				tctx = p.src(kv.Value)
			}
			return true
		})
	}
	fmt.Fprintf(&b, "Definition gen_tunnel_ctx : string := %s.\n\n", coqStr(tctx))

	// What the callers do when their context ends: the body of every select
	// arm on ctx.Done() in transport.call and transport.asyncCall, as skeleton
	// lines.
	var arms []string
	for _, f := range []skelFn{{"transport", "asyncCall"}, {"transport", "call"}} {
		fd := p.funcDecl(f.recv, f.name)
		if fd == nil || fd.Body == nil {
			arms = append(arms, fmt.Sprintf("(%s, [%s])", coqStr(f.String()), coqStr("0 unknown function not found")))
			continue
		}
		ast.Inspect(fd.Body, func(n ast.Node) bool {
			cc, ok := n.(*ast.CommClause)
			if !ok || cc.Comm == nil {
				return true
			}
			w := &skelWalker{p: p, fn: f.String()}
			if w.armOf(cc.Comm) != "ARecv "+coqStr("ctx.Done()") {
				return true
			}
			w.block(0, cc.Body)
			var ls []string
			for _, l := range w.lines {
				ls = append(ls, coqStr(l))
			}
			arms = append(arms, fmt.Sprintf("(%s, [%s])", coqStr(f.String()), strings.Join(ls, "; ")))
			return true
		})
	}
	fmt.Fprintf(&b, "Definition gen_ctx_done_arms : list (string * list string) :=\n  %s.\n\n", coqList(arms))

	// Who asks the serve goroutine to look a call up, and under which id:
	// every composite literal of type pendingFetch in the package, with the
	// function it is in and the expression of its id field.
	var makers []string
	for _, fd := range p.allFuncs() {
		if fd.Body == nil {
			continue
		}
		name := skelFn{recvName(fd), fd.Name.Name}.String()
		ast.Inspect(fd.Body, func(n ast.Node) bool {
			cl, ok := n.(*ast.CompositeLit)
			if !ok || typeName(cl.Type) != "pendingFetch" {
				return true
			}
			idx := "(none)"
			for _, e := range cl.Elts {
				if kv, ok := e.(*ast.KeyValueExpr); ok && p.src(kv.Key) == "id" {
					idx = p.src(kv.Value)
				}
			}
			makers = append(makers, fmt.Sprintf("(%s, %s)", coqStr(name), coqStr(idx)))
			return true
		})
	}
	fmt.Fprintf(&b, "Definition gen_pendingFetch_makers : list (string * string) :=\n  %s.\n\n", coqList(makers))

	// Who writes the id of an exchange: every assignment to a field named id.
	var writers []string
	for _, fd := range p.allFuncs() {
		if fd.Body == nil {
			continue
		}
		name := skelFn{recvName(fd), fd.Name.Name}.String()
		ast.Inspect(fd.Body, func(n ast.Node) bool {
			as, ok := n.(*ast.AssignStmt)
			if !ok {
				return true
			}
			for _, l := range as.Lhs {
				if se, ok := l.(*ast.SelectorExpr); ok && se.Sel.Name == "id" {
					writers = append(writers, fmt.Sprintf("(%s, %s)", coqStr(name), coqStr(p.src(as))))
				}
			}
			return true
		})
	}
	fmt.Fprintf(&b, "Definition gen_exchange_id_writers : list (string * string) :=\n  %s.\n\n", coqList(writers))

	// What serve does with a call it takes off the queue once shutdownCalled
	// is set: the statements executed on that path of the calls arm, following
	// Go's control flow (an unlabelled break leaves the innermost for / switch /
	// select -- which is what decides whether a rejected call goes on to be
	// sent and recorded).
	path := []string{coqStr("unknown serve's calls arm not found")}
	if fd := p.funcDecl("transport", "serve"); fd != nil && fd.Body != nil {
		ast.Inspect(fd.Body, func(n ast.Node) bool {
			cc, ok := n.(*ast.CommClause)
			if !ok || cc.Comm == nil {
				return true
			}
			as, ok := cc.Comm.(*ast.AssignStmt)
			if !ok || len(as.Rhs) != 1 {
				return true
			}
			if ch, ok := recvOf(as.Rhs[0]); !ok || p.src(ch) != "tr.calls" {
				return true
			}
			pw := &pathWalker{p: p, truth: map[string]bool{"shutdownCalled": true}}
			pw.list(cc.Body)
			path = nil
			for _, l := range pw.lines {
				path = append(path, coqStr(l))
			}
			return false
		})
	}
	fmt.Fprintf(&b, "Definition gen_rejected_call_path : list string :=\n  %s.\n", coqList(path))
	return b.String(), nil
}

// ---- Server registry ----------------------------------------------------------

// lockedUses lists, for one function, every statement that mentions
// s.endpoints together with whether it lies after s.mu.Lock() and under a
// deferred s.mu.Unlock() at the top level of the function body.
func lockedUses(p *pkg, fd *ast.FuncDecl) []string {
	var out []string
	locked, deferred := false, false
	mentions := func(n ast.Node) bool {
		f := false
		ast.Inspect(n, func(m ast.Node) bool {
			if se, ok := m.(*ast.SelectorExpr); ok && se.Sel.Name == "endpoints" {
				f = true
			}
			return true
		})
		return f
	}
	for _, s := range fd.Body.List {
		src := p.src(s)
		if src == "s.mu.Lock()" {
			locked = true
			continue
		}
		if src == "defer s.mu.Unlock()" {
			deferred = true
			continue
		}
		if src == "s.mu.Unlock()" {
			locked = false
			continue
		}
		if mentions(s) {
			head := src
			if len(head) > 60 {
				head = head[:60]
			}
			ok := "false"
			if locked && deferred {
				ok = "true"
			}
			out = append(out, fmt.Sprintf("(%s, %s)", coqStr(head), ok))
		}
	}
	return out
}

func genServerSkel(repo string) (string, error) {
	p, err := loadPkg(filepath.Join(repo, "sniproxy"))
	if err != nil {
		return "", err
	}
	var b strings.Builder
	b.WriteString(skelHeader)
	fns := []skelFn{{"Server", "endpoint"}, {"Server", "unmap"}, {"Server", "upgrade"},
		{"Server", "ServeBackName"}, {"Server", "ServeBack"}}
	emitSkel(&b, "gen_server", []*pkg{p}, [][]skelFn{fns})

	var uses []string
	for _, fd := range p.allFuncs() {
		if fd.Body == nil {
			continue
		}
		u := lockedUses(p, fd)
		if len(u) > 0 {
			uses = append(uses, fmt.Sprintf("(%s, %s)", coqStr(skelFn{recvName(fd), fd.Name.Name}.String()),
				"["+strings.Join(u, "; ")+"]"))
		}
	}
	fmt.Fprintf(&b, "Definition gen_endpoints_uses : list (string * list (string * bool)) :=\n  %s.\n\n", coqList(uses))

	// The kick: which methods of the displaced client does the goroutine
	// started by upgrade call, and which methods of endpointClient end in an
	// unconditional close of the websocket (a top-level statement
	// c.conn.Close() of the method body)?
	var kicks []string
	if fd := p.funcDecl("Server", "upgrade"); fd != nil && fd.Body != nil {
		ast.Inspect(fd.Body, func(n ast.Node) bool {
			gs, ok := n.(*ast.GoStmt)
			if !ok {
				return true
			}
			fl, ok := gs.Call.Fun.(*ast.FuncLit)
			if !ok {
				kicks = append(kicks, coqStr("unknown "+p.src(gs.Call)))
				return false
			}
			ast.Inspect(fl.Body, func(m ast.Node) bool {
				if c, ok := m.(*ast.CallExpr); ok {
					if se, ok := c.Fun.(*ast.SelectorExpr); ok {
						if id, ok := se.X.(*ast.Ident); ok && id.Name == "old" {
							kicks = append(kicks, coqStr("old."+se.Sel.Name))
						}
					}
				}
				return true
			})
			return false
		})
	}
	fmt.Fprintf(&b, "Definition gen_kick_calls : list string :=\n  %s.\n\n", coqList(kicks))
	var forcing []string
	for _, fd := range p.allFuncs() {
		if fd.Body == nil || recvName(fd) != "endpointClient" {
			continue
		}
		for _, st := range fd.Body.List {
			if es, ok := st.(*ast.ExprStmt); ok && p.src(es.X) == "c.conn.Close()" {
				forcing = append(forcing, coqStr("old."+fd.Name.Name))
			}
		}
	}
	fmt.Fprintf(&b, "Definition gen_conn_closing_methods : list string :=\n  %s.\n\n", coqList(forcing))

	// Who changes the registry: the functions that assign to / delete from
	// an endpoints map, and every call of unmap with the function it is in and
	// whether it runs deferred.
	var regWriters, unmapCallers []string
	for _, fd := range p.allFuncs() {
		if fd.Body == nil {
			continue
		}
		name := skelFn{recvName(fd), fd.Name.Name}.String()
		writes := false
		isEndpoints := func(e ast.Expr) bool {
			ix, ok := e.(*ast.IndexExpr)
			if !ok {
				return false
			}
			se, ok := ix.X.(*ast.SelectorExpr)
			return ok && se.Sel.Name == "endpoints"
		}
		var walk func(n ast.Node, deferred bool)
		walk = func(n ast.Node, deferred bool) {
			ast.Inspect(n, func(m ast.Node) bool {
				switch x := m.(type) {
				case *ast.DeferStmt:
					walk(x.Call, true)
					return false
				case *ast.AssignStmt:
					for _, l := range x.Lhs {
						if isEndpoints(l) {
							writes = true
						}
					}
				case *ast.CallExpr:
					if id, ok := x.Fun.(*ast.Ident); ok && id.Name == "delete" && len(x.Args) == 2 {
						if se, ok := x.Args[0].(*ast.SelectorExpr); ok && se.Sel.Name == "endpoints" {
							writes = true
						}
					}
					if se, ok := x.Fun.(*ast.SelectorExpr); ok && se.Sel.Name == "unmap" {
						how := "plain"
						if deferred {
							how = "deferred"
						}
						unmapCallers = append(unmapCallers, fmt.Sprintf("(%s, %s)", coqStr(name), coqStr(how)))
					}
				}
				return true
			})
		}
		walk(fd.Body, false)
		if writes {
			regWriters = append(regWriters, coqStr(name))
		}
	}
	fmt.Fprintf(&b, "Definition gen_registry_writers : list string :=\n  %s.\n\n", coqList(regWriters))

	// Under which key is the registry accessed: the index expression of every
	// s.endpoints[...] and the key argument of every delete(s.endpoints, ...),
	// with the function it is in.
	var keys []string
	for _, fd := range p.allFuncs() {
		if fd.Body == nil {
			continue
		}
		name := skelFn{recvName(fd), fd.Name.Name}.String()
		ast.Inspect(fd.Body, func(n ast.Node) bool {
			switch x := n.(type) {
			case *ast.IndexExpr:
				if se, ok := x.X.(*ast.SelectorExpr); ok && se.Sel.Name == "endpoints" {
					keys = append(keys, fmt.Sprintf("(%s, %s)", coqStr(name), coqStr(p.src(x.Index))))
				}
			case *ast.CallExpr:
				if id, ok := x.Fun.(*ast.Ident); ok && id.Name == "delete" && len(x.Args) == 2 {
					if se, ok := x.Args[0].(*ast.SelectorExpr); ok && se.Sel.Name == "endpoints" {
						keys = append(keys, fmt.Sprintf("(%s, %s)", coqStr(name), coqStr(p.src(x.Args[1]))))
					}
				}
			}
			return true
		})
	}
	fmt.Fprintf(&b, "Definition gen_registry_keys : list (string * string) :=\n  %s.\n\n", coqList(keys))
	// The registration bracket: in every function that calls upgrade (which
	// stores the new client in the registry), the top-level statements between
	// that call -- with the error check that follows it -- and the defer that
	// calls unmap; each with whether it can leave the function (a return, a
	// panic, a goto, os.Exit / log.Fatal / runtime.Goexit anywhere inside).
	var brackets []string
	for _, fd := range p.allFuncs() {
		if fd.Body == nil {
			continue
		}
		name := skelFn{recvName(fd), fd.Name.Name}.String()
		callsUpgrade := func(st ast.Stmt) bool {
			as, ok := st.(*ast.AssignStmt)
			if !ok || len(as.Rhs) != 1 {
				return false
			}
			c, ok := as.Rhs[0].(*ast.CallExpr)
			if !ok {
				return false
			}
			se, ok := c.Fun.(*ast.SelectorExpr)
			return ok && se.Sel.Name == "upgrade"
		}
		mayExit := func(st ast.Stmt) bool {
			found := false
			ast.Inspect(st, func(n ast.Node) bool {
				switch x := n.(type) {
				case *ast.FuncLit:
					return false
				case *ast.ReturnStmt:
					found = true
				case *ast.BranchStmt:
					if x.Tok == token.GOTO {
						found = true
					}
				case *ast.CallExpr:
					switch p.src(x.Fun) {
					case "panic", "os.Exit", "runtime.Goexit", "log.Fatal", "log.Fatalf", "log.Fatalln", "log.Panic",
						"log.Panicf", "log.Panicln":
						found = true
					}
				}
				return true
			})
			return found
		}
		firstLine := func(n ast.Node) string {
			t := p.src(n)
			if i := strings.Index(t, "\n"); i >= 0 {
				t = t[:i]
			}
			return strings.TrimSpace(t)
		}
		list := fd.Body.List
		for i, st := range list {
			if !callsUpgrade(st) {
				continue
			}
			j := i + 1
			// the exit of a failed upgrade (nothing was registered): if err != nil { return err }
			if j < len(list) {
				if is, ok := list[j].(*ast.IfStmt); ok && is.Init == nil && is.Else == nil &&
					p.src(is.Cond) == "err != nil" && len(is.Body.List) == 1 {
					if _, ok := is.Body.List[0].(*ast.ReturnStmt); ok {
						j++
					}
				}
			}
			var between []string
			closed := false
			for ; j < len(list); j++ {
				if ds, ok := list[j].(*ast.DeferStmt); ok && strings.Contains(p.src(ds), ".unmap(") {
					closed = true
					break
				}
				between = append(between, fmt.Sprintf("(%s, %v)", coqStr(firstLine(list[j])), mayExit(list[j])))
			}
			if !closed {
				between = append(between, fmt.Sprintf("(%s, true)", coqStr("<end of function: no deferred unmap>")))
			}
			brackets = append(brackets, fmt.Sprintf("(%s, %s)", coqStr(name), coqList(between)))
		}
	}
	fmt.Fprintf(&b, "Definition gen_register_bracket : list (string * list (string * bool)) :=\n  %s.\n\n",
		coqList(brackets))
	// Under which conditions the disconnect notification is installed: for
	// every defer in ServeBackName whose body calls onDisconnect, the
	// conditions of the if statements it is nested in (outermost first)
	// followed by the conditions inside the deferred function around the call.
	var guards []string
	if fd := p.funcDecl("Server", "ServeBackName"); fd != nil && fd.Body != nil {
		var walk func(n ast.Node, conds []string, inDefer bool)
		walk = func(n ast.Node, conds []string, inDefer bool) {
			ast.Inspect(n, func(m ast.Node) bool {
				if m == n {
					return true
				}
				switch x := m.(type) {
				case *ast.IfStmt:
					c2 := append(append([]string{}, conds...), p.src(x.Cond))
					walk(x.Body, c2, inDefer)
					if x.Else != nil {
						walk(x.Else, append(append([]string{}, conds...), "!("+p.src(x.Cond)+")"), inDefer)
					}
					return false
				case *ast.DeferStmt:
					if strings.Contains(p.src(x), "onDisconnect(") {
						walk(x.Call, conds, true)
						return false
					}
				case *ast.CallExpr:
					if se, ok := x.Fun.(*ast.SelectorExpr); ok && se.Sel.Name == "onDisconnect" {
						how := "deferred"
						if !inDefer {
							how = "plain"
						}
						guards = append(guards, fmt.Sprintf("(%s, %s)", coqStr(how), coqList(quoteAll(conds))))
					}
				}
				return true
			})
		}
		walk(fd.Body, nil, false)
	}
	fmt.Fprintf(&b, "Definition gen_disconnect_defer_guard : list (string * list string) :=\n  %s.\n\n", coqList(guards))

	fmt.Fprintf(&b, "Definition gen_unmap_callers : list (string * string) :=\n  %s.\n", coqList(unmapCallers))
	return b.String(), nil
}

// ---- Dial handlers: who closes the connection on which exit -------------------------------

// The dial handlers of the endpoint (endpointServer.handleDial and
// handleDialSide2) create a connection, hand it to the application through
// acceptConn and -- handleDial only -- register it in the connection set.
// What matters for shutdown is which exits of the handler close the
// connection.  The body is translated statement by statement into the small
// vocabulary of Sni/DialSkel.v, with respect to ONE variable: the one that
// receives the result of the creating call (newConnection / s.sideConn).
//
//	HNew                      v := newConnection(..)
//	HNewOrFail [..]           v, err := s.sideConn(..); if err != nil { .. }
//	HDeferCloseIfSet          defer func() { if v != nil { v.cleanup() } }()
//	HDeferClose               defer v.cleanup() | defer v.Close()
//	HClose                    v.cleanup() | v.Close()
//	HDisown                   v = nil
//	HIfFails CAccept [..]     if err := s.acceptConn(<expr with v>); err != nil { .. }
//	HIfFails CAdd [..]        if err := s.conns.add(v); err != nil { .. }
//	HIf "cond" [..]           any other if without else
//	HReturn                   return <expr without v>
//	HSkip "text"              a statement that does not mention v
//	HUnknown "text"           anything else that mentions v
//
// Nothing is decided here; Sni/DialSkel.v executes the statements
// symbolically and Sni/ShutdownDialGen.v states what must come out.

func quoteAll(xs []string) []string {
	out := make([]string, len(xs))
	for i, x := range xs {
		out[i] = coqStr(x)
	}
	return out
}

// wholeWord: w occurs in s not followed or preceded by an identifier character.
func wholeWord(s, w string) bool {
	isID := func(c byte) bool {
		return c == '_' || (c >= '0' && c <= '9') || (c >= 'a' && c <= 'z') || (c >= 'A' && c <= 'Z')
	}
	for i := 0; i+len(w) <= len(s); i++ {
		if s[i:i+len(w)] != w {
			continue
		}
		if i > 0 && (isID(s[i-1]) || s[i-1] == '.') {
			continue
		}
		if i+len(w) < len(s) && isID(s[i+len(w)]) {
			continue
		}
		return true
	}
	return false
}

type dialWalker struct {
	p *pkg
	v string // the connection variable ("" until the creating statement was seen)
}

func mentions(n ast.Node, name string) bool {
	if name == "" || n == nil {
		return false
	}
	found := false
	ast.Inspect(n, func(m ast.Node) bool {
		if id, ok := m.(*ast.Ident); ok && id.Name == name {
			found = true
		}
		return true
	})
	return found
}

// creatingCall recognises newConnection(..) and s.sideConn(..).
func creatingCall(e ast.Expr) bool {
	c, ok := e.(*ast.CallExpr)
	if !ok {
		return false
	}
	switch f := c.Fun.(type) {
	case *ast.Ident:
		return f.Name == "newConnection"
	case *ast.SelectorExpr:
		return f.Sel.Name == "sideConn"
	}
	return false
}

// closeCallOn recognises v.cleanup() and v.Close().
func (w *dialWalker) closeCallOn(e ast.Expr) bool {
	c, ok := e.(*ast.CallExpr)
	if !ok || len(c.Args) != 0 {
		return false
	}
	se, ok := c.Fun.(*ast.SelectorExpr)
	if !ok || (se.Sel.Name != "cleanup" && se.Sel.Name != "Close") {
		return false
	}
	id, ok := se.X.(*ast.Ident)
	return ok && id.Name == w.v && w.v != ""
}

func errIsNotNil(e ast.Expr) bool {
	b, ok := e.(*ast.BinaryExpr)
	if !ok || b.Op != token.NEQ {
		return false
	}
	x, ok1 := b.X.(*ast.Ident)
	y, ok2 := b.Y.(*ast.Ident)
	return ok1 && ok2 && x.Name == "err" && y.Name == "nil"
}

func (w *dialWalker) list(ss []ast.Stmt) string {
	var out []string
	for i := 0; i < len(ss); i++ {
		s := ss[i]
		// v, err := s.sideConn(..) followed by if err != nil { .. }
		if as, ok := s.(*ast.AssignStmt); ok && as.Tok == token.DEFINE && len(as.Lhs) == 2 && len(as.Rhs) == 1 &&
			creatingCall(as.Rhs[0]) && w.v == "" && i+1 < len(ss) {
			if id, ok := as.Lhs[0].(*ast.Ident); ok {
				if ifs, ok := ss[i+1].(*ast.IfStmt); ok && ifs.Init == nil && ifs.Else == nil && errIsNotNil(ifs.Cond) {
					// the failure branch runs without a connection
					body := w.list(ifs.Body.List)
					w.v = id.Name
					out = append(out, "HNewOrFail "+body)
					i++
					continue
				}
			}
		}
		out = append(out, w.stmt(s))
	}
	return "[" + strings.Join(out, "; ") + "]"
}

func (w *dialWalker) stmt(s ast.Stmt) string {
	unknown := func() string { return "HUnknown " + coqStr(w.p.src(s)) }
	skipOrUnknown := func() string {
		if mentions(s, w.v) {
			return unknown()
		}
		return "HSkip " + coqStr(w.p.src(s))
	}
	switch x := s.(type) {
	case *ast.AssignStmt:
		if x.Tok == token.DEFINE && len(x.Lhs) == 1 && len(x.Rhs) == 1 && creatingCall(x.Rhs[0]) {
			if id, ok := x.Lhs[0].(*ast.Ident); ok && w.v == "" {
				w.v = id.Name
				return "HNew"
			}
			return unknown()
		}
		if x.Tok == token.ASSIGN && len(x.Lhs) == 1 && len(x.Rhs) == 1 {
			l, ok1 := x.Lhs[0].(*ast.Ident)
			r, ok2 := x.Rhs[0].(*ast.Ident)
			if ok1 && ok2 && l.Name == w.v && w.v != "" && r.Name == "nil" {
				return "HDisown"
			}
		}
		if len(x.Rhs) == 1 && creatingCall(x.Rhs[0]) {
			return unknown() // a second connection, or a shape not listed above
		}
		return skipOrUnknown()
	case *ast.ExprStmt:
		if isLogCall(x.X) {
			return "HSkip " + coqStr("log")
		}
		if w.closeCallOn(x.X) {
			return "HClose"
		}
		return skipOrUnknown()
	case *ast.DeferStmt:
		if w.closeCallOn(x.Call) {
			return "HDeferClose"
		}
		if fl, ok := x.Call.Fun.(*ast.FuncLit); ok && len(x.Call.Args) == 0 && len(fl.Body.List) == 1 {
			// defer func() { if v != nil { v.cleanup() } }()
			if ifs, ok := fl.Body.List[0].(*ast.IfStmt); ok && ifs.Init == nil && ifs.Else == nil && len(ifs.Body.List) == 1 {
				if b, ok := ifs.Cond.(*ast.BinaryExpr); ok && b.Op == token.NEQ {
					l, ok1 := b.X.(*ast.Ident)
					r, ok2 := b.Y.(*ast.Ident)
					if es, ok3 := ifs.Body.List[0].(*ast.ExprStmt); ok1 && ok2 && ok3 && l.Name == w.v && w.v != "" &&
						r.Name == "nil" && w.closeCallOn(es.X) {
						return "HDeferCloseIfSet"
					}
				}
			}
		}
		return skipOrUnknown()
	case *ast.IfStmt:
		if x.Else != nil {
			return unknown()
		}
		if x.Init != nil {
			as, ok := x.Init.(*ast.AssignStmt)
			if !ok || len(as.Rhs) != 1 || !errIsNotNil(x.Cond) {
				return unknown()
			}
			call, ok := as.Rhs[0].(*ast.CallExpr)
			if !ok {
				return unknown()
			}
			kind := "COtherCall " + coqStr(w.p.src(call))
			switch w.p.src(call.Fun) {
			case "s.acceptConn":
				if len(call.Args) == 1 && mentions(call.Args[0], w.v) {
					kind = "CAccept"
				}
			case "s.conns.add":
				if len(call.Args) == 1 {
					if id, ok := call.Args[0].(*ast.Ident); ok && id.Name == w.v && w.v != "" {
						kind = "CAdd"
					}
				}
			}
			if strings.HasPrefix(kind, "COtherCall") && mentions(call, w.v) {
				return unknown()
			}
			return "HIfFails " + maybeParen(kind) + " " + w.list(x.Body.List)
		}
		if mentions(x.Cond, w.v) {
			return unknown()
		}
		return "HIf " + coqStr(w.p.src(x.Cond)) + " " + w.list(x.Body.List)
	case *ast.ReturnStmt:
		if mentions(s, w.v) {
			return unknown()
		}
		return "HReturn"
	case *ast.BlockStmt:
		return unknown()
	}
	return skipOrUnknown()
}

func maybeParen(s string) string {
	if strings.Contains(s, " ") {
		return "(" + s + ")"
	}
	return s
}

func genDialSkel(repo string) (string, error) {
	p, err := loadPkg(filepath.Join(repo, "sniproxy"))
	if err != nil {
		return "", err
	}
	var b strings.Builder
	b.WriteString("(* GENERATED by /verif/gen from /repo on every run. Do not edit. *)\n" +
		"From Coq Require Import List String.\nFrom Verif Require Import Sni.DialSkel.\n" +
		"Import ListNotations.\nLocal Open Scope string_scope.\n\n")
	for _, f := range []skelFn{{"endpointServer", "handleDial"}, {"endpointServer", "handleDialSide2"}} {
		fd := p.funcDecl(f.recv, f.name)
		body := `[HUnknown "function not found"]`
		if fd != nil && fd.Body != nil {
			w := &dialWalker{p: p}
			body = w.list(fd.Body.List)
		}
		fmt.Fprintf(&b, "Definition gen_%s : list hstmt :=\n  %s.\n\n", f.name, body)
	}
	// which message types reach which handler (serveCall's switch)
	var routes []string
	if fd := p.funcDecl("endpointServer", "serveCall"); fd != nil && fd.Body != nil {
		ast.Inspect(fd.Body, func(n ast.Node) bool {
			cc, ok := n.(*ast.CaseClause)
			if !ok || len(cc.List) != 1 || len(cc.Body) != 1 {
				return true
			}
			if as, ok := cc.Body[0].(*ast.AssignStmt); ok && len(as.Rhs) == 1 {
				if call, ok := as.Rhs[0].(*ast.CallExpr); ok {
					routes = append(routes, fmt.Sprintf("(%s, %s)", coqStr(p.src(cc.List[0])), coqStr(p.src(call.Fun))))
				}
			}
			return true
		})
	}
	fmt.Fprintf(&b, "Definition gen_serveCall_routes : list (string * string) :=\n  %s.\n\n", coqList(routes))

	// Under which context does the side handler dial its side websocket?  The
	// first argument of every dialSide call in endpointServer.sideConn, traced
	// back to the expression that made it (ctx, cancel := <expr>).
	var ctxs []string
	if fd := p.funcDecl("endpointServer", "sideConn"); fd != nil && fd.Body != nil {
		defs := map[string]string{}
		ast.Inspect(fd.Body, func(n ast.Node) bool {
			if as, ok := n.(*ast.AssignStmt); ok && len(as.Rhs) == 1 && len(as.Lhs) >= 1 {
				if id, ok := as.Lhs[0].(*ast.Ident); ok {
					defs[id.Name] = p.src(as.Rhs[0])
				}
			}
			return true
		})
		ast.Inspect(fd.Body, func(n ast.Node) bool {
			c, ok := n.(*ast.CallExpr)
			if !ok || len(c.Args) == 0 {
				return true
			}
			if se, ok := c.Fun.(*ast.SelectorExpr); !ok || se.Sel.Name != "dialSide" {
				return true
			}
			arg := p.src(c.Args[0])
			if id, ok := c.Args[0].(*ast.Ident); ok {
				if d, ok := defs[id.Name]; ok {
					arg = d
				}
			}
			ctxs = append(ctxs, coqStr(arg))
			return true
		})
	}
	fmt.Fprintf(&b, "Definition gen_sideConn_dial_ctx : list string :=\n  %s.\n", coqList(ctxs))
	return b.String(), nil
}

// ---- one path through a statement list -----------------------------------------------------

// pathWalker follows Go's control flow through a list of statements on the
// path on which the identifiers in truth have the given boolean values, and
// records every simple statement executed.  A condition it cannot decide is
// recorded as "if? <cond>" and its body is followed as well (the path then
// over-approximates).  Unknown statement shapes are recorded as "unknown".
type pathWalker struct {
	p     *pkg
	truth map[string]bool
	lines []string
}

type flow int

const (
	flowNext   flow = iota // falls through to the next statement
	flowBreak              // an unlabelled break is looking for its for / switch / select
	flowLeaves             // return, continue, goto, labelled break: the path leaves the list
)

func (w *pathWalker) decide(e ast.Expr) (val, known bool) {
	switch x := e.(type) {
	case *ast.Ident:
		v, ok := w.truth[x.Name]
		return v, ok
	case *ast.ParenExpr:
		return w.decide(x.X)
	case *ast.UnaryExpr:
		if x.Op == token.NOT {
			v, ok := w.decide(x.X)
			return !v, ok
		}
	}
	return false, false
}

func (w *pathWalker) list(ss []ast.Stmt) flow {
	for _, s := range ss {
		if f := w.stmt(s); f != flowNext {
			return f
		}
	}
	return flowNext
}

func (w *pathWalker) stmt(s ast.Stmt) flow {
	switch x := s.(type) {
	case *ast.ExprStmt:
		if !isLogCall(x.X) {
			w.lines = append(w.lines, "call "+w.p.src(x.X))
		}
	case *ast.AssignStmt, *ast.IncDecStmt, *ast.DeclStmt, *ast.SendStmt:
		w.lines = append(w.lines, "do "+w.p.src(s))
	case *ast.BlockStmt:
		return w.list(x.List)
	case *ast.ReturnStmt:
		w.lines = append(w.lines, w.p.src(s))
		return flowLeaves
	case *ast.BranchStmt:
		if x.Tok == token.BREAK && x.Label == nil {
			return flowBreak
		}
		w.lines = append(w.lines, w.p.src(s))
		return flowLeaves
	case *ast.IfStmt:
		if x.Init != nil {
			if f := w.stmt(x.Init); f != flowNext {
				return f
			}
		}
		v, known := w.decide(x.Cond)
		switch {
		case known && v:
			return w.list(x.Body.List)
		case known && !v:
			if x.Else != nil {
				return w.stmt(x.Else)
			}
		default:
			w.lines = append(w.lines, "if? "+w.p.src(x.Cond))
			if f := w.list(x.Body.List); f == flowBreak {
				return f // (over-approximation: the break is taken)
			}
			if x.Else != nil {
				return w.stmt(x.Else)
			}
		}
	case *ast.SwitchStmt:
		if x.Init != nil || x.Tag != nil {
			w.lines = append(w.lines, "unknown "+w.p.src(s))
			return flowNext
		}
		for _, c := range x.Body.List {
			cc := c.(*ast.CaseClause)
			taken := cc.List == nil
			for _, e := range cc.List {
				v, known := w.decide(e)
				if !known {
					w.lines = append(w.lines, "case? "+w.p.src(e))
				}
				if known && v {
					taken = true
				}
			}
			if taken {
				// an unlabelled break inside ends the switch, nothing more
				if f := w.list(cc.Body); f == flowLeaves {
					return f
				}
				return flowNext
			}
		}
	default:
		w.lines = append(w.lines, "unknown "+w.p.src(s))
	}
	return flowNext
}
