package main

import (
	"fmt"
	"go/ast"
	"go/constant"
	"go/token"
	"path/filepath"
	"sort"
	"strings"
)

func init() { register("WireSchema", genWire) }

var wireMsgTypes = []string{
	"helloRequest", "helloResponse", "dialRequest", "dialResponse",
	"dialSideRequest", "dialSide2Request", "readRequest", "readResponse",
	"writeRequest", "writeResponse", "statusRequest", "statusResponse",
	"closeRequest", "closeResponse",
}

// selField returns X for an expression of the form m.X.
func selField(e ast.Expr, recv string) (string, bool) {
	s, ok := e.(*ast.SelectorExpr)
	if !ok {
		return "", false
	}
	id, ok := s.X.(*ast.Ident)
	if !ok || id.Name != recv {
		return "", false
	}
	return s.Sel.Name, true
}

func callOn(e ast.Expr, obj string) (method string, args []ast.Expr, ok bool) {
	c, isCall := e.(*ast.CallExpr)
	if !isCall {
		return "", nil, false
	}
	s, isSel := c.Fun.(*ast.SelectorExpr)
	if !isSel {
		return "", nil, false
	}
	id, isID := s.X.(*ast.Ident)
	if !isID || id.Name != obj {
		return "", nil, false
	}
	return s.Sel.Name, c.Args, true
}

func convOf(e ast.Expr, conv string) (ast.Expr, bool) {
	c, ok := e.(*ast.CallExpr)
	if !ok || len(c.Args) != 1 {
		return nil, false
	}
	id, ok := c.Fun.(*ast.Ident)
	if !ok || id.Name != conv {
		return nil, false
	}
	return c.Args[0], true
}

func paramName(fd *ast.FuncDecl, i int) string {
	if fd.Type.Params == nil || i >= len(fd.Type.Params.List) {
		return ""
	}
	ns := fd.Type.Params.List[i].Names
	if len(ns) == 0 {
		return ""
	}
	return ns[0].Name
}

func recvVar(fd *ast.FuncDecl) string {
	if fd.Recv == nil || len(fd.Recv.List) == 0 || len(fd.Recv.List[0].Names) == 0 {
		return ""
	}
	return fd.Recv.List[0].Names[0].Name
}

func gf(kind, name string) string {
	return fmt.Sprintf("GF %s %s", kind, coqStr(name))
}

func gunknown(text string) string { return "GUnknown " + coqStr(text) }

func (p *pkg) encFields(typ string) []string {
	fd := p.funcDecl(typ, "encodeTo")
	if fd == nil || fd.Body == nil {
		return []string{gunknown("no encodeTo for " + typ)}
	}
	m, enc := recvVar(fd), paramName(fd, 0)
	fields := p.structFields(typ)
	var out []string
	for _, st := range fd.Body.List {
		es, ok := st.(*ast.ExprStmt)
		if !ok {
			out = append(out, gunknown(p.src(st)))
			continue
		}
		if meth, args, ok := callOn(es.X, enc); ok && len(args) == 1 {
			if f, ok := selField(args[0], m); ok {
				switch meth {
				case "u64":
					if fields[f] == "uint64" {
						out = append(out, gf("KU64", f))
						continue
					}
				case "str":
					if fields[f] == "string" {
						out = append(out, gf("KStr", f))
						continue
					}
				case "bytes":
					if fields[f] == "[]byte" {
						out = append(out, gf("KBytes", f))
						continue
					}
				}
			}
			if inner, ok := convOf(args[0], "uint64"); ok && meth == "u64" {
				if f, ok := selField(inner, m); ok && fields[f] == "int" {
					out = append(out, gf("KInt", f))
					continue
				}
			}
		}
		if c, ok := es.X.(*ast.CallExpr); ok {
			if id, ok := c.Fun.(*ast.Ident); ok && id.Name == "encodeRemoteErr" && len(c.Args) == 2 {
				a0, _ := c.Args[0].(*ast.Ident)
				if f, ok := selField(c.Args[1], m); ok && a0 != nil && a0.Name == enc && fields[f] == "*remoteErr" {
					out = append(out, gf("KErr", f))
					continue
				}
			}
		}
		out = append(out, gunknown(p.src(st)))
	}
	return out
}

func (p *pkg) decFields(typ string) []string {
	fd := p.funcDecl(typ, "decodeFrom")
	if fd == nil || fd.Body == nil {
		return []string{gunknown("no decodeFrom for " + typ)}
	}
	m, dec := recvVar(fd), paramName(fd, 0)
	fields := p.structFields(typ)
	var out []string
	for _, st := range fd.Body.List {
		as, ok := st.(*ast.AssignStmt)
		if !ok || as.Tok != token.ASSIGN || len(as.Lhs) != 1 || len(as.Rhs) != 1 {
			out = append(out, gunknown(p.src(st)))
			continue
		}
		f, ok := selField(as.Lhs[0], m)
		if !ok {
			out = append(out, gunknown(p.src(st)))
			continue
		}
		rhs := as.Rhs[0]
		if meth, args, ok := callOn(rhs, dec); ok {
			switch {
			case meth == "u64" && len(args) == 0 && fields[f] == "uint64":
				out = append(out, gf("KU64", f))
				continue
			case meth == "str" && len(args) == 0 && fields[f] == "string":
				out = append(out, gf("KStr", f))
				continue
			case meth == "bytes" && len(args) == 1 && fields[f] == "[]byte":
				if g, ok := selField(args[0], m); ok && g == f {
					out = append(out, gf("KBytes", f))
					continue
				}
			}
		}
		if inner, ok := convOf(rhs, "int"); ok && fields[f] == "int" {
			if meth, args, ok := callOn(inner, dec); ok && meth == "u64" && len(args) == 0 {
				out = append(out, gf("KInt", f))
				continue
			}
		}
		if c, ok := rhs.(*ast.CallExpr); ok {
			if id, ok := c.Fun.(*ast.Ident); ok && id.Name == "decodeRemoteErr" && len(c.Args) == 1 {
				if a0, ok := c.Args[0].(*ast.Ident); ok && a0.Name == dec && fields[f] == "*remoteErr" {
					out = append(out, gf("KErr", f))
					continue
				}
			}
		}
		out = append(out, gunknown(p.src(st)))
	}
	return out
}

// newOf recognises `new(T)` and `&T{...}`.
func newOf(e ast.Expr) (string, bool) {
	switch x := e.(type) {
	case *ast.CallExpr:
		if id, ok := x.Fun.(*ast.Ident); ok && id.Name == "new" && len(x.Args) == 1 {
			return typeName(x.Args[0]), true
		}
	case *ast.UnaryExpr:
		if x.Op == token.AND {
			if cl, ok := x.X.(*ast.CompositeLit); ok {
				return typeName(cl.Type), true
			}
		}
	}
	return "", false
}

func codeOf(e ast.Expr, consts map[string]constant.Value) string {
	if id, ok := e.(*ast.Ident); ok {
		if v, ok := consts[id.Name]; ok {
			return coqN(v)
		}
	}
	return "999999%N (* unresolved *)"
}

func genWire(repo string) (string, error) {
	p, err := loadPkg(filepath.Join(repo, "sniproxy"))
	if err != nil {
		return "", err
	}
	consts, order := p.consts()

	var b strings.Builder
	b.WriteString("(* GENERATED by /verif/gen from /repo/sniproxy on every run. Do not edit. *)\n")
	b.WriteString("From Coq Require Import List NArith ZArith String.\nFrom Verif Require Import Sni.Wire.\nImport ListNotations.\nLocal Open Scope string_scope.\n\n")

	var msgs, errs []string
	for _, n := range order {
		if strings.HasPrefix(n, "msg") {
			msgs = append(msgs, fmt.Sprintf("(%s, %s)", coqStr(n), coqN(consts[n])))
		} else if strings.HasPrefix(n, "err") && consts[n].Kind() == constant.Int {
			errs = append(errs, fmt.Sprintf("(%s, %s)", coqStr(n), coqN(consts[n])))
		}
	}
	fmt.Fprintf(&b, "Definition gen_msg_codes : list (string * N) :=\n  %s.\n\n", coqList(msgs))
	fmt.Fprintf(&b, "Definition gen_err_codes : list (string * N) :=\n  %s.\n\n", coqList(errs))

	// Message types: every struct with both encodeTo and decodeFrom, other
	// than remoteErr and the exchanges.
	seen := map[string]bool{}
	var types []string
	for _, fd := range p.allFuncs() {
		if fd.Name.Name == "encodeTo" {
			r := recvName(fd)
			if r != "" && p.funcDecl(r, "decodeFrom") != nil && r != "remoteErr" && !seen[r] {
				seen[r] = true
				types = append(types, r)
			}
		}
	}
	sort.Strings(types)
	var encs, decs []string
	for _, t := range types {
		encs = append(encs, fmt.Sprintf("(%s, %s)", coqStr(t), coqList(p.encFields(t))))
		decs = append(decs, fmt.Sprintf("(%s, %s)", coqStr(t), coqList(p.decFields(t))))
	}
	fmt.Fprintf(&b, "Definition gen_enc_fields : list (string * list gfield) :=\n  %s.\n\n", coqList(encs))
	fmt.Fprintf(&b, "Definition gen_dec_fields : list (string * list gfield) :=\n  %s.\n\n", coqList(decs))

	// newRequestMessage switch.
	var reqs []string
	defaultUnknown := "false"
	if fd := p.funcDecl("", "newRequestMessage"); fd != nil && fd.Body != nil {
		for _, st := range fd.Body.List {
			sw, ok := st.(*ast.SwitchStmt)
			if !ok {
				continue
			}
			for _, cs := range sw.Body.List {
				cc := cs.(*ast.CaseClause)
				ret, _ := lastReturn(cc.Body)
				if cc.List == nil {
					if ret != nil && len(ret.Results) == 2 && p.src(ret.Results[0]) == "nil" && p.src(ret.Results[1]) == "false" {
						defaultUnknown = "true"
					}
					continue
				}
				for _, ce := range cc.List {
					entry := "None (* unrecognised *)"
					known := false
					if ret != nil && len(ret.Results) == 2 && p.src(ret.Results[1]) == "true" {
						if p.src(ret.Results[0]) == "nil" {
							entry, known = "None", true
						} else if t, ok := newOf(ret.Results[0]); ok {
							entry, known = "Some "+coqStr(t), true
						}
					}
					if known {
						reqs = append(reqs, fmt.Sprintf("(%s, %s)", codeOf(ce, consts), entry))
					} else {
						reqs = append(reqs, fmt.Sprintf("(%s, Some %s)", codeOf(ce, consts), coqStr("UNKNOWN:"+p.src(cc))))
					}
				}
			}
		}
	}
	fmt.Fprintf(&b, "Definition gen_requests : list (N * option string) :=\n  %s.\n\n", coqList(reqs))
	fmt.Fprintf(&b, "Definition gen_requests_default_unknown : bool := %s.\n\n", defaultUnknown)

	// Client call sites: X.call(ctx, msgT, req, resp)
	var calls []string
	for _, fd := range p.allFuncs() {
		if fd.Body == nil {
			continue
		}
		var scopes []map[string]string
		lookup := func(name string) (string, bool) {
			for i := len(scopes) - 1; i >= 0; i-- {
				if scopes[i] != nil {
					if t, ok := scopes[i][name]; ok {
						return t, true
					}
				}
			}
			return "", false
		}
		ast.Inspect(fd.Body, func(n ast.Node) bool {
			if n == nil {
				scopes = scopes[:len(scopes)-1]
				return true
			}
			switch n.(type) {
			case *ast.BlockStmt, *ast.IfStmt, *ast.ForStmt, *ast.RangeStmt,
				*ast.SwitchStmt, *ast.TypeSwitchStmt, *ast.CaseClause,
				*ast.CommClause, *ast.FuncLit, *ast.SelectStmt:
				scopes = append(scopes, map[string]string{})
			default:
				scopes = append(scopes, nil)
			}
			if as, ok := n.(*ast.AssignStmt); ok && as.Tok == token.DEFINE && len(as.Lhs) == len(as.Rhs) {
				for i := range as.Lhs {
					if id, ok := as.Lhs[i].(*ast.Ident); ok {
						t, isNew := newOf(as.Rhs[i])
						if !isNew {
							t = "UNKNOWN:" + p.src(as.Rhs[i])
						}
						for k := len(scopes) - 1; k >= 0; k-- {
							if scopes[k] != nil {
								scopes[k][id.Name] = t
								break
							}
						}
					}
				}
			}
			c, ok := n.(*ast.CallExpr)
			if !ok || len(c.Args) != 4 {
				return true
			}
			s, ok := c.Fun.(*ast.SelectorExpr)
			if !ok || s.Sel.Name != "call" {
				return true
			}
			res := func(e ast.Expr) string {
				if id, ok := e.(*ast.Ident); ok {
					if id.Name == "nil" {
						return ""
					}
					if t, ok := lookup(id.Name); ok {
						return t
					}
				}
				return "UNKNOWN:" + p.src(e)
			}
			calls = append(calls, fmt.Sprintf("(%s, (%s, %s))", codeOf(c.Args[1], consts), coqStr(res(c.Args[2])), coqStr(res(c.Args[3]))))
			return true
		})
	}
	sort.Strings(calls)
	fmt.Fprintf(&b, "Definition gen_client_calls : list (N * (string * string)) :=\n  %s.\n\n", coqList(calls))

	// Server dispatch: serveCall switch: case msgT: x.resp = s.handleT(x.req.(*TReq))
	var disp []string
	if fd := p.funcDecl("endpointServer", "serveCall"); fd != nil && fd.Body != nil {
		for _, st := range fd.Body.List {
			sw, ok := st.(*ast.SwitchStmt)
			if !ok {
				continue
			}
			for _, cs := range sw.Body.List {
				cc := cs.(*ast.CaseClause)
				for _, ce := range cc.List {
					if len(cc.Body) == 0 {
						continue
					}
					reqT, respT := "UNKNOWN:"+p.src(cc), ""
					if as, ok := cc.Body[0].(*ast.AssignStmt); ok && len(cc.Body) == 1 && len(as.Rhs) == 1 && p.src(as.Lhs[0]) == "x.resp" {
						if c, ok := as.Rhs[0].(*ast.CallExpr); ok && len(c.Args) == 1 {
							if ta, ok := c.Args[0].(*ast.TypeAssertExpr); ok && p.src(ta.X) == "x.req" {
								reqT = typeName(ta.Type)
							}
							if s, ok := c.Fun.(*ast.SelectorExpr); ok {
								if h := p.funcDecl("endpointServer", s.Sel.Name); h != nil && h.Type.Results != nil && len(h.Type.Results.List) == 1 {
									respT = typeName(h.Type.Results.List[0].Type)
									if h.Type.Params != nil && len(h.Type.Params.List) == 1 && typeName(h.Type.Params.List[0].Type) != reqT {
										reqT = "UNKNOWN:handler parameter type differs"
									}
								}
							}
						}
					}
					disp = append(disp, fmt.Sprintf("(%s, (%s, %s))", codeOf(ce, consts), coqStr(reqT), coqStr(respT)))
				}
			}
		}
	}
	fmt.Fprintf(&b, "Definition gen_server_dispatch : list (N * (string * string)) :=\n  %s.\n\n", coqList(disp))

	// Normalised source text of the hand-modelled primitive layer: a rewrite
	// of any of these functions breaks gen_codec_src_frozen, and the check
	// then searches for a concrete failing frame.
	var srcs []string
	for _, f := range [][2]string{
		{"decoder", "read"}, {"decoder", "rest"}, {"decoder", "u8"}, {"decoder", "u64"},
		{"decoder", "bytes"}, {"decoder", "str"}, {"decoder", "end"}, {"decoder", "tailError"},
		{"encoder", "write"}, {"encoder", "u64"}, {"encoder", "u8"}, {"encoder", "bytes"}, {"encoder", "str"},
		{"remoteErr", "encodeTo"}, {"remoteErr", "decodeFrom"}, {"", "encodeRemoteErr"}, {"", "decodeRemoteErr"},
		{"endpointExchange", "encodeTo"}, {"", "sendExchangeReq"},
		{"endpointServer", "startCall"}, {"endpointServer", "handleRead"}, {"tunnel", "Read"},
	} {
		fd := p.funcDecl(f[0], f[1])
		txt := "MISSING"
		if fd != nil && fd.Body != nil {
			txt = p.src(fd.Body)
		}
		srcs = append(srcs, fmt.Sprintf("(%s, %s)", coqStr(f[0]+"."+f[1]), coqStr(txt)))
	}
	fmt.Fprintf(&b, "Definition gen_codec_src : list (string * string) :=\n  %s.\n\n", coqList(srcs))

	// Where the buffer of a request's byte field comes from on the server
	// entry: any assignment to a ".bytes" field, or a "bytes:" key of a
	// composite literal, in startCall / newRequestMessage.  None: the request
	// object comes without a buffer and decoder.bytes allocates per call
	// (BufFresh).  A value rooted at the receiver is a buffer of the endpoint
	// shared by every request decoded on it (BufShared, size from the make()
	// that initialises the field).
	{
		pol := "BufFresh"
		var presets []string
		for _, f := range [][2]string{{"endpointServer", "startCall"}, {"", "newRequestMessage"}} {
			fd := p.funcDecl(f[0], f[1])
			if fd == nil || fd.Body == nil {
				pol = "(BufUnknown " + coqStr(f[0]+"."+f[1]+" not found") + ")"
				continue
			}
			rv := recvVar(fd)
			ast.Inspect(fd.Body, func(nd ast.Node) bool {
				var rhs ast.Expr
				switch x := nd.(type) {
				case *ast.AssignStmt:
					for i, l := range x.Lhs {
						if sel, ok := l.(*ast.SelectorExpr); ok && sel.Sel.Name == "bytes" && i < len(x.Rhs) {
							rhs = x.Rhs[i]
						}
					}
				case *ast.KeyValueExpr:
					if id, ok := x.Key.(*ast.Ident); ok && id.Name == "bytes" {
						rhs = x.Value
					}
				}
				if rhs == nil {
					return true
				}
				presets = append(presets, p.src(rhs))
				sel, ok := rhs.(*ast.SelectorExpr)
				root, isRecv := "", false
				if ok {
					if id, ok := sel.X.(*ast.Ident); ok && rv != "" && id.Name == rv {
						root, isRecv = sel.Sel.Name, true
					}
				}
				if !isRecv {
					pol = "(BufUnknown " + coqStr(p.src(rhs)) + ")"
					return true
				}
				// size of the endpoint's buffer: <field>: make([]byte, X) in newEndpointServer
				size := constant.MakeInt64(0)
				if ne := p.funcDecl("", "newEndpointServer"); ne != nil && ne.Body != nil {
					ast.Inspect(ne.Body, func(n2 ast.Node) bool {
						kv, ok := n2.(*ast.KeyValueExpr)
						if !ok {
							return true
						}
						if id, ok := kv.Key.(*ast.Ident); !ok || id.Name != root {
							return true
						}
						if call, ok := kv.Value.(*ast.CallExpr); ok && len(call.Args) >= 2 {
							if f, ok := call.Fun.(*ast.Ident); ok && f.Name == "make" {
								if v := evalConst(call.Args[1], consts, 0); v != nil {
									size = v
								}
							}
						}
						return true
					})
				}
				pol = "(BufShared " + coqN(size) + ")"
				return true
			})
		}
		fmt.Fprintf(&b, "Definition gen_write_buf : buf_policy := %s.\n", pol)
		fmt.Fprintf(&b, "Definition gen_request_buffer_presets : list string := %s.\n\n", coqStrListW(presets))
	}
	// How the package configures its websockets: calls of SetReadLimit /
	// SetCompressionLevel / EnableWriteCompression, and the ReadBufferSize /
	// WriteBufferSize / EnableCompression keys of Upgrader and Dialer literals,
	// with their (constant) values.  A read limit makes a legal frame above it
	// undecodable, whatever the codec does.
	{
		var items []string
		for _, fn := range p.sortedFiles() {
			if strings.HasSuffix(fn, "_test.go") || strings.HasPrefix(filepath.Base(fn), "verif_") {
				continue
			}
			ast.Inspect(p.files[fn], func(nd ast.Node) bool {
				val := func(e ast.Expr) string {
					if v := evalConst(e, consts, 0); v != nil {
						return v.ExactString()
					}
					return p.src(e)
				}
				switch x := nd.(type) {
				case *ast.CallExpr:
					if sel, ok := x.Fun.(*ast.SelectorExpr); ok {
						switch sel.Sel.Name {
						case "SetReadLimit", "SetCompressionLevel", "EnableWriteCompression":
							arg := ""
							if len(x.Args) > 0 {
								arg = val(x.Args[0])
							}
							items = append(items, fmt.Sprintf("(%s, %s)", coqStr(sel.Sel.Name), coqStr(arg)))
						}
					}
				case *ast.KeyValueExpr:
					if id, ok := x.Key.(*ast.Ident); ok {
						switch id.Name {
						case "ReadBufferSize", "WriteBufferSize", "EnableCompression":
							items = append(items, fmt.Sprintf("(%s, %s)", coqStr(id.Name), coqStr(val(x.Value))))
						}
					}
				}
				return true
			})
		}
		sort.Strings(items)
		fmt.Fprintf(&b, "Definition gen_ws_config : list (string * string) :=\n  %s.\n\n", coqList(items))

		// every integer the package names (literals and constants, 256 and above)
		seen := map[int64]bool{}
		var lits []string
		addLit := func(v constant.Value) {
			if v == nil || v.Kind() != constant.Int {
				return
			}
			if x, ok := constant.Int64Val(v); ok && x >= 256 && !seen[x] {
				seen[x] = true
				lits = append(lits, fmt.Sprintf("%d%%N", x))
			}
		}
		for _, v := range consts {
			addLit(v)
		}
		for _, fn := range p.sortedFiles() {
			if strings.HasSuffix(fn, "_test.go") || strings.HasPrefix(filepath.Base(fn), "verif_") {
				continue
			}
			ast.Inspect(p.files[fn], func(nd ast.Node) bool {
				if bl, ok := nd.(*ast.BasicLit); ok && bl.Kind == token.INT {
					addLit(constant.MakeFromLiteral(bl.Value, token.INT, 0))
				}
				return true
			})
		}
		sort.Strings(lits)
		fmt.Fprintf(&b, "Definition gen_sni_int_literals : list N := [%s].\n\n", strings.Join(lits, "; "))
	}
	fmt.Fprintf(&b, "Definition gen_alloc_max : N := %s.\n", coqN(consts["decodeAllocMax"]))
	fmt.Fprintf(&b, "Definition gen_max_read_size : N := %s.\n", coqN(consts["maxReadSize"]))
	return b.String(), nil
}

func lastReturn(body []ast.Stmt) (*ast.ReturnStmt, bool) {
	if len(body) == 0 {
		return nil, false
	}
	r, ok := body[len(body)-1].(*ast.ReturnStmt)
	return r, ok
}

func coqStrListW(ss []string) string {
	items := make([]string, len(ss))
	for i, x := range ss {
		items[i] = coqStr(x)
	}
	return "[" + strings.Join(items, "; ") + "]"
}
