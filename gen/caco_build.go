package main

import (
	"fmt"
	"go/ast"
	"go/token"
	"path/filepath"
	"reflect"
	"strings"
)

// CacoBuild: what the C10/C11 models of caco3's loader and builder take from
// the source: constants, struct layouts that make up digests and cache
// entries, the fields compared by sameFileStat, and statement skeletons
// (control structure and calls in source order) of the functions the models
// mirror. A statement of a kind the walker does not know is emitted as
// ("unknown", text), never dropped.
func init() { register("CacoBuild", genCacoBuild) }

type tok struct{ k, v string }

func (p *pkg) cacoSkeleton(fd *ast.FuncDecl) []tok {
	var out []tok
	var walk func(st ast.Stmt)
	block := func(b *ast.BlockStmt) {
		if b == nil {
			return
		}
		for _, s := range b.List {
			walk(s)
		}
	}
	walk = func(st ast.Stmt) {
		switch s := st.(type) {
		case *ast.BlockStmt:
			block(s)
		case *ast.IfStmt:
			if s.Init != nil {
				out = append(out, tok{"init", p.src(s.Init)})
			}
			out = append(out, tok{"if", p.src(s.Cond)})
			block(s.Body)
			if s.Else != nil {
				out = append(out, tok{"else", ""})
				walk(s.Else)
			}
			out = append(out, tok{"endif", ""})
		case *ast.ReturnStmt:
			var rs []string
			for _, r := range s.Results {
				rs = append(rs, p.src(r))
			}
			out = append(out, tok{"return", strings.Join(rs, ", ")})
		case *ast.ExprStmt:
			out = append(out, tok{"call", p.src(s.X)})
		case *ast.AssignStmt:
			out = append(out, tok{"assign", p.src(s)})
		case *ast.DeferStmt:
			if fl, ok := s.Call.Fun.(*ast.FuncLit); ok {
				out = append(out, tok{"defer", "func"})
				block(fl.Body)
				out = append(out, tok{"enddefer", ""})
			} else {
				out = append(out, tok{"defer", p.src(s.Call)})
			}
		case *ast.RangeStmt:
			h := "range " + p.src(s.X)
			if s.Key != nil {
				k := p.src(s.Key)
				if s.Value != nil {
					k += ", " + p.src(s.Value)
				}
				h = k + " := " + h
			}
			out = append(out, tok{"range", h})
			block(s.Body)
			out = append(out, tok{"endrange", ""})
		case *ast.ForStmt:
			c := ""
			if s.Cond != nil {
				c = p.src(s.Cond)
			}
			out = append(out, tok{"for", c})
			block(s.Body)
			out = append(out, tok{"endfor", ""})
		case *ast.SwitchStmt:
			t := ""
			if s.Tag != nil {
				t = p.src(s.Tag)
			}
			out = append(out, tok{"switch", t})
			block(s.Body)
			out = append(out, tok{"endswitch", ""})
		case *ast.TypeSwitchStmt:
			out = append(out, tok{"typeswitch", p.src(s.Assign)})
			block(s.Body)
			out = append(out, tok{"endswitch", ""})
		case *ast.CaseClause:
			var cs []string
			for _, e := range s.List {
				cs = append(cs, p.src(e))
			}
			if s.List == nil {
				out = append(out, tok{"default", ""})
			} else {
				out = append(out, tok{"case", strings.Join(cs, ", ")})
			}
			for _, b := range s.Body {
				walk(b)
			}
		case *ast.DeclStmt:
			out = append(out, tok{"decl", p.src(s)})
		case *ast.BranchStmt:
			out = append(out, tok{"branch", s.Tok.String()})
		case *ast.IncDecStmt:
			out = append(out, tok{"assign", p.src(s)})
		default:
			out = append(out, tok{"unknown", reflect.TypeOf(st).String() + ": " + p.src(st)})
		}
	}
	if fd == nil || fd.Body == nil {
		return []tok{{"unknown", "function not found"}}
	}
	block(fd.Body)
	return out
}

func emitSkeleton(b *strings.Builder, name string, toks []tok) {
	var items []string
	for _, t := range toks {
		items = append(items, fmt.Sprintf("(%s, %s)", coqStr(t.k), coqStr(t.v)))
	}
	fmt.Fprintf(b, "Definition sk_%s : list (string * string) :=\n  %s.\n\n", name, coqList(items))
}

// structLayout lists (field, type, json tag) in declaration order.
func (p *pkg) structLayout(name string) []string {
	for _, fn := range p.sortedFiles() {
		for _, d := range p.files[fn].Decls {
			gd, ok := d.(*ast.GenDecl)
			if !ok || gd.Tok != token.TYPE {
				continue
			}
			for _, s := range gd.Specs {
				ts := s.(*ast.TypeSpec)
				if ts.Name.Name != name {
					continue
				}
				st, ok := ts.Type.(*ast.StructType)
				if !ok {
					return []string{fmt.Sprintf("(%s, %s, %s)", coqStr("unknown"), coqStr(p.src(ts.Type)), coqStr(""))}
				}
				var out []string
				for _, f := range st.Fields.List {
					tag := ""
					if f.Tag != nil {
						tag = strings.Trim(f.Tag.Value, "`")
					}
					if len(f.Names) == 0 {
						out = append(out, fmt.Sprintf("(%s, %s, %s)", coqStr("embedded"), coqStr(p.src(f.Type)), coqStr(tag)))
					}
					for _, n := range f.Names {
						out = append(out, fmt.Sprintf("(%s, %s, %s)", coqStr(n.Name), coqStr(p.src(f.Type)), coqStr(tag)))
					}
				}
				return out
			}
		}
	}
	return []string{fmt.Sprintf("(%s, %s, %s)", coqStr("unknown"), coqStr("type not found"), coqStr(""))}
}

func genCacoBuild(repo string) (string, error) {
	p, err := loadPkg(filepath.Join(repo, "caco3"))
	if err != nil {
		return "", err
	}
	lx, err := loadPkg(filepath.Join(repo, "lexing"))
	if err != nil {
		return "", err
	}
	var b strings.Builder
	b.WriteString("(* Generated from /repo by gen/caco_build.go; do not edit. *)\n")
	b.WriteString("From Coq Require Import List String NArith.\nImport ListNotations.\nLocal Open Scope string_scope.\n\n")

	// constants
	consts, _ := p.consts()
	for _, c := range []string{"buildFileName", "workspaceFile", "ruleFileSet", "ruleBundle", "ruleSubBuilds",
		"nodeSrc", "nodeRule", "nodeOut", "nodeSub", "fileTypeSrc", "fileTypeOut"} {
		v, ok := consts[c]
		if !ok {
			fmt.Fprintf(&b, "Definition gen_%s : string := \"?unknown\".\n", c)
			continue
		}
		s := v.ExactString()
		s = strings.Trim(s, "\"")
		fmt.Fprintf(&b, "Definition gen_%s : string := %s.\n", c, coqStr(s))
	}
	b.WriteString("\n")

	// lexing.NewErrorList: ret.Max = N
	maxErrs := "0 (* not found *)"
	if fd := lx.funcDecl("", "NewErrorList"); fd != nil && fd.Body != nil {
		for _, st := range fd.Body.List {
			as, ok := st.(*ast.AssignStmt)
			if !ok || len(as.Lhs) != 1 || len(as.Rhs) != 1 {
				continue
			}
			if sel, ok := as.Lhs[0].(*ast.SelectorExpr); ok && sel.Sel.Name == "Max" {
				if lit, ok := as.Rhs[0].(*ast.BasicLit); ok && lit.Kind == token.INT {
					maxErrs = lit.Value
				}
			}
		}
	}
	fmt.Fprintf(&b, "Definition gen_max_errs : nat := %s.\n\n", maxErrs)

	// newBuildCache: expire: <duration> (nanoseconds)
	expire := "0 (* not found *)"
	if fd := p.funcDecl("", "newBuildCache"); fd != nil && fd.Body != nil {
		ast.Inspect(fd.Body, func(n ast.Node) bool {
			kv, ok := n.(*ast.KeyValueExpr)
			if !ok {
				return true
			}
			if id, ok := kv.Key.(*ast.Ident); ok && id.Name == "expire" {
				if v := evalConst(kv.Value, consts, 0); v != nil {
					expire = v.ExactString()
				}
			}
			return true
		})
	}
	fmt.Fprintf(&b, "Definition gen_cache_expire_ns : N := %s.\n\n", expire)
	emitSkeleton(&b, "errorlist_add", lx.cacoSkeleton(lx.funcDecl("ErrorList", "Add")))
	emitSkeleton(&b, "errorlist_errs", lx.cacoSkeleton(lx.funcDecl("ErrorList", "Errs")))

	// struct layouts
	for _, s := range []string{"buildAction", "fileStat", "built", "buildCacheEntry", "buildRuleMeta",
		"FileSet", "Bundle", "SubBuilds"} {
		fmt.Fprintf(&b, "Definition layout_%s : list (string * string * string) :=\n  %s.\n\n",
			s, coqList(p.structLayout(s)))
	}

	// function skeletons
	type fn struct{ recv, name, as string }
	for _, f := range []fn{
		{"loader", "register", "loader_register"},
		{"loader", "load", "loader_load"},
		{"loader", "load1", "loader_load1"},
		{"loader", "registerOuts", "loader_registerOuts"},
		{"loader", "readBuildFile", "loader_readBuildFile"},
		{"", "loadNodes", "loadNodes"},
		{"", "newLoader", "newLoader"},
		{"loadTracer", "push", "tracer_push"},
		{"loadTracer", "pop", "tracer_pop"},
		{"", "readBuildFile", "readBuildFile"},
		{"", "newSubBuilds", "newSubBuilds"},
		{"Builder", "Build", "builder_Build"},
		{"Builder", "buildNodes", "builder_buildNodes"},
		{"Builder", "buildNode", "builder_buildNode"},
		{"", "buildNodeDigest", "buildNodeDigest"},
		{"", "makeDigest", "makeDigest"},
		{"", "newBuilt", "newBuilt"},
		{"", "checkSameBuilt", "checkSameBuilt"},
		{"", "newFileStat", "newFileStat"},
		{"", "sameFileStat", "sameFileStat"},
		{"buildCache", "put", "cache_put"},
		{"buildCache", "get", "cache_get"},
		{"buildCache", "remove", "cache_remove"},
		{"", "newBuildCache", "newBuildCache"},
		{"fileSet", "fileNodes", "fileSet_fileNodes"},
		{"", "newFileSet", "newFileSet"},
		{"fileSet", "meta", "fileSet_meta"},
		{"fileSet", "build", "fileSet_build"},
		{"", "referenceFileSetOut", "referenceFileSetOut"},
		{"", "fileSetOut", "fileSetOut"},
		{"", "listAllFiles", "listAllFiles"},
		{"", "newBundle", "newBundle"},
		{"bundle", "meta", "bundle_meta"},
		{"bundle", "build", "bundle_build"},
		{"buildContext", "nodeType", "ctx_nodeType"},
		{"buildContext", "ruleType", "ctx_ruleType"},
	} {
		emitSkeleton(&b, f.as, p.cacoSkeleton(p.funcDecl(f.recv, f.name)))
	}

	// Lifetimes (C10, round 3): where the per-Build state is created and what
	// a Builder holds across Build calls.
	p.emitLifetimes(&b)

	// osutil.IsRegular / IsDir / Exist: which stat call each makes
	var ou []string
	if up, err := loadPkg(filepath.Join(repo, "osutil")); err == nil {
		for _, fd := range up.allFuncs() {
			if fd.Body == nil || fd.Recv != nil {
				continue
			}
			ast.Inspect(fd.Body, func(n ast.Node) bool {
				if c, ok := n.(*ast.CallExpr); ok {
					if sel, ok := c.Fun.(*ast.SelectorExpr); ok {
						if id, ok := sel.X.(*ast.Ident); ok && id.Name == "os" &&
							(sel.Sel.Name == "Stat" || sel.Sel.Name == "Lstat") {
							ou = append(ou, fmt.Sprintf("(%s, %s)", coqStr("osutil."+fd.Name.Name), coqStr("os."+sel.Sel.Name)))
						}
					}
				}
				return true
			})
		}
	}
	fmt.Fprintf(&b, "\nDefinition osutil_stat_calls : list (string * string) :=\n  %s.\n", coqList(ou))
	return b.String(), nil
}

// ctxSite is one place where a buildContext value (the holder of the memo
// ctx.built and of the cache handle) is made.
type ctxSite struct{ fn, path, bind, built string }

// emitLifetimes writes:
//   - memo_sites: every composite literal of type buildContext in the
//     package: (function, enclosing control statements from the function body
//     down to the literal - "" when it is a statement of the body itself -,
//     how the value is bound, the text of its "built" field);
//   - built_stores: every assignment whose left side is a field selector
//     ".built" (replacing the memo map of an existing context);
//   - build_nodes_calls: (enclosing statements, first argument) of every
//     call of buildNodes inside Builder.Build;
//   - build_ctx_rebinds: assignments to the bound variable after its
//     definition inside Builder.Build;
//   - layouts of the structs that outlive a Build call or are shared by its
//     nodes (Builder, env, buildOpts, dockerOpts, buildContext, loader,
//     loadTracer, buildCache) and the package-level variables.
func (p *pkg) emitLifetimes(b *strings.Builder) {
	var sites []ctxSite
	var stores, calls, rebinds, envWrites, loadedStores, paramWrites, callEdges, mapKeys, creates []string
	pkgFuncs := map[string]bool{}
	for _, fd := range p.allFuncs() {
		pkgFuncs[fd.Name.Name] = true
	}
	seenEdge := map[string]bool{}
	for _, fd := range p.allFuncs() {
		if fd.Body == nil {
			continue
		}
		fname := fd.Name.Name
		if r := recvName(fd); r != "" {
			fname = r + "." + fname
		}
		var stack []ast.Node
		path := func() string {
			var parts []string
			for _, n := range stack {
				switch s := n.(type) {
				case *ast.IfStmt:
					parts = append(parts, "if "+p.src(s.Cond))
				case *ast.ForStmt:
					parts = append(parts, "for")
				case *ast.RangeStmt:
					parts = append(parts, "range "+p.src(s.X))
				case *ast.SwitchStmt, *ast.TypeSwitchStmt, *ast.SelectStmt:
					parts = append(parts, "switch")
				case *ast.FuncLit:
					parts = append(parts, "func literal")
				case *ast.GoStmt:
					parts = append(parts, "go")
				case *ast.DeferStmt:
					parts = append(parts, "defer")
				}
			}
			return strings.Join(parts, " > ")
		}
		bindOf := func(lit ast.Node) string {
			// the nearest enclosing statement decides how the value is bound
			for i := len(stack) - 1; i >= 0; i-- {
				switch s := stack[i].(type) {
				case *ast.AssignStmt:
					if len(s.Lhs) == 1 && len(s.Rhs) == 1 {
						inner := s.Rhs[0]
						if u, ok := inner.(*ast.UnaryExpr); ok && u.Op == token.AND {
							inner = u.X
						}
						if inner == lit {
							if id, ok := s.Lhs[0].(*ast.Ident); ok && s.Tok == token.DEFINE {
								return "local:" + id.Name
							}
							return "store:" + p.src(s.Lhs[0]) + " " + s.Tok.String()
						}
					}
					return "in:" + p.src(s)
				case *ast.ReturnStmt:
					return "return"
				case *ast.ExprStmt:
					return "in:" + p.src(s)
				case *ast.DeclStmt:
					return "in:" + p.src(s)
				case *ast.ValueSpec:
					return "in:" + p.src(s)
				}
			}
			return "?"
		}
		// parameters of reference kind (slices, maps, pointers): writes to their
		// elements or through them reach the caller's data
		params := map[string]string{}
		if fd.Type.Params != nil {
			for _, f := range fd.Type.Params.List {
				kind := ""
				switch t := f.Type.(type) {
				case *ast.ArrayType:
					if t.Len == nil {
						kind = "slice"
					}
				case *ast.MapType:
					kind = "map"
				case *ast.StarExpr:
					kind = "pointer"
				case *ast.Ellipsis:
					kind = "slice"
				}
				if kind == "" {
					continue
				}
				for _, nm := range f.Names {
					params[nm.Name] = kind
				}
			}
		}
		var boundVar string
		var boundEnd token.Pos
		ast.Inspect(fd.Body, func(n ast.Node) bool {
			if n == nil {
				stack = stack[:len(stack)-1]
				return true
			}
			switch x := n.(type) {
			case *ast.CompositeLit:
				if typeName(x.Type) == "buildContext" {
					site := ctxSite{fn: fname, path: path(), bind: bindOf(x)}
					for _, e := range x.Elts {
						if kv, ok := e.(*ast.KeyValueExpr); ok {
							if id, ok := kv.Key.(*ast.Ident); ok && id.Name == "built" {
								site.built = p.src(kv.Value)
							}
						}
					}
					sites = append(sites, site)
					if fname == "Builder.Build" && strings.HasPrefix(site.bind, "local:") {
						boundVar = strings.TrimPrefix(site.bind, "local:")
						boundEnd = x.End()
					}
				}
			case *ast.AssignStmt:
				for _, l := range x.Lhs {
					// the key expressions of the maps that are hashed into digests: deps[..] in
					// buildNode (the Deps of the action), m[..] in fileSet.fileNodes (FileNodes)
					if ix, ok := l.(*ast.IndexExpr); ok {
						if id, ok := ix.X.(*ast.Ident); ok &&
							((fname == "Builder.buildNode" && id.Name == "deps") || (fname == "fileSet.fileNodes" && id.Name == "m")) {
							mapKeys = append(mapKeys, fmt.Sprintf("(%s, %s, %s)", coqStr(fname), coqStr(id.Name), coqStr(p.src(ix.Index))))
						}
					}
					// element of a slice / map parameter: p[i] = ...
					if ix, ok := l.(*ast.IndexExpr); ok {
						if id, ok := ix.X.(*ast.Ident); ok {
							if k := params[id.Name]; k == "slice" || k == "map" {
								paramWrites = append(paramWrites, fmt.Sprintf("(%s, %s, %s)", coqStr(fname), coqStr(k), coqStr(p.src(x))))
							}
						}
					}
					// writes to the Builder's env: env.f = / env.f[k] = / b.env.f = / l.env.f = / e.f = (methods of env)
					target := l
					if ix, ok := target.(*ast.IndexExpr); ok {
						target = ix.X
						if sel, ok := ix.X.(*ast.SelectorExpr); ok && sel.Sel.Name == "loaded" {
							loadedStores = append(loadedStores, fmt.Sprintf("(%s, %s)", coqStr(fname), coqStr(p.src(x))))
						}
					}
					if sel, ok := target.(*ast.SelectorExpr); ok {
						base := p.src(sel.X)
						if base == "env" || base == "b.env" || base == "l.env" || base == "fs.env" ||
							(base == "e" && recvName(fd) == "env") {
							envWrites = append(envWrites, fmt.Sprintf("(%s, %s)", coqStr(fname), coqStr(p.src(target))))
						}
					}
					if sel, ok := l.(*ast.SelectorExpr); ok && sel.Sel.Name == "built" {
						stores = append(stores, fmt.Sprintf("(%s, %s)", coqStr(fname), coqStr(p.src(x))))
					}
					if id, ok := l.(*ast.Ident); ok && fname == "Builder.Build" && boundVar != "" &&
						id.Name == boundVar && x.Pos() > boundEnd {
						rebinds = append(rebinds, coqStr(p.src(x)))
					}
				}
			case *ast.CallExpr:
				// file-creating calls and where their path comes from: (function, call, first argument)
				if sel, ok := x.Fun.(*ast.SelectorExpr); ok {
					if id, ok := sel.X.(*ast.Ident); ok && (id.Name == "os" || id.Name == "ioutil") {
						switch sel.Sel.Name {
						case "Create", "CreateTemp", "MkdirTemp", "WriteFile", "OpenFile", "TempFile", "TempDir", "Mkdir", "MkdirAll", "Rename", "Symlink", "Link":
							arg := ""
							if len(x.Args) > 0 {
								arg = p.src(x.Args[0])
							}
							creates = append(creates, fmt.Sprintf("(%s, %s, %s)", coqStr(fname), coqStr(id.Name+"."+sel.Sel.Name), coqStr(arg)))
						}
					}
				}
				// call graph of the package (callee by base name) with the os stat calls as leaves
				callee := ""
				switch f := x.Fun.(type) {
				case *ast.Ident:
					if pkgFuncs[f.Name] {
						callee = f.Name
					}
				case *ast.SelectorExpr:
					if id, ok := f.X.(*ast.Ident); ok && id.Name == "os" &&
						(f.Sel.Name == "Stat" || f.Sel.Name == "Lstat" || f.Sel.Name == "Readlink") {
						callee = "os." + f.Sel.Name
					} else if id, ok := f.X.(*ast.Ident); ok && id.Name == "osutil" {
						callee = "osutil." + f.Sel.Name
					} else if pkgFuncs[f.Sel.Name] {
						callee = f.Sel.Name
					}
				}
				if callee != "" {
					e := fmt.Sprintf("(%s, %s, %s)", coqStr(fname), coqStr(fd.Name.Name), coqStr(callee))
					if !seenEdge[e] {
						seenEdge[e] = true
						callEdges = append(callEdges, e)
					}
				}
				// append(p, ...) / copy(p, ...) / sort.X(p) on a slice parameter can write the caller's array
				if id, ok := x.Fun.(*ast.Ident); ok && (id.Name == "append" || id.Name == "copy") && len(x.Args) > 0 {
					if a, ok := x.Args[0].(*ast.Ident); ok && params[a.Name] == "slice" {
						paramWrites = append(paramWrites, fmt.Sprintf("(%s, %s, %s)", coqStr(fname), coqStr(id.Name), coqStr(p.src(x))))
					}
				}
				if sel, ok := x.Fun.(*ast.SelectorExpr); ok && p.src(sel.X) == "sort" && len(x.Args) > 0 {
					if a, ok := x.Args[0].(*ast.Ident); ok && params[a.Name] == "slice" {
						paramWrites = append(paramWrites, fmt.Sprintf("(%s, %s, %s)", coqStr(fname), coqStr("sort"), coqStr(p.src(x))))
					}
				}
				if fname == "Builder.Build" {
					if sel, ok := x.Fun.(*ast.SelectorExpr); ok && sel.Sel.Name == "buildNodes" {
						arg := ""
						if len(x.Args) > 0 {
							arg = p.src(x.Args[0])
						}
						calls = append(calls, fmt.Sprintf("(%s, %s)", coqStr(path()), coqStr(arg)))
					}
				}
			}
			stack = append(stack, n)
			return true
		})
	}
	var items []string
	for _, s := range sites {
		items = append(items, fmt.Sprintf("(%s, %s, %s, %s)", coqStr(s.fn), coqStr(s.path), coqStr(s.bind), coqStr(s.built)))
	}
	fmt.Fprintf(b, "Definition memo_sites : list (string * string * string * string) :=\n  %s.\n\n", coqList(items))
	fmt.Fprintf(b, "Definition built_stores : list (string * string) :=\n  %s.\n\n", coqList(stores))
	fmt.Fprintf(b, "Definition build_nodes_calls : list (string * string) :=\n  %s.\n\n", coqList(calls))
	fmt.Fprintf(b, "Definition build_ctx_rebinds : list string :=\n  %s.\n\n", coqList(rebinds))
	// every assignment to a field of the Builder's env (function, field), and
	// every store into a loader's "loaded" map (function, statement)
	fmt.Fprintf(b, "Definition env_writes : list (string * string) :=\n  %s.\n\n", coqList(envWrites))
	fmt.Fprintf(b, "Definition loaded_stores : list (string * string) :=\n  %s.\n\n", coqList(loadedStores))
	// every write to an element of a slice or map PARAMETER (p[i] = ..), and
	// every append / copy / sort whose first argument is a slice parameter:
	// (function, kind, statement)
	fmt.Fprintf(b, "Definition param_writes : list (string * string * string) :=\n  %s.\n\n", coqList(paramWrites))
	// every file-creating call of the package: (function, call, first argument)
	fmt.Fprintf(b, "Definition file_creates : list (string * string * string) :=\n  %s.\n\n", coqList(creates))
	// key expressions of the hashed maps: (function, map, key expression)
	fmt.Fprintf(b, "Definition digest_map_keys : list (string * string * string) :=\n  %s.\n\n", coqList(mapKeys))
	// call graph: (caller, caller's base name, callee's base name); os.Stat /
	// os.Lstat / os.Readlink are leaves; a method call is an edge to every
	// function of that name
	fmt.Fprintf(b, "Definition call_edges : list (string * string * string) :=\n  %s.\n\n", coqList(callEdges))
	for _, s := range []string{"Builder", "env", "buildOpts", "dockerOpts", "buildContext", "loader", "loadTracer", "buildCache"} {
		fmt.Fprintf(b, "Definition layout_%s : list (string * string * string) :=\n  %s.\n\n",
			s, coqList(p.structLayout(s)))
	}
	// package-level variables: (file, names, type, value)
	var vars []string
	for _, fn := range p.sortedFiles() {
		for _, d := range p.files[fn].Decls {
			gd, ok := d.(*ast.GenDecl)
			if !ok || gd.Tok != token.VAR {
				continue
			}
			for _, sp := range gd.Specs {
				vs := sp.(*ast.ValueSpec)
				var names []string
				for _, n := range vs.Names {
					names = append(names, n.Name)
				}
				typ := ""
				if vs.Type != nil {
					typ = p.src(vs.Type)
				}
				var vals []string
				for _, v := range vs.Values {
					vals = append(vals, p.src(v))
				}
				val := strings.Join(vals, ", ")
				if len(val) > 60 {
					val = val[:60]
				}
				vars = append(vars, fmt.Sprintf("(%s, %s, %s)", coqStr(strings.Join(names, ",")), coqStr(typ), coqStr(val)))
			}
		}
	}
	fmt.Fprintf(b, "Definition pkg_vars : list (string * string * string) :=\n  %s.\n", coqList(vars))
}
