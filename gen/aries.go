package main

import (
	"fmt"
	"go/ast"
	"go/token"
	"os"
	"path/filepath"
	"sort"
	"strconv"
	"strings"
)

// Emitter for C20: statement skeletons of aries/service_set.go (Serve,
// ServeInternal, serveAuth, isAdmin, serveService), the lookup key of
// aries/host_mux.go and the dispatch / method conditions of
// aries/router.go, as terms of the types declared in Aries/Tiers.v and
// Aries/Router.v.  Anything not recognised becomes an explicit Unknown
// constructor carrying the source text.

func init() { register("AriesSkel", genAries) }

type ariesCtx struct {
	p    *pkg
	recv string // receiver name of the method being read ("s")
	c    string // name of the *C parameter ("c")
}

func paramNames(fd *ast.FuncDecl) []string {
	var out []string
	if fd.Type.Params == nil {
		return out
	}
	for _, f := range fd.Type.Params.List {
		for _, n := range f.Names {
			out = append(out, n.Name)
		}
	}
	return out
}

func (a *ariesCtx) cond(e ast.Expr) string {
	switch x := e.(type) {
	case *ast.ParenExpr:
		return a.cond(x.X)
	case *ast.UnaryExpr:
		if x.Op == token.NOT {
			return "(CNot " + a.cond(x.X) + ")"
		}
	case *ast.BinaryExpr:
		if x.Op == token.LAND {
			return "(CAnd " + a.cond(x.X) + " " + a.cond(x.Y) + ")"
		}
	}
	switch a.p.src(e) {
	case a.c + `.User != ""`:
		return "CUserSet"
	case a.c + `.UserLevel > 0`:
		return "CLevelPos"
	case a.recv + ".isAdmin(" + a.c + ")":
		return "CIsAdmin"
	case a.recv + ".Auth != nil":
		return "CAuthSet"
	case a.recv + ".InternalSignIn != nil":
		return "CSignInSet"
	case a.c + `.Path == "/"`:
		return "CPathRoot"
	}
	return "(CUnknown " + coqStr(a.p.src(e)) + ")"
}

var tierOfField = map[string]string{
	"Auth": "TAuth", "Resource": "TResource", "Guest": "TGuest", "User": "TUser", "Admin": "TAdmin",
}

func (a *ariesCtx) isReturn(b *ast.BlockStmt, text string) bool {
	return b != nil && len(b.List) == 1 && a.p.src(b.List[0]) == text
}

func (a *ariesCtx) stmt(s ast.Stmt) string {
	unknown := "(SUnknown " + coqStr(a.p.src(s)) + ")"
	switch x := s.(type) {
	case *ast.IfStmt:
		if x.Init != nil {
			init := a.p.src(x.Init)
			cond := a.p.src(x.Cond)
			// if err := serveService(s.T, c); err != Miss { return err }
			for f, t := range tierOfField {
				if init == "err := serveService("+a.recv+"."+f+", "+a.c+")" && cond == "err != Miss" &&
					a.isReturn(x.Body, "return err") && x.Else == nil {
					return "(STry " + t + ")"
				}
			}
			if init == "err := "+a.recv+".Auth.Setup("+a.c+")" && cond == "err != nil" &&
				a.isReturn(x.Body, "return err") && x.Else == nil {
				return "SSetup"
			}
			if init == "served, err := "+a.recv+".serveAuth("+a.c+")" && cond == "err != nil" &&
				a.isReturn(x.Body, "return err") {
				if e, ok := x.Else.(*ast.IfStmt); ok && e.Init == nil && a.p.src(e.Cond) == "served" &&
					a.isReturn(e.Body, "return nil") && e.Else == nil {
					return "SAuthGate"
				}
			}
			return unknown
		}
		if x.Else != nil {
			return unknown
		}
		return "(SIf " + a.cond(x.Cond) + " " + a.block(x.Body.List) + ")"
	case *ast.ExprStmt:
		if a.p.src(x) == a.c+`.Redirect("/")` {
			return "SRedirectRoot"
		}
	case *ast.ReturnStmt:
		switch a.p.src(x) {
		case "return Miss":
			return "(SReturn RMiss)"
		case "return nil":
			return "(SReturn RNil)"
		case "return NeedSignIn":
			return "(SReturn RNeedSignIn)"
		case "return " + a.recv + ".InternalSignIn(" + a.c + ")":
			return "(SReturn RSignIn)"
		}
		return "(SReturn (RUnknown " + coqStr(a.p.src(x)) + "))"
	}
	return unknown
}

func (a *ariesCtx) block(ss []ast.Stmt) string {
	var items []string
	for _, s := range ss {
		items = append(items, a.stmt(s))
	}
	if len(items) == 0 {
		return "[]"
	}
	return "[" + strings.Join(items, "; ") + "]"
}

func methodCtx(p *pkg, recvType, name string) (*ariesCtx, *ast.FuncDecl, error) {
	fd := p.funcDecl(recvType, name)
	if fd == nil || fd.Body == nil {
		return nil, nil, fmt.Errorf("%s.%s not found", recvType, name)
	}
	a := &ariesCtx{p: p, recv: recvVar(fd)}
	ps := paramNames(fd)
	if len(ps) > 0 {
		a.c = ps[len(ps)-1]
	}
	return a, fd, nil
}

// router conditions
func rcond(p *pkg, e ast.Expr, n, c string) string {
	switch x := e.(type) {
	case *ast.ParenExpr:
		return rcond(p, x.X, n, c)
	case *ast.UnaryExpr:
		if x.Op == token.NOT {
			return "(RCNot " + rcond(p, x.X, n, c) + ")"
		}
	case *ast.BinaryExpr:
		if x.Op == token.LAND {
			return "(RCAnd " + rcond(p, x.X, n, c) + " " + rcond(p, x.Y, n, c) + ")"
		}
		if x.Op == token.LOR {
			return "(RCOr " + rcond(p, x.X, n, c) + " " + rcond(p, x.Y, n, c) + ")"
		}
	}
	switch p.src(e) {
	case n + ".isDir":
		return "RCIsDir"
	case c + `.Rel() == ""`:
		return "RCRelEmpty"
	case c + ".PathIsDir()":
		return "RCPathIsDir"
	case n + `.method != ""`:
		return "RCMethodSet"
	case "m != " + n + ".method":
		return "RCMethodDiffers"
	}
	return "(RCUnknown " + coqStr(p.src(e)) + ")"
}

func genAries(repo string) (string, error) {
	p, err := loadPkg(filepath.Join(repo, "aries"))
	if err != nil {
		return "", err
	}
	var b strings.Builder
	b.WriteString("(* Generated by gen/aries.go from aries/service_set.go, aries/host_mux.go,\n" +
		"   aries/router.go, aries/trie.go. Do not edit. *)\n" +
		"From Coq Require Import List String.\n" +
		"From Coq Require Import NArith.\nFrom Verif Require Import Aries.Tiers Aries.Router Aries.CtxSeq.\n" +
		"Import ListNotations.\nLocal Open Scope string_scope.\n\n")

	// ServiceSet.Serve / ServeInternal
	for _, m := range []struct{ method, def string }{
		{"Serve", "gen_serve_prog"}, {"ServeInternal", "gen_serve_internal_prog"},
	} {
		a, fd, err := methodCtx(p, "ServiceSet", m.method)
		if err != nil {
			return "", err
		}
		fmt.Fprintf(&b, "Definition %s : list stmt :=\n  %s.\n\n", m.def, a.block(fd.Body.List))
	}

	// serveAuth
	{
		a, fd, err := methodCtx(p, "ServiceSet", "serveAuth")
		if err != nil {
			return "", err
		}
		var items []string
		for _, s := range fd.Body.List {
			item := "(AUnknown " + coqStr(p.src(s)) + ")"
			switch x := s.(type) {
			case *ast.IfStmt:
				if x.Init != nil && p.src(x.Init) == "err := "+a.recv+".Auth.Serve("+a.c+")" &&
					p.src(x.Cond) == "err != Miss" && a.isReturn(x.Body, "return true, err") && x.Else == nil {
					item = "ATryServe"
				}
			case *ast.ReturnStmt:
				if p.src(x) == "return false, "+a.recv+".Auth.Setup("+a.c+")" {
					item = "AReturnSetup"
				}
			}
			items = append(items, item)
		}
		fmt.Fprintf(&b, "Definition gen_serve_auth_prog : list auth_stmt :=\n  [%s].\n\n", strings.Join(items, "; "))
	}

	// isAdmin: if s.IsAdmin == nil { return <default> }; return s.IsAdmin(c)
	{
		a, fd, err := methodCtx(p, "ServiceSet", "isAdmin")
		if err != nil {
			return "", err
		}
		def := "(CUnknown " + coqStr(p.src(fd.Body)) + ")"
		if len(fd.Body.List) == 2 {
			if x, ok := fd.Body.List[0].(*ast.IfStmt); ok && x.Init == nil && x.Else == nil &&
				p.src(x.Cond) == a.recv+".IsAdmin == nil" && len(x.Body.List) == 1 &&
				p.src(fd.Body.List[1]) == "return "+a.recv+".IsAdmin("+a.c+")" {
				if r, ok := x.Body.List[0].(*ast.ReturnStmt); ok && len(r.Results) == 1 {
					def = a.cond(r.Results[0])
				}
			}
		}
		fmt.Fprintf(&b, "Definition gen_default_admin : cond :=\n  %s.\n\n", def)
	}

	// serveService: if m == nil { return Miss }; return m.Serve(c)
	{
		fd := p.funcDecl("", "serveService")
		ok := false
		if fd != nil && fd.Body != nil && len(fd.Body.List) == 2 {
			ps := paramNames(fd)
			if len(ps) == 2 {
				m, c := ps[0], ps[1]
				ok = p.src(fd.Body.List[0]) == "if "+m+" == nil { return Miss }" &&
					p.src(fd.Body.List[1]) == "return "+m+".Serve("+c+")"
			}
		}
		fmt.Fprintf(&b, "Definition gen_serve_service_nil_is_miss : bool := %v.\n\n", ok)
	}

	// HostMux.Serve / Set
	{
		key := "(HKUnknown \"HostMux.Serve not found\")"
		if a, fd, err := methodCtx(p, "HostMux", "Serve"); err == nil {
			key = "(HKUnknown " + coqStr(p.src(fd.Body)) + ")"
			l := fd.Body.List
			if len(l) == 4 && p.src(l[0]) == "host := "+a.c+".Req.Host" &&
				p.src(l[1]) == "s, found := "+a.recv+".m[host]" &&
				p.src(l[2]) == "if !found { return Miss }" &&
				p.src(l[3]) == "return s.Serve("+a.c+")" {
				key = "HKReqHost"
			}
		}
		fmt.Fprintf(&b, "Definition gen_host_key : host_key := %s.\n", key)
		setOK := false
		if fd := p.funcDecl("HostMux", "Set"); fd != nil && fd.Body != nil && len(fd.Body.List) == 1 {
			ps := paramNames(fd)
			if len(ps) == 2 {
				setOK = p.src(fd.Body.List[0]) == recvVar(fd)+".m["+ps[0]+"] = "+ps[1]
			}
		}
		fmt.Fprintf(&b, "Definition gen_host_set_is_store : bool := %v.\n\n", setOK)
	}

	// Router.Serve: the dispatch condition and the method check
	{
		disp := "(RCUnknown \"dispatch condition not found\")"
		meth := "(RCUnknown \"method check not found\")"
		// The body that dispatches is Router.serve when Serve is the wrapper
		// that restores the route position on a miss, else Serve itself.
		bodyName := "Serve"
		if p.funcDecl("Router", "serve") != nil {
			bodyName = "serve"
		}
		if a, fd, err := methodCtx(p, "Router", bodyName); err == nil {
			ast.Inspect(fd.Body, func(nd ast.Node) bool {
				x, ok := nd.(*ast.IfStmt)
				if !ok || x.Init != nil {
					return true
				}
				src := p.src(x.Cond)
				if strings.Contains(src, ".isDir") {
					disp = rcond(p, x.Cond, "n", a.c)
					if x.Else != nil {
						disp = "(RCUnknown " + coqStr("else branch: "+src) + ")"
					}
				}
				if strings.Contains(src, ".method") {
					meth = rcond(p, x.Cond, "n", a.c)
				}
				return true
			})
		}
		fmt.Fprintf(&b, "Definition gen_dispatch_cond : rcond :=\n  %s.\n", disp)
		fmt.Fprintf(&b, "Definition gen_method_reject : rcond :=\n  %s.\n\n", meth)

		// What Router.Serve leaves in the context when it misses:
		//   pos := c.routePos; err := r.serve(c); if err == Miss { c.routePos = pos }; return err
		// = RWRestoreOnMiss; Serve being the dispatching body itself (no
		// routePos assignment at all) = RWPlain; anything else Unknown.
		wrap := "(RWUnknown \"Router.Serve not found\")"
		if a, fd, err := methodCtx(p, "Router", "Serve"); err == nil {
			rv, c := a.recv, a.c
			l := fd.Body.List
			txt := make([]string, len(l))
			for i, st := range l {
				txt[i] = p.src(st)
			}
			switch {
			case bodyName == "serve" && len(l) == 4 &&
				txt[0] == "pos := "+c+".routePos" &&
				txt[1] == "err := "+rv+".serve("+c+")" &&
				txt[2] == "if err == Miss { "+c+".routePos = pos }" &&
				txt[3] == "return err":
				wrap = "RWRestoreOnMiss"
			case bodyName == "Serve" && !strings.Contains(p.src(fd.Body), "routePos"):
				wrap = "RWPlain"
			default:
				wrap = "(RWUnknown " + coqStr(p.src(fd.Body)) + ")"
			}
		}
		fmt.Fprintf(&b, "Definition gen_router_wrap : rwrap :=\n  %s.\n\n", wrap)
	}

	// Every exported method of C whose result is a slice or a map: does the
	// caller get a freshly allocated value (every return hands back a local
	// that was made in the body and filled by copy / append / index
	// assignment), or a field / sub-slice / method result of the context's own
	// state?  A handler may write to what it is handed.
	{
		var items []string
		for _, fn := range p.sortedFiles() {
			for _, d := range p.files[fn].Decls {
				fd, ok := d.(*ast.FuncDecl)
				if !ok || fd.Body == nil || recvName(fd) != "C" || !fd.Name.IsExported() ||
					fd.Type.Results == nil || len(fd.Type.Results.List) == 0 {
					continue
				}
				shared := false
				for _, r := range fd.Type.Results.List {
					switch t := r.Type.(type) {
					case *ast.ArrayType:
						shared = shared || t.Len == nil
					case *ast.MapType:
						shared = true
					}
				}
				if !shared {
					continue
				}
				// locals bound to make(...) or a composite literal
				fresh := map[string]bool{}
				ast.Inspect(fd.Body, func(nd ast.Node) bool {
					as, ok := nd.(*ast.AssignStmt)
					if !ok || len(as.Lhs) != 1 || len(as.Rhs) != 1 {
						return true
					}
					id, ok := as.Lhs[0].(*ast.Ident)
					if !ok {
						return true
					}
					switch r := as.Rhs[0].(type) {
					case *ast.CallExpr:
						if f, ok := r.Fun.(*ast.Ident); ok && f.Name == "make" {
							fresh[id.Name] = true
						}
					case *ast.CompositeLit:
						fresh[id.Name] = true
					}
					return true
				})
				kind := "AccFresh"
				nret := 0
				ast.Inspect(fd.Body, func(nd ast.Node) bool {
					rs, ok := nd.(*ast.ReturnStmt)
					if !ok {
						return true
					}
					nret++
					for _, e := range rs.Results {
						if id, ok := e.(*ast.Ident); ok && (fresh[id.Name] || id.Name == "nil") {
							continue
						}
						if kind == "AccFresh" {
							kind = "AccAlias"
						}
					}
					return true
				})
				if nret == 0 {
					kind = "(AccUnknown " + coqStr(p.src(fd.Body)) + ")"
				}
				items = append(items, "("+coqStr(fd.Name.Name)+", "+kind+")")
			}
		}
		fmt.Fprintf(&b, "Definition gen_ctx_accessors : list (string * acc_kind) :=\n  [%s].\n\n", strings.Join(items, "; "))
	}

	// every integer (literal or constant, 8 and above) the routing sources name:
	// route and path depths on both sides of each are worth a case
	{
		seen := map[int64]bool{}
		var lits []string
		scan := func(q *pkg, files map[string]bool) {
			for _, fn := range q.sortedFiles() {
				if strings.HasSuffix(fn, "_test.go") || (files != nil && !files[filepath.Base(fn)]) {
					continue
				}
				ast.Inspect(q.files[fn], func(nd ast.Node) bool {
					if bl, ok := nd.(*ast.BasicLit); ok && bl.Kind == token.INT {
						if v, err := strconv.ParseInt(bl.Value, 0, 64); err == nil && v >= 8 && !seen[v] {
							seen[v] = true
							lits = append(lits, fmt.Sprintf("%d%%N", v))
						}
					}
					return true
				})
			}
		}
		scan(p, map[string]bool{"route.go": true, "router.go": true, "trie.go": true, "mux.go": true,
			"service_set.go": true, "host_mux.go": true})
		if tp, err := loadPkg(filepath.Join(repo, "trie")); err == nil {
			scan(tp, nil)
		}
		sort.Strings(lits)
		fmt.Fprintf(&b, "Definition gen_aries_int_literals : list N := [%s].\n\n", strings.Join(lits, "; "))
	}

	// trie.go: newTrieNode sets hit: true; newTrieRoot() = newTrieNode("", "")
	{
		hit := false
		if fd := p.funcDecl("", "newTrieNode"); fd != nil && fd.Body != nil {
			ast.Inspect(fd.Body, func(nd ast.Node) bool {
				if kv, ok := nd.(*ast.KeyValueExpr); ok && p.src(kv.Key) == "hit" && p.src(kv.Value) == "true" {
					hit = true
				}
				return true
			})
		}
		root := false
		if fd := p.funcDecl("", "newTrieRoot"); fd != nil && fd.Body != nil && len(fd.Body.List) == 1 {
			root = p.src(fd.Body.List[0]) == `return newTrieNode("", "")`
		}
		fmt.Fprintf(&b, "Definition gen_new_node_hit : bool := %v.\n", hit)
		fmt.Fprintf(&b, "Definition gen_root_is_empty_new_node : bool := %v.\n", root)
	}
	return b.String(), nil
}

// ---------------------------------------------------------------- round 2
//
// Gen/AriesEntry.v: what NewContext reads from the request URL, the
// ErrCode switch, the Router's nil-handler guards, and two repository-wide
// scans that back the scope "register everything, then serve": call sites
// that register on a Mux/Router/HostMux from inside a handler or a
// goroutine, and writes to the routing structures in the serving methods.

func init() { register("AriesEntry", genAriesEntry) }

func urlSrc(p *pkg, e ast.Expr, u string) string {
	switch p.src(e) {
	case u + ".Path":
		return "USPath"
	case u + ".RawPath":
		return "USRawPath"
	case u + ".EscapedPath()":
		return "USEscapedPath"
	case "req.RequestURI", u + ".RequestURI()":
		return "USRequestURI"
	}
	return "(USUnknown " + coqStr(p.src(e)) + ")"
}

var registerMethods = map[string]bool{
	"Prefix": true, "Exact": true, "Dir": true, "File": true, "MethodFile": true, "Get": true, "Post": true,
	"JSONCall": true, "JSONCallMust": true, "Call": true, "DirService": true, "Index": true, "Default": true, "Set": true,
}

var distinctiveRegisterMethods = map[string]bool{
	"MethodFile": true, "JSONCall": true, "JSONCallMust": true, "DirService": true,
}

var routingCtors = map[string]bool{
	"NewRouter": true, "NewMux": true, "NewHostMux": true,
	"aries.NewRouter": true, "aries.NewMux": true, "aries.NewHostMux": true,
}

// lateRegistrations scans one package directory.
func lateRegistrations(p *pkg, rel string) []string {
	var out []string
	for _, fn := range p.sortedFiles() {
		for _, d := range p.files[fn].Decls {
			fd, ok := d.(*ast.FuncDecl)
			if !ok || fd.Body == nil {
				continue
			}
			// variables bound to a fresh routing structure in this function
			tracked := map[string]bool{}
			ast.Inspect(fd.Body, func(n ast.Node) bool {
				as, ok := n.(*ast.AssignStmt)
				if !ok || len(as.Lhs) != 1 || len(as.Rhs) != 1 {
					return true
				}
				call, ok := as.Rhs[0].(*ast.CallExpr)
				if !ok || !routingCtors[p.src(call.Fun)] {
					return true
				}
				if id, ok := as.Lhs[0].(*ast.Ident); ok {
					tracked[id.Name] = true
				}
				return true
			})
			var walk func(n ast.Node, deferred bool)
			walk = func(n ast.Node, deferred bool) {
				ast.Inspect(n, func(m ast.Node) bool {
					switch x := m.(type) {
					case *ast.FuncLit:
						if m != n {
							walk(x.Body, true)
							return false
						}
					case *ast.GoStmt:
						walk(x.Call, true)
						return false
					case *ast.CallExpr:
						sel, ok := x.Fun.(*ast.SelectorExpr)
						if !ok || !deferred {
							return true
						}
						id, isID := sel.X.(*ast.Ident)
						if (isID && tracked[id.Name] && registerMethods[sel.Sel.Name]) ||
							distinctiveRegisterMethods[sel.Sel.Name] {
							pos := p.fset.Position(x.Pos())
							out = append(out, fmt.Sprintf("%s/%s:%d %s", rel, fn, pos.Line, p.src(x.Fun)))
						}
					}
					return true
				})
			}
			walk(fd.Body, false)
		}
	}
	return out
}

// rootIdent is the identifier an lvalue hangs off: a.b[c].d -> a.
func rootIdent(e ast.Expr) string {
	for {
		switch x := e.(type) {
		case *ast.Ident:
			return x.Name
		case *ast.SelectorExpr:
			e = x.X
		case *ast.IndexExpr:
			e = x.X
		case *ast.StarExpr:
			e = x.X
		case *ast.ParenExpr:
			e = x.X
		default:
			return ""
		}
	}
}

// servingWrites lists statements of a serving method that modify what the
// receiver (or the named parameter) points to.
func servingWrites(p *pkg, recvType, name string, extra ...string) []string {
	fd := p.funcDecl(recvType, name)
	if fd == nil || fd.Body == nil {
		return []string{recvType + "." + name + " not found"}
	}
	roots := map[string]bool{}
	if rv := recvVar(fd); rv != "" {
		roots[rv] = true
	}
	for _, e := range extra {
		roots[e] = true
	}
	var out []string
	ast.Inspect(fd.Body, func(n ast.Node) bool {
		switch x := n.(type) {
		case *ast.AssignStmt:
			for _, l := range x.Lhs {
				if _, plain := l.(*ast.Ident); plain {
					continue // a local variable
				}
				if roots[rootIdent(l)] {
					out = append(out, recvType+"."+name+": "+p.src(x))
				}
			}
		case *ast.IncDecStmt:
			if _, plain := x.X.(*ast.Ident); !plain && roots[rootIdent(x.X)] {
				out = append(out, recvType+"."+name+": "+p.src(x))
			}
		case *ast.CallExpr:
			if id, ok := x.Fun.(*ast.Ident); ok && id.Name == "delete" {
				out = append(out, recvType+"."+name+": "+p.src(x))
			}
			if sel, ok := x.Fun.(*ast.SelectorExpr); ok && roots[rootIdent(sel.X)] {
				switch sel.Sel.Name {
				case "add", "addChild", "Add", "Set", "Prefix", "Exact", "Dir":
					out = append(out, recvType+"."+name+": "+p.src(x))
				}
			}
		}
		return true
	})
	return out
}

func genAriesEntry(repo string) (string, error) {
	p, err := loadPkg(filepath.Join(repo, "aries"))
	if err != nil {
		return "", err
	}
	var b strings.Builder
	b.WriteString("(* Generated by gen/aries.go (genAriesEntry) from aries/context.go, aries/router.go,\n" +
		"   aries/mux.go, aries/host_mux.go, aries/trie.go, trie/*.go and a scan of every package. Do not edit. *)\n" +
		"From Coq Require Import List String NArith.\n" +
		"From Verif Require Import Aries.Entry.\n" +
		"Import ListNotations.\nLocal Open Scope string_scope.\n\n")

	// NewContext: u := req.URL; &C{Path: <e1>, ..., route: newRoute(<e2>)}
	pathSrc := "(USUnknown \"NewContext not found\")"
	routeSrc := pathSrc
	if fd := p.funcDecl("", "NewContext"); fd != nil && fd.Body != nil {
		uvar := ""
		ast.Inspect(fd.Body, func(n ast.Node) bool {
			if as, ok := n.(*ast.AssignStmt); ok && len(as.Lhs) == 1 && len(as.Rhs) == 1 && p.src(as.Rhs[0]) == "req.URL" {
				if id, ok := as.Lhs[0].(*ast.Ident); ok {
					uvar = id.Name
				}
			}
			return true
		})
		if uvar == "" {
			uvar = "req.URL"
		}
		pathSrc = "(USUnknown \"no Path field in NewContext\")"
		routeSrc = "(USUnknown \"no route field in NewContext\")"
		ast.Inspect(fd.Body, func(n ast.Node) bool {
			kv, ok := n.(*ast.KeyValueExpr)
			if !ok {
				return true
			}
			switch p.src(kv.Key) {
			case "Path":
				pathSrc = urlSrc(p, kv.Value, uvar)
			case "route":
				routeSrc = "(USUnknown " + coqStr(p.src(kv.Value)) + ")"
				if c, ok := kv.Value.(*ast.CallExpr); ok && p.src(c.Fun) == "newRoute" && len(c.Args) == 1 {
					routeSrc = urlSrc(p, c.Args[0], uvar)
				}
			}
			return true
		})
		// later assignments to c.Path / c.route in NewContext would escape the literal
		for _, w := range servingWrites(p, "", "NewContext", "c", "ctx") {
			pathSrc = "(USUnknown " + coqStr("assignment after the literal: "+w) + ")"
		}
	}
	fmt.Fprintf(&b, "Definition gen_ctx_path_src : url_src := %s.\n", pathSrc)
	fmt.Fprintf(&b, "Definition gen_ctx_route_src : url_src := %s.\n\n", routeSrc)

	// C.ErrCode: switch errcode.Of(err) { case errcode.X: return c.replyError(N, err) ... } return c.replyError(D, err)
	{
		var rows []string
		dflt := "0 (* not found *)"
		ok := false
		if a, fd, err := methodCtx(p, "C", "ErrCode"); err == nil {
			c := a.recv
			for _, st := range fd.Body.List {
				switch x := st.(type) {
				case *ast.SwitchStmt:
					ok = true
					for _, cc := range x.Body.List {
						cl := cc.(*ast.CaseClause)
						row := ""
						if len(cl.List) == 1 && len(cl.Body) == 1 {
							name := strings.TrimPrefix(p.src(cl.List[0]), "errcode.")
							body := p.src(cl.Body[0])
							pre := "return " + c + ".replyError("
							if strings.HasPrefix(body, pre) && strings.HasSuffix(body, ", err)") {
								code := strings.TrimSuffix(strings.TrimPrefix(body, pre), ", err)")
								if _, e := fmt.Sscanf(code, "%d", new(int)); e == nil {
									row = fmt.Sprintf("(%s, %s%%N)", coqStr(name), code)
								}
							}
						}
						if row == "" {
							row = fmt.Sprintf("(%s, 0%%N)", coqStr("unrecognised: "+p.src(cc)))
						}
						rows = append(rows, row)
					}
				case *ast.ReturnStmt:
					body := p.src(x)
					pre := "return " + c + ".replyError("
					if strings.HasPrefix(body, pre) && strings.HasSuffix(body, ", err)") {
						dflt = strings.TrimSuffix(strings.TrimPrefix(body, pre), ", err)") + "%N"
					}
				}
			}
		}
		if !ok {
			rows = []string{"(\"ErrCode switch not found\", 0%N)"}
		}
		fmt.Fprintf(&b, "Definition gen_errcode_table : list (string * N) :=\n  [%s].\n", strings.Join(rows, "; "))
		fmt.Fprintf(&b, "Definition gen_errcode_default : N := %s.\n\n", dflt)
	}

	// Router: nil handlers are refused (add) or mean "none" (Index, Default)
	{
		addOK, idxOK, dfOK, helperOK := false, false, false, false
		if fd := p.funcDecl("Router", "add"); fd != nil && fd.Body != nil && len(fd.Body.List) > 0 {
			addOK = p.src(fd.Body.List[0]) == `if nilService(n.s) { panic("function is nil") }`
		}
		if fd := p.funcDecl("", "nilService"); fd != nil && fd.Body != nil {
			helperOK = p.src(fd.Body) == "{ if s == nil { return true } f, ok := s.(Func) return ok && f == nil }"
		}
		shape := func(name, field string) bool {
			fd := p.funcDecl("Router", name)
			if fd == nil || fd.Body == nil {
				return false
			}
			return p.src(fd.Body) == "{ if f == nil { r."+field+" = nil return } r."+field+" = f }"
		}
		idxOK, dfOK = shape("Index", "index"), shape("Default", "miss")
		fmt.Fprintf(&b, "Definition gen_router_add_refuses_nil : bool := %v.\n", addOK && helperOK)
		fmt.Fprintf(&b, "Definition gen_router_nil_index_is_none : bool := %v.\n", idxOK && dfOK)
	}

	// serving methods do not write to the routing structures
	{
		var w []string
		w = append(w, servingWrites(p, "Mux", "Route")...)
		w = append(w, servingWrites(p, "Mux", "Serve")...)
		w = append(w, servingWrites(p, "trieNode", "find")...)
		w = append(w, servingWrites(p, "", "trieFind", "root")...)
		w = append(w, servingWrites(p, "Router", "Serve")...)
		if p.funcDecl("Router", "serve") != nil {
			w = append(w, servingWrites(p, "Router", "serve")...)
		}
		w = append(w, servingWrites(p, "Router", "notFound")...)
		w = append(w, servingWrites(p, "HostMux", "Serve")...)
		if tp, err := loadPkg(filepath.Join(repo, "trie")); err == nil {
			w = append(w, servingWrites(tp, "node", "find")...)
			w = append(w, servingWrites(tp, "node", "findSub")...)
			w = append(w, servingWrites(tp, "Trie", "Find")...)
			w = append(w, servingWrites(tp, "Trie", "FindExact")...)
		} else {
			w = append(w, "package trie not readable")
		}
		fmt.Fprintf(&b, "\nDefinition gen_serving_writes : list string :=\n  %s.\n", coqStrList(w))
	}

	// registration from inside handlers / goroutines, anywhere in the repository
	{
		var late []string
		filepath.WalkDir(repo, func(path string, d os.DirEntry, err error) error {
			if err != nil || !d.IsDir() {
				return nil
			}
			if n := d.Name(); strings.HasPrefix(n, ".") || n == "testdata" || n == "vendor" {
				return filepath.SkipDir
			}
			q, err := loadPkg(path)
			if err != nil || len(q.files) == 0 {
				return nil
			}
			rel, _ := filepath.Rel(repo, path)
			late = append(late, lateRegistrations(q, rel)...)
			return nil
		})
		fmt.Fprintf(&b, "\nDefinition gen_late_registrations : list string :=\n  %s.\n", coqStrList(late))
	}
	return b.String(), nil
}
