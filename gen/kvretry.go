package main

// What the function of a Mutate is shown (Gen/KvRetry.v, used by Kv/Retry.v /
// Kv/AtomicGen.v): per backend whether mutate invokes its function at most
// once per call (one call site, outside every loop, the function handed to
// nobody else), and whether the closure of KV.Mutate decodes into a target
// that is created inside the closure (fresh per invocation) or into a
// variable that outlives it.

import (
	"fmt"
	"go/ast"
	"path/filepath"
	"strings"
)

func init() { register("KvRetry", genKvRetry) }

// invokesOnce reports whether fd calls its parameter `param` exactly once,
// outside every loop and every function literal, and passes it to no call.
func invokesOnce(p *pkg, fd *ast.FuncDecl, param string) (bool, string) {
	calls, inLoop, passed := 0, false, ""
	var walk func(n ast.Node, loop bool)
	walk = func(n ast.Node, loop bool) {
		ast.Inspect(n, func(x ast.Node) bool {
			switch s := x.(type) {
			case *ast.ForStmt:
				if s.Init != nil {
					walk(s.Init, loop)
				}
				if s.Cond != nil {
					walk(s.Cond, true)
				}
				if s.Post != nil {
					walk(s.Post, true)
				}
				walk(s.Body, true)
				return false
			case *ast.RangeStmt:
				walk(s.X, loop)
				walk(s.Body, true)
				return false
			case *ast.FuncLit:
				walk(s.Body, true) // may run any number of times
				return false
			case *ast.CallExpr:
				if id, ok := s.Fun.(*ast.Ident); ok && id.Name == param {
					calls++
					if loop {
						inLoop = true
					}
				}
				for _, a := range s.Args {
					if id, ok := a.(*ast.Ident); ok && id.Name == param {
						passed = p.src(s)
					}
				}
			}
			return true
		})
	}
	walk(fd.Body, false)
	switch {
	case passed != "":
		return false, "the function is handed on: " + passed
	case inLoop:
		return false, "called inside a loop or a function literal"
	case calls != 1:
		return false, fmt.Sprintf("%d call sites", calls)
	}
	return true, ""
}

// wrapperTarget looks at KV.Mutate: the closure handed to b.ops.Mutate and the
// second argument of the json.Unmarshal in it.
func wrapperTarget(p *pkg) (fresh bool, target string) {
	fd := p.funcDecl("KV", "Mutate")
	if fd == nil || fd.Body == nil {
		return false, "KV.Mutate not found"
	}
	var lit *ast.FuncLit
	ast.Inspect(fd.Body, func(n ast.Node) bool {
		if c, ok := n.(*ast.CallExpr); ok && strings.HasSuffix(p.src(c.Fun), ".ops.Mutate") {
			for _, a := range c.Args {
				if fl, ok := a.(*ast.FuncLit); ok {
					lit = fl
				}
			}
		}
		return true
	})
	if lit == nil {
		return false, "no closure handed to ops.Mutate"
	}
	declared := map[string]bool{}
	ast.Inspect(lit.Body, func(n ast.Node) bool {
		switch s := n.(type) {
		case *ast.AssignStmt:
			if s.Tok.String() == ":=" {
				for _, l := range s.Lhs {
					if id, ok := l.(*ast.Ident); ok {
						declared[id.Name] = true
					}
				}
			}
		case *ast.ValueSpec:
			for _, id := range s.Names {
				declared[id.Name] = true
			}
		}
		return true
	})
	found := false
	ast.Inspect(lit.Body, func(n ast.Node) bool {
		if c, ok := n.(*ast.CallExpr); ok && p.src(c.Fun) == "json.Unmarshal" && len(c.Args) == 2 {
			found = true
			target = p.src(c.Args[1])
			name := strings.TrimPrefix(target, "&")
			fresh = declared[name]
		}
		return true
	})
	if !found {
		return false, "no json.Unmarshal in the closure"
	}
	return fresh, target
}

func genKvRetry(repo string) (string, error) {
	p, err := loadPkg(filepath.Join(repo, "pisces"))
	if err != nil {
		return "", err
	}
	var b strings.Builder
	b.WriteString("(* generated from pisces/kv.go, mem_kv.go, sqlite3_kv.go, psql_kv.go; do not edit *)\n")
	b.WriteString("From Coq Require Import List String.\nImport ListNotations.\nLocal Open Scope string_scope.\n\n")
	var rows []string
	for _, typ := range []string{"memKV", "sqlite3KV", "psqlKV"} {
		fd := p.funcDecl(typ, "mutate")
		if fd == nil || fd.Body == nil || fd.Type.Params == nil || len(fd.Type.Params.List) < 2 ||
			len(fd.Type.Params.List[1].Names) != 1 {
			rows = append(rows, fmt.Sprintf("(%s, false, %s)", coqStr(typ), coqStr("mutate(k, f) not found")))
			continue
		}
		ok, why := invokesOnce(p, fd, fd.Type.Params.List[1].Names[0].Name)
		rows = append(rows, fmt.Sprintf("(%s, %v, %s)", coqStr(typ), ok, coqStr(why)))
	}
	fmt.Fprintf(&b, "(* backend, does mutate invoke its function at most once per call?, if not: why *)\n")
	fmt.Fprintf(&b, "Definition gen_mutate_once : list (string * bool * string) :=\n  %s.\n\n", coqList(rows))
	fresh, target := wrapperTarget(p)
	fmt.Fprintf(&b, "(* KV.Mutate: json.Unmarshal(bs, %s) in the closure handed to the backend *)\n", target)
	fmt.Fprintf(&b, "Definition gen_wrapper_target : string := %s.\n", coqStr(target))
	fmt.Fprintf(&b, "Definition gen_wrapper_target_fresh : bool := %v.\n", fresh)
	return b.String(), nil
}
