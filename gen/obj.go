package main

// Translator for C18: objects/{fs,mem,mapped,tmp_file}.go and
// hashutil/{hash,check_reader}.go  ->  coq/theories/Gen/ObjSkel.v.
//
// What is extracted:
//   - the statement skeleton of fsObjects.Create and fsObjects.commit as a
//     list of Obj.Store.sk constructors, in source order (each recognised
//     statement group becomes one constructor, anything else SkUnknown "<text>");
//   - isValidKey's length constant and character ranges;
//   - whether mem.Put stores a copy and mem.Get returns a copy;
//   - whether each Create (fs, mem, mapped) uses its io.Reader parameter only
//     as the argument of io.TeeReader / io.ReadAll / io.Copy (no Seek, no
//     type assertion: consumed from where it stands);
//   - createTemp's shape: the source of the staging file's name, its number
//     of random bytes, and that the file is created in the directory given;
//   - the normalised statement texts of the remaining small functions
//     (NewFS/Open/Has/hasFile/newFSObjects/notFound, mem and mapped methods,
//     Hash/HashStr/HashReader/HashFile, CheckReader constructors and Read), which
//     Obj/ObjGen.v compares with the texts the hand-written model was
//     written against.

import (
	"fmt"
	"go/ast"
	"go/token"
	"path/filepath"
	"strconv"
	"strings"
)

func init() { register("ObjSkel", genObj) }

// bodyTexts returns the whitespace-normalised source of each top-level
// statement of a function body.
func (p *pkg) bodyTexts(fd *ast.FuncDecl) []string {
	if fd == nil || fd.Body == nil {
		return []string{"<missing function>"}
	}
	var out []string
	for _, st := range fd.Body.List {
		out = append(out, p.src(st))
	}
	return out
}

func coqStrList(ss []string) string {
	var items []string
	for _, s := range ss {
		items = append(items, coqStr(s))
	}
	return coqList(items)
}

type skRule struct {
	texts []string // consecutive normalised statements
	sk    string
}

// matchSkeleton turns a statement list into skeleton constructors using the
// rules (longest rule first at each position); silent[...] statements are
// pure local computations that the model does not represent.
func matchSkeleton(texts []string, rules []skRule, silent map[string]bool) []string {
	var out []string
	i := 0
	for i < len(texts) {
		matched := false
		for _, r := range rules {
			if i+len(r.texts) > len(texts) {
				continue
			}
			ok := true
			for j, t := range r.texts {
				if texts[i+j] != t {
					ok = false
					break
				}
			}
			if ok {
				out = append(out, r.sk)
				i += len(r.texts)
				matched = true
				break
			}
		}
		if matched {
			continue
		}
		if silent[texts[i]] {
			i++
			continue
		}
		out = append(out, "SkUnknown "+coqStr(texts[i]))
		i++
	}
	return out
}

var fsCreateRules = []skRule{
	{[]string{`f, err := createTemp(b.tmpDir)`, `if err != nil { return "", err }`}, "SkCreateTemp"},
	{[]string{`defer func() { if f != nil { f.Close() os.Remove(f.Name()) } }()`}, "SkDeferCleanup"},
	{[]string{`tee := io.TeeReader(r, f)`, `k, err := hashutil.HashReader(tee)`, `if err != nil { return "", err }`}, "SkTeeHash"},
	{[]string{`if err := f.Close(); err != nil { return "", err }`}, "SkCloseTemp"},
	{[]string{`if !isValidKey(k) { panic(fmt.Sprintf("invalid key generated: %s", k)) }`}, "SkCheckKey"},
	{[]string{`if err := b.commit(k, f); err != nil { return "", err }`}, "SkCommit"},
	{[]string{`f = nil`}, "SkDisarm"},
	{[]string{`return k, nil`}, "SkReturnKey"},
}

var fsCommitRules = []skRule{
	{[]string{`b.mu.Lock()`}, "CkLock"},
	{[]string{`defer b.mu.Unlock()`}, "CkDeferUnlock"},
	{[]string{`has, err := hasFile(target)`, `if err != nil { return err }`}, "CkStat"},
	{[]string{`if has { return os.Remove(f.Name()) }`, `return os.Rename(f.Name(), target)`}, "CkRemoveOrRename"},
}

var fsCommitSilent = map[string]bool{`target := b.filename(k)`: true}

// validKeyShape reads `len(k) != N` and the `r >= lo && r <= hi { continue }`
// ranges out of isValidKey. ok is false when the function has any other shape.
func (p *pkg) validKeyShape() (klen string, ranges []string, ok bool) {
	fd := p.funcDecl("", "isValidKey")
	if fd == nil || fd.Body == nil || len(fd.Body.List) != 3 {
		return "0", nil, false
	}
	// 1: if len(k) != N { return false }
	if1, is := fd.Body.List[0].(*ast.IfStmt)
	if !is || if1.Init != nil || if1.Else != nil || p.src(if1.Body) != "{ return false }" {
		return "0", nil, false
	}
	be, is := if1.Cond.(*ast.BinaryExpr)
	if !is || be.Op != token.NEQ || p.src(be.X) != "len(k)" {
		return "0", nil, false
	}
	lit, is := be.Y.(*ast.BasicLit)
	if !is || lit.Kind != token.INT {
		return "0", nil, false
	}
	klen = lit.Value
	// 2: for _, r := range k { if r >= 'a' && r <= 'z' { continue } ... return false }
	rs, is := fd.Body.List[1].(*ast.RangeStmt)
	if !is || p.src(rs.X) != "k" || rs.Value == nil || len(rs.Body.List) < 1 {
		return klen, nil, false
	}
	rv := p.src(rs.Value)
	n := len(rs.Body.List)
	if p.src(rs.Body.List[n-1]) != "return false" {
		return klen, nil, false
	}
	for _, st := range rs.Body.List[:n-1] {
		ifs, is := st.(*ast.IfStmt)
		if !is || ifs.Init != nil || ifs.Else != nil || p.src(ifs.Body) != "{ continue }" {
			return klen, nil, false
		}
		and, is := ifs.Cond.(*ast.BinaryExpr)
		if !is || and.Op != token.LAND {
			return klen, nil, false
		}
		lo, is1 := and.X.(*ast.BinaryExpr)
		hi, is2 := and.Y.(*ast.BinaryExpr)
		if !is1 || !is2 || lo.Op != token.GEQ || hi.Op != token.LEQ || p.src(lo.X) != rv || p.src(hi.X) != rv {
			return klen, nil, false
		}
		lov, ok1 := charLit(lo.Y)
		hiv, ok2 := charLit(hi.Y)
		if !ok1 || !ok2 {
			return klen, nil, false
		}
		ranges = append(ranges, fmt.Sprintf("(%d%%N, %d%%N)", lov, hiv))
	}
	// 3: return true
	if p.src(fd.Body.List[2]) != "return true" {
		return klen, ranges, false
	}
	return klen, ranges, true
}

func charLit(e ast.Expr) (int, bool) {
	lit, is := e.(*ast.BasicLit)
	if !is || lit.Kind != token.CHAR {
		return 0, false
	}
	s, err := strconv.Unquote(lit.Value)
	if err != nil || len([]rune(s)) != 1 {
		return 0, false
	}
	return int([]rune(s)[0]), true
}

// memGetCopies: does mem.Get return a fresh copy of the stored slice?
// Recognised shape: bs, found := m.blobs[h] ... cp := make([]byte, len(bs));
// copy(cp, bs); return cp, nil.  `return bs, nil` (the stored slice) -> false.
func memCopies(texts []string, src, ret string) bool {
	mk, cp, rt := false, false, false
	for _, t := range texts {
		switch t {
		case "cp := make([]byte, len(" + src + "))":
			mk = true
		case "copy(cp, " + src + ")":
			cp = mk
		case ret:
			rt = cp
		}
	}
	return rt
}

// readerUsedSequentially: the io.Reader parameter of a Create method is only
// ever handed, as it is, to io.TeeReader / io.ReadAll / io.Copy - no type
// assertion or type switch on it, no method called on it (Seek!), not stored,
// not wrapped by anything else: the call can only consume it from where it
// stands to its end.
func readerUsedSequentially(p *pkg, fd *ast.FuncDecl) bool {
	if fd == nil || fd.Body == nil {
		return false
	}
	param := ""
	for _, f := range fd.Type.Params.List {
		if p.src(f.Type) == "io.Reader" && len(f.Names) == 1 {
			param = f.Names[0].Name
		}
	}
	if param == "" {
		return false
	}
	allowed := map[*ast.Ident]bool{}
	ast.Inspect(fd.Body, func(x ast.Node) bool {
		if c, ok := x.(*ast.CallExpr); ok {
			switch callName(p, c) {
			case "io.TeeReader", "io.ReadAll":
				if len(c.Args) >= 1 {
					if id, ok := c.Args[0].(*ast.Ident); ok && id.Name == param {
						allowed[id] = true
					}
				}
			case "io.Copy":
				if len(c.Args) == 2 {
					if id, ok := c.Args[1].(*ast.Ident); ok && id.Name == param {
						allowed[id] = true
					}
				}
			}
		}
		return true
	})
	ok := len(allowed) == 1
	ast.Inspect(fd.Body, func(x ast.Node) bool {
		if id, is := x.(*ast.Ident); is && id.Name == param && !allowed[id] {
			ok = false
		}
		return true
	})
	return ok
}

// readerOrigin: what the tee / copy of a Create method is fed with: "param r"
// when it is the io.Reader parameter itself, otherwise the expression.
func readerOrigin(p *pkg, fd *ast.FuncDecl) string {
	if fd == nil || fd.Body == nil {
		return "MISSING"
	}
	param := ""
	for _, f := range fd.Type.Params.List {
		if p.src(f.Type) == "io.Reader" && len(f.Names) == 1 {
			param = f.Names[0].Name
		}
	}
	out := "MISSING"
	ast.Inspect(fd.Body, func(x ast.Node) bool {
		c, ok := x.(*ast.CallExpr)
		if !ok || out != "MISSING" {
			return true
		}
		var arg ast.Expr
		switch callName(p, c) {
		case "io.TeeReader", "io.ReadAll":
			if len(c.Args) >= 1 {
				arg = c.Args[0]
			}
		case "io.Copy":
			if len(c.Args) == 2 {
				arg = c.Args[1]
			}
		}
		if arg != nil {
			if id, ok := arg.(*ast.Ident); ok && id.Name == param {
				out = "param " + param
			} else {
				out = "expr " + p.src(arg)
			}
		}
		return true
	})
	return out
}

func coqBool(b bool) string {
	if b {
		return "true"
	}
	return "false"
}

func coqBytesOfString(s string) string {
	var items []string
	for _, c := range []byte(s) {
		items = append(items, fmt.Sprintf("%d%%N", c))
	}
	return "[" + strings.Join(items, "; ") + "]"
}

func genObj(repo string) (string, error) {
	po, err := loadPkg(filepath.Join(repo, "objects"))
	if err != nil {
		return "", err
	}
	ph, err := loadPkg(filepath.Join(repo, "hashutil"))
	if err != nil {
		return "", err
	}
	var b strings.Builder
	b.WriteString("(* GENERATED by /verif/gen from /repo/objects and /repo/hashutil on every run. Do not edit. *)\n")
	b.WriteString("From Coq Require Import List NArith ZArith String.\nFrom Verif Require Import Obj.Store.\nImport ListNotations.\nLocal Open Scope string_scope.\n\n")

	create := matchSkeleton(po.bodyTexts(po.funcDecl("fsObjects", "Create")), fsCreateRules, nil)
	commit := matchSkeleton(po.bodyTexts(po.funcDecl("fsObjects", "commit")), fsCommitRules, fsCommitSilent)
	fmt.Fprintf(&b, "Definition gen_fs_create : list sk :=\n  %s.\n\n", coqList(create))
	fmt.Fprintf(&b, "Definition gen_fs_commit : list sk :=\n  %s.\n\n", coqList(commit))

	klen, ranges, ok := po.validKeyShape()
	fmt.Fprintf(&b, "Definition gen_key_shape_ok : bool := %s.\n", coqBool(ok))
	fmt.Fprintf(&b, "Definition gen_key_len : N := %s%%N.\n", klen)
	fmt.Fprintf(&b, "Definition gen_key_ranges : list (N * N) :=\n  %s.\n\n", coqList(ranges))

	// name of the staging directory inside the store directory
	tmpName := "<unrecognised>"
	for _, t := range po.bodyTexts(po.funcDecl("", "newFSObjects")) {
		const pre = `tmpDir := filepath.Join(dir, "`
		if strings.HasPrefix(t, pre) && strings.HasSuffix(t, `")`) {
			tmpName = t[len(pre) : len(t)-2]
		}
	}
	fmt.Fprintf(&b, "Definition gen_tmp_dir_name : list N := %s.\n\n", coqBytesOfString(tmpName))

	// createTemp: where the name of a staging file comes from, how many random
	// bytes it has, and that the file is created inside the directory given
	tmpSrc, tmpBytes, tmpInDir := "<unrecognised>", "0", false
	if fd := po.funcDecl("", "createTemp"); fd != nil && fd.Body != nil && len(fd.Body.List) == 2 &&
		len(fd.Type.Params.List) == 1 && len(fd.Type.Params.List[0].Names) == 1 {
		dirParam := fd.Type.Params.List[0].Names[0].Name
		if as, is := fd.Body.List[0].(*ast.AssignStmt); is && as.Tok == token.DEFINE && len(as.Lhs) == 1 && len(as.Rhs) == 1 {
			if call, is := as.Rhs[0].(*ast.CallExpr); is && len(call.Args) == 1 {
				if lit, is := call.Args[0].(*ast.BasicLit); is && lit.Kind == token.INT {
					tmpSrc, tmpBytes = po.src(call.Fun), lit.Value
				}
			}
			want := "return os.Create(filepath.Join(" + dirParam + ", " + po.src(as.Lhs[0]) + "))"
			tmpInDir = po.src(fd.Body.List[1]) == want
		}
	}
	fmt.Fprintf(&b, "Definition gen_tmp_name_src : string := %s.\n", coqStr(tmpSrc))
	fmt.Fprintf(&b, "Definition gen_tmp_name_bytes : N := %s%%N.\n", tmpBytes)
	fmt.Fprintf(&b, "Definition gen_tmp_in_dir : bool := %s.\n\n", coqBool(tmpInDir))

	fmt.Fprintf(&b, "Definition gen_create_uses_reader_sequentially : list bool :=\n  [ %s; %s; %s ].\n\n",
		coqBool(readerUsedSequentially(po, po.funcDecl("fsObjects", "Create"))),
		coqBool(readerUsedSequentially(po, po.funcDecl("mem", "Create"))),
		coqBool(readerUsedSequentially(po, po.funcDecl("mappedStore", "Create"))))

	fmt.Fprintf(&b, "Definition gen_create_reader_origin : list string :=\n  [ %s; %s; %s ].\n\n",
		coqStr(readerOrigin(po, po.funcDecl("fsObjects", "Create"))),
		coqStr(readerOrigin(po, po.funcDecl("mem", "Create"))),
		coqStr(readerOrigin(po, po.funcDecl("mappedStore", "Create"))))

	putTexts := po.bodyTexts(po.funcDecl("mem", "Put"))
	getTexts := po.bodyTexts(po.funcDecl("mem", "Get"))
	fmt.Fprintf(&b, "Definition gen_mem_put_copies : bool := %s.\n", coqBool(memCopies(putTexts, "bs", "return m.put(cp)")))
	fmt.Fprintf(&b, "Definition gen_mem_get_copies : bool := %s.\n\n", coqBool(memCopies(getTexts, "bs", "return cp, nil")))

	texts := []struct {
		name string
		p    *pkg
		recv string
		fn   string
	}{
		{"gen_fs_Open", po, "fsObjects", "Open"},
		{"gen_fs_open", po, "fsObjects", "open"},
		{"gen_fs_Has", po, "fsObjects", "Has"},
		{"gen_fs_filename", po, "fsObjects", "filename"},
		{"gen_hasFile", po, "", "hasFile"},
		{"gen_newFSObjects", po, "", "newFSObjects"},
		{"gen_mem_Open", po, "mem", "Open"},
		{"gen_mem_Create", po, "mem", "Create"},
		{"gen_mem_Put", po, "mem", "Put"},
		{"gen_mem_put", po, "mem", "put"},
		{"gen_mem_Get", po, "mem", "Get"},
		{"gen_mem_Has", po, "mem", "Has"},
		{"gen_mapped_Open", po, "mappedStore", "Open"},
		{"gen_mapped_Create", po, "mappedStore", "Create"},
		{"gen_mapped_Has", po, "mappedStore", "Has"},
		{"gen_NewMapped", po, "", "NewMapped"},
		{"gen_NewPsql", po, "", "NewPsql"},
		{"gen_ReadJSON", po, "", "ReadJSON"},
		{"gen_CreateJSON", po, "", "CreateJSON"},
		{"gen_NewFS", po, "", "NewFS"},
		{"gen_notFound", po, "", "notFound"},
		{"gen_Hash", ph, "", "Hash"},
		{"gen_HashReader", ph, "", "HashReader"},
		{"gen_HashStr", ph, "", "HashStr"},
		{"gen_HashFile", ph, "", "HashFile"},
		{"gen_NewCheckReader", ph, "", "NewCheckReader"},
		{"gen_NewSHA256CheckReader", ph, "", "NewSHA256CheckReader"},
		{"gen_CheckReader_Read", ph, "CheckReader", "Read"},
	}
	for _, t := range texts {
		fmt.Fprintf(&b, "Definition %s : list string :=\n  %s.\n\n", t.name, coqStrList(t.p.bodyTexts(t.p.funcDecl(t.recv, t.fn))))
	}
	return b.String(), nil
}
