package main

// The lifetime of a walk's result set (Gen/KvRows.v, used by Kv/Rows.v /
// Kv/KvGen.v): for each walk* method of the SQL backends whether it defers
// rows.Close() between the query and the iteration, and the statement
// skeleton of sqlIterRows.

import (
	"fmt"
	"go/ast"
	"path/filepath"
	"strings"
)

func init() { register("KvRows", genKvRows) }

var walkMethods = []string{"walk", "walkClass", "walkPartial", "walkPartialClass"}

// walkDefers: true iff the method's top-level statements contain
// `defer rows.Close()` before the call of sqlIterRows.
func walkDefers(p *pkg, typ, name string) (bool, string) {
	fd := p.funcDecl(typ, name)
	if fd == nil || fd.Body == nil {
		return false, "method not found"
	}
	deferred := false
	for _, st := range fd.Body.List {
		src := p.src(st)
		if d, ok := st.(*ast.DeferStmt); ok {
			if p.src(d.Call) == "rows.Close()" {
				deferred = true
			}
			continue
		}
		if strings.Contains(src, "sqlIterRows(") {
			return deferred, ""
		}
	}
	return false, "no call of sqlIterRows"
}

func iterRowsSkel(p *pkg) []string {
	fd := p.funcDecl("", "sqlIterRows")
	if fd == nil || fd.Body == nil {
		return []string{`RUnknown "sqlIterRows not found"`}
	}
	unknown := func(n ast.Node) string { return "RUnknown " + coqStr(p.src(n)) }
	var out []string
	errRet := func(st ast.Stmt, call string) bool {
		// if err := <call>(...); err != nil { return err }
		s, ok := st.(*ast.IfStmt)
		if !ok || s.Init == nil || s.Else != nil || p.src(s.Cond) != "err != nil" ||
			len(s.Body.List) != 1 || p.src(s.Body.List[0]) != "return err" {
			return false
		}
		return strings.HasPrefix(p.src(s.Init), "err := "+call+"(")
	}
	for _, st := range fd.Body.List {
		switch s := st.(type) {
		case *ast.DeferStmt:
			if p.src(s.Call) == "rows.Close()" {
				out = append(out, "RDeferClose")
			} else {
				out = append(out, unknown(st))
			}
		case *ast.ForStmt:
			if s.Init != nil || s.Post != nil || s.Cond == nil || p.src(s.Cond) != "rows.Next()" {
				out = append(out, unknown(st))
				continue
			}
			out = append(out, "RNext")
			for _, b := range s.Body.List {
				switch {
				case isVarDecl(b):
				case errRet(b, "rows.Scan"):
					out = append(out, "RScanRetErr")
				case errRet(b, "f"):
					out = append(out, "RCallRetErr")
				default:
					out = append(out, unknown(b))
				}
			}
			out = append(out, "RLoopEnd")
		case *ast.ReturnStmt:
			if len(s.Results) == 1 && p.src(s.Results[0]) == "rows.Close()" {
				out = append(out, "RReturnClose")
			} else {
				out = append(out, unknown(st))
			}
		default:
			out = append(out, unknown(st))
		}
	}
	return out
}

func isVarDecl(st ast.Stmt) bool {
	_, ok := st.(*ast.DeclStmt)
	return ok
}

func genKvRows(repo string) (string, error) {
	p, err := loadPkg(filepath.Join(repo, "pisces"))
	if err != nil {
		return "", err
	}
	var b strings.Builder
	b.WriteString("(* generated from pisces/sqlite3_kv.go, pisces/psql_kv.go, pisces/sql_util.go; do not edit *)\n")
	b.WriteString("From Coq Require Import List String.\nFrom Verif Require Import Kv.Rows.\nImport ListNotations.\nLocal Open Scope string_scope.\n\n")
	for _, be := range []struct{ name, typ string }{{"sqlite", "sqlite3KV"}, {"psql", "psqlKV"}} {
		var rows []string
		for _, m := range walkMethods {
			d, why := walkDefers(p, be.typ, m)
			if why != "" {
				// not the shape the model knows: counts as "does not defer"
				rows = append(rows, fmt.Sprintf("(%s, false) (* %s *)", coqStr(m), why))
				continue
			}
			rows = append(rows, fmt.Sprintf("(%s, %v)", coqStr(m), d))
		}
		fmt.Fprintf(&b, "Definition gen_%s_walk_defer : list (string * bool) :=\n  %s.\n\n", be.name, coqList(rows))
	}
	fmt.Fprintf(&b, "Definition gen_iter_rows_skel : list ract :=\n  [%s].\n", strings.Join(iterRowsSkel(p), "; "))
	return b.String(), nil
}
