package main

// gotrans, part 2: state machines.  Loops that are not ranges (for {}, for c {},
// for i := a; i < b; i++ {}) become recursion on explicit fuel, lifted into a
// Fixpoint of its own (gen_<f>_loop<k>) so that refinement lemmas can speak
// about the loop; results are then in the three-valued go_res (GoOk / GoPanic
// "why" / GoOutOfFuel).  Abstract objects (a lexer over the remaining runes,
// an io.Reader / io.Writer over a script of chunks) are state that the
// definition takes and returns; calls of other translated functions thread
// that state and the receiver's assigned fields (monadic bind in go_res).

import (
	"fmt"
	"go/ast"
	"go/constant"
	"go/token"
	"path/filepath"
	"strings"
)

// ---------------------------------------------------------------- modes

const (
	modePlain = iota
	modeOption
	modeRes
)

func (t *tr) mode() int {
	if t.cfg.res {
		return modeRes
	}
	if t.cfg.checked {
		return modeOption
	}
	return modePlain
}

func (t *tr) okWrap(r string) string {
	switch t.mode() {
	case modeRes:
		return "GoOk " + parenIf(r)
	case modeOption:
		return "Some " + parenIf(r)
	}
	return r
}

func parenIf(r string) string {
	if strings.ContainsAny(r, " \n") && !(strings.HasPrefix(r, "(") && balancedOuter(r)) {
		return "(" + r + ")"
	}
	return r
}

func balancedOuter(r string) bool {
	d := 0
	for i, c := range r {
		switch c {
		case '(':
			d++
		case ')':
			d--
			if d == 0 && i != len(r)-1 {
				return false
			}
		}
	}
	return d == 0
}

func (t *tr) panicVal(why string) string {
	switch t.mode() {
	case modeRes:
		return "GoPanic " + coqStr(why) + " (* panic *)"
	case modeOption:
		return "None (* panic *)"
	}
	t.fail(nil, "a panic site ("+why+") needs the checked or res mode")
	return "GoUnknown"
}

// ---------------------------------------------------------------- objects

// An abstract object is a parameter (or a field of the receiver) whose Go
// type is not translated; the definition takes and returns its state instead.
//
//	lexer:  *lexing.Lexer   — in: the runes not yet consumed (head = x.Rune(),
//	        [] = x.Ended()), buf: the scanning buffer, errs: the errors reported
//	        through x.Errorf / x.CodeErrorf (before ErrorList's cap)
//	reader: io.Reader       — rd: the script of what the reader will do (Lib/GoLib.v go_reader)
//	writer: io.Writer       — wr: what was written and what the writer will answer
type objState struct{ suffix, typ string }

var objKinds = map[string][]objState{
	"lexer":  {{"in", "[]rune"}, {"buf", "[]rune"}, {"errs", "[]goerr"}},
	"reader": {{"rd", "reader"}},
	"writer": {{"wr", "writer"}},
}

func objSrc(obj, suffix string) string { return obj + ".#" + suffix }

func (t *tr) objVar(obj, suffix string) *lvar {
	v := t.lookup(objSrc(obj, suffix))
	if v == nil {
		t.fail(nil, "object state "+objSrc(obj, suffix)+" is not in scope")
		return &lvar{coq: "GoUnknown", typ: "?"}
	}
	return v
}

func (t *tr) rebind(src, val string) string {
	v := t.lookup(src)
	if v == nil {
		t.fail(nil, "state "+src+" is not in scope")
		return ""
	}
	return "let " + v.coq + " := " + val + " in\n"
}

// objExprCall: methods of an object that only read its state.
func (t *tr) objExprCall(c *ast.CallExpr, obj, kind, m string) (string, string, bool) {
	switch kind {
	case "lexer":
		in := t.objVar(obj, "in").coq
		switch m {
		case "Rune":
			if len(c.Args) == 0 {
				return "(lexer_Rune " + in + ")", "int32", true
			}
		case "Ended":
			if len(c.Args) == 0 {
				return "(lexer_Ended " + in + ")", tBool, true
			}
		case "See":
			if len(c.Args) == 1 {
				return "(lexer_Rune " + in + " =? " + t.exprAs(c.Args[0], "int32") + ")", tBool, true
			}
		case "Buffered":
			if len(c.Args) == 0 {
				return "(lexer_Buffered " + t.objVar(obj, "buf").coq + ")", tStr, true
			}
		case "MakeToken":
			if len(c.Args) == 1 {
				ty := t.exprAs(c.Args[0], "int")
				buf := t.objVar(obj, "buf")
				t.pending = append(t.pending, "let "+buf.coq+" := [] in\n")
				return "(" + ty + ", " + buf.coq + ")", "token", true
			}
		}
	}
	return "", "", false
}

// objStmtCall: methods of an object used as a statement (result ignored).
// Returns the code up to and including the continuation.
func (t *tr) objStmtCall(c *ast.CallExpr, obj, kind, m string, rest func() string) (string, bool) {
	switch kind {
	case "lexer":
		in, buf, errs := t.objVar(obj, "in"), t.objVar(obj, "buf"), t.objVar(obj, "errs")
		switch m {
		case "Next":
			if len(c.Args) != 0 {
				return "", false
			}
			code := "let " + buf.coq + " := (" + buf.coq + " ++ [lexer_Rune " + in.coq + "]) in\n" +
				"let " + in.coq + " := (tl " + in.coq + ") in\n" + rest()
			return "if (lexer_Ended " + in.coq + ")\nthen " + t.panicVal("scanning on closed rune scanner") + "\nelse " + indent(code), true
		case "Errorf", "CodeErrorf":
			i := 0
			code := "\"\""
			if m == "CodeErrorf" {
				if len(c.Args) < 2 {
					return "", false
				}
				cc := t.constOf(c.Args[0])
				if cc == nil {
					t.fail(c, "error code is not a constant")
					return "GoUnknown", true
				}
				code = coqStr(constStr(*cc))
				i = 1
			}
			if len(c.Args) <= i {
				return "", false
			}
			mm := t.constOf(c.Args[i])
			if mm == nil {
				t.fail(c, "error message is not a constant")
				return "GoUnknown", true
			}
			for _, a := range c.Args[i+1:] {
				t.expr(a)
			}
			gs := t.takeGuards()
			return wrapG(gs, "let "+errs.coq+" := ("+errs.coq+" ++ [GoErr "+code+" "+coqStr(constStr(*mm))+"]) in\n"+rest()), true
		}
	}
	return "", false
}

func constStr(c cval) string {
	if c.v.Kind() == constant.String {
		return constant.StringVal(c.v)
	}
	return c.v.ExactString()
}

// unwrapConv: string(e) / []byte(e) around a call.
func unwrapConv(e ast.Expr) ast.Expr {
	if c, ok := e.(*ast.CallExpr); ok && len(c.Args) == 1 {
		if id, ok := c.Fun.(*ast.Ident); ok && id.Name == "string" {
			return c.Args[0]
		}
		if _, ok := c.Fun.(*ast.ArrayType); ok {
			return c.Args[0]
		}
	}
	return e
}

// returnCall: return f(...) where f returns state: bind, then return.
func (t *tr) returnCall(x *ast.ReturnStmt, c *ast.CallExpr, fi *funcInfo, recvSrc string) string {
	resT := splitTuple(fi.res)
	if fi.res == "" {
		resT = nil
	}
	n := len(resT) - len(fi.states)
	t.push()
	defer t.pop()
	var lhs, ids []ast.Expr
	for i := 0; i < n; i++ {
		id := ast.NewIdent(fmt.Sprintf("ret%d", i+1))
		lhs = append(lhs, id)
		ids = append(ids, id)
	}
	return t.bindCall(c, fi, recvSrc, lhs, true, func() string {
		for i, id := range ids {
			// string(f()) / []byte(f()): same representation
			if v := t.lookup(id.(*ast.Ident).Name); v != nil && i < len(t.res) && coqType(v.typ) == coqType(t.res[i]) {
				v.typ = t.res[i]
			}
		}
		r := t.ret(&ast.ReturnStmt{Results: ids})
		return wrapG(t.takeGuards(), r)
	})
}

// isPkgErrVar: a package-level `var errX = errors.New("...")`.
func (t *tr) isPkgErrVar(name string) bool {
	for _, fn := range t.p.sortedFiles() {
		for _, d := range t.p.files[fn].Decls {
			gd, ok := d.(*ast.GenDecl)
			if !ok || gd.Tok != token.VAR {
				continue
			}
			for _, sp := range gd.Specs {
				vs := sp.(*ast.ValueSpec)
				for i, n := range vs.Names {
					if n.Name != name || i >= len(vs.Values) {
						continue
					}
					if c, ok := vs.Values[i].(*ast.CallExpr); ok {
						src := t.p.src(c.Fun)
						return src == "errors.New" || src == "fmt.Errorf"
					}
				}
			}
		}
	}
	return false
}

// bindName: the Coq name an assignment target gets (declaring it if asked).
func (t *tr) bindName(n ast.Node, e ast.Expr, typ string, define bool) string {
	id, ok := e.(*ast.Ident)
	name := ""
	if ok {
		name = id.Name
	} else if src := t.p.src(e); t.isState(src) {
		name = src
	} else {
		t.fail(n, "assignment target")
		return "GoUnknown"
	}
	if name == "_" {
		return "_"
	}
	if define {
		if _, here := t.scopes[len(t.scopes)-1][name]; !here {
			return t.declare(name, typ)
		}
	}
	v := t.lookup(name)
	if v == nil {
		t.fail(n, "assignment to an unknown variable")
		return "GoUnknown"
	}
	return v.coq
}

// readerEffect: n, err := io.ReadFull(r, buf) / r.Read(buf) / io.ReadAll(r) /
// io.CopyN(&bb, r, n) over an abstract reader.
func (t *tr) readerEffect(c *ast.CallExpr, lhs []ast.Expr, define bool, rest func() string) (string, bool) {
	if len(lhs) != 2 {
		return "", false
	}
	fsrc := t.p.src(c.Fun)
	sel, _ := c.Fun.(*ast.SelectorExpr)
	var robj string
	kind := ""
	switch {
	case fsrc == "io.ReadFull" && len(c.Args) == 2:
		kind = "full"
	case fsrc == "io.ReadAll" && len(c.Args) == 1:
		kind = "all"
	case fsrc == "io.CopyN" && len(c.Args) == 3:
		kind = "copyn"
	case sel != nil && sel.Sel.Name == "Read" && len(c.Args) == 1:
		if o, k, ok := t.objectOf(sel.X); ok && k == "reader" {
			kind, robj = "read", o
		}
	}
	if kind == "" {
		return "", false
	}
	if robj == "" {
		ai := 0
		if kind == "copyn" {
			ai = 1
		}
		o, k, ok := t.objectOf(c.Args[ai])
		if !ok || k != "reader" {
			return "", false
		}
		robj = o
	}
	rd := t.objVar(robj, "rd")
	got := t.fresh("got")
	var code string
	switch kind {
	case "full", "read":
		bi := 0
		if kind == "full" {
			bi = 1
		}
		barg := c.Args[bi]
		if se, ok := barg.(*ast.SliceExpr); ok && se.Low == nil && se.High == nil {
			barg = se.X
		}
		bid, ok := barg.(*ast.Ident)
		bv := (*lvar)(nil)
		if ok {
			bv = t.lookup(bid.Name)
		}
		if bv == nil || bv.typ != tBytes {
			t.fail(c, "the buffer of a read must be a []byte variable")
			return "GoUnknown", true
		}
		fn := "io_ReadFull " + rd.coq + " (go_len " + bv.coq + ")"
		if kind == "read" {
			fn = "rd_read (Z.to_nat (go_len " + bv.coq + ")) " + rd.coq
		}
		errN := t.fresh("rerr")
		code = "let '(" + got + ", " + errN + ", " + rd.coq + ") := " + fn + " in\n" +
			"let " + bv.coq + " := (go_fill_buf " + bv.coq + " " + got + ") in\n"
		nN := t.bindName(c, lhs[0], "int", define)
		eN := t.bindName(c, lhs[1], tErr, define)
		code += "let " + nN + " := (go_len " + got + ") in\nlet " + eN + " := " + errN + " in\n"
	case "all":
		errN := t.fresh("rerr")
		bN := t.bindName(c, lhs[0], tBytes, define)
		eN := t.bindName(c, lhs[1], tErr, define)
		code = "let '(" + bN + ", " + errN + ", " + rd.coq + ") := io_ReadAll " + rd.coq + " in\nlet " + eN + " := " + errN + " in\n"
	case "copyn":
		ue, ok := c.Args[0].(*ast.UnaryExpr)
		var bb *lvar
		if ok && ue.Op == token.AND {
			if id, ok := ue.X.(*ast.Ident); ok {
				bb = t.lookup(id.Name)
			}
		}
		if bb == nil || bb.typ != "buffer" {
			t.fail(c, "io.CopyN into something else than a local bytes.Buffer")
			return "GoUnknown", true
		}
		n := t.exprAs(c.Args[2], "int64")
		errN := t.fresh("rerr")
		code = "let '(" + got + ", " + errN + ", " + rd.coq + ") := io_CopyN " + rd.coq + " " + n + " in\n" +
			"let " + bb.coq + " := (" + bb.coq + " ++ " + got + ") in\n"
		mN := t.bindName(c, lhs[0], "int64", define)
		eN := t.bindName(c, lhs[1], tErr, define)
		code += "let " + mN + " := (go_len " + got + ") in\nlet " + eN + " := " + errN + " in\n"
	}
	gs := t.takeGuards()
	return wrapG(gs, code+rest()), true
}

// fieldOfLit: the value given to field cfg.retField in &T{...} / T{...}.
func (t *tr) fieldOfLit(e ast.Expr) ast.Expr {
	if u, ok := e.(*ast.UnaryExpr); ok && u.Op == token.AND {
		e = u.X
	}
	cl, ok := e.(*ast.CompositeLit)
	if !ok {
		t.fail(e, "return of something else than a struct literal")
		return e
	}
	for _, el := range cl.Elts {
		if kv, ok := el.(*ast.KeyValueExpr); ok && isIdent(kv.Key, t.cfg.retField) {
			return kv.Value
		}
	}
	t.fail(e, "field "+t.cfg.retField+" is not set in the returned literal")
	return e
}

// libEffect: library procedures on abstract readers / writers (filled in below).
func (t *tr) libEffect(c *ast.CallExpr, lhs []ast.Expr, define bool, rest func() string) (string, bool) {
	if code, ok := t.readerEffect(c, lhs, define, rest); ok {
		return code, true
	}
	// n, err := w.Write(bs) on an abstract writer
	if sel, ok := c.Fun.(*ast.SelectorExpr); ok && sel.Sel.Name == "Write" && len(c.Args) == 1 && len(lhs) == 2 {
		if obj, kind, ok := t.objectOf(sel.X); ok && kind == "writer" {
			wr := t.objVar(obj, "wr")
			bs := t.exprAs(c.Args[0], tBytes)
			gs := t.takeGuards()
			nN := t.bindName(c, lhs[0], "int", define)
			eN := t.bindName(c, lhs[1], tErr, define)
			return wrapG(gs, "let '("+nN+", "+eN+", "+wr.coq+") := wr_write "+wr.coq+" "+bs+" in\n"+rest()), true
		}
	}
	// endian.PutUint64(buf[:], v) as a statement
	if lhs == nil && len(c.Args) == 2 {
		if key, ok := t.cfg.libAlias[t.p.src(c.Fun)]; ok && key == "encoding/binary.LittleEndian.PutUint64" {
			barg := c.Args[0]
			if se, ok := barg.(*ast.SliceExpr); ok && se.Low == nil && se.High == nil {
				barg = se.X
			}
			if id, ok := barg.(*ast.Ident); ok {
				if bv := t.lookup(id.Name); bv != nil && bv.typ == tBytes {
					v := t.exprAs(c.Args[1], "uint64")
					t.guard("(8 <=? go_len " + bv.coq + ")")
					gs := t.takeGuards()
					return wrapG(gs, "let "+bv.coq+" := (binary_LE_PutUint64 "+bv.coq+" "+v+") in\n"+rest()), true
				}
			}
			t.fail(c, "PutUint64 into something else than a []byte variable")
			return "GoUnknown", true
		}
	}
	sel, ok := c.Fun.(*ast.SelectorExpr)
	if !ok {
		return "", false
	}
	// r, _ := x.Next()
	if obj, kind, ok := t.objectOf(sel.X); ok && kind == "lexer" && sel.Sel.Name == "Next" && len(lhs) == 2 && isIdent(lhs[1], "_") {
		return t.objStmtCall(c, obj, kind, "Next", func() string {
			in := t.objVar(obj, "in")
			id, ok := lhs[0].(*ast.Ident)
			if !ok {
				t.fail(c, "assignment target")
				return "GoUnknown"
			}
			if id.Name == "_" {
				return rest()
			}
			var name string
			if _, here := t.scopes[len(t.scopes)-1][id.Name]; define && !here {
				name = t.declare(id.Name, "int32")
			} else if v := t.lookup(id.Name); v != nil {
				name = v.coq
			} else {
				t.fail(c, "assignment to an unknown variable")
				return "GoUnknown"
			}
			return "let " + name + " := (lexer_Rune " + in.coq + ") in\n" + rest()
		})
	}
	return "", false
}

// objectOf: is e (by source text) a declared abstract object?
func (t *tr) objectOf(e ast.Expr) (string, string, bool) {
	src := t.p.src(e)
	k, ok := t.objects[src]
	return src, k, ok
}

// ---------------------------------------------------------------- statements with effects

// exprStmt: a call used as a statement.
func (t *tr) exprStmt(x *ast.ExprStmt, rest func() string) string {
	c, ok := x.X.(*ast.CallExpr)
	if !ok {
		t.fail(x, "expression statement")
		return "GoUnknown"
	}
	// panic(...)
	if id, ok := c.Fun.(*ast.Ident); ok && id.Name == "panic" && t.lookup("panic") == nil && len(c.Args) == 1 {
		why := "panic"
		if m := t.constOf(c.Args[0]); m != nil {
			why = constStr(*m)
		} else {
			t.expr(c.Args[0])
		}
		return t.panicVal(why)
	}
	// hash-like accumulators (appendTo)
	if len(c.Args) == 1 && !c.Ellipsis.IsValid() {
		if st, ok := t.cfg.appendTo[t.p.src(c.Fun)]; ok && t.isState(st) {
			if v := t.lookup(st); v != nil && v.typ == tBytes {
				a := t.exprAs(c.Args[0], tBytes)
				gs := t.takeGuards()
				return wrapG(gs, "let "+v.coq+" := ("+v.coq+" ++ "+a+") in\n"+rest())
			}
		}
	}
	// methods of abstract objects
	if sel, ok := c.Fun.(*ast.SelectorExpr); ok {
		if obj, kind, ok := t.objectOf(sel.X); ok {
			if code, ok := t.objStmtCall(c, obj, kind, sel.Sel.Name, rest); ok {
				return code
			}
			if _, _, ok := t.objExprCall(c, obj, kind, sel.Sel.Name); ok {
				t.pending = nil
				t.fail(x, "result of a state-reading method is dropped")
				return "GoUnknown"
			}
		}
	}
	// library procedures on abstract objects (io.ReadFull, w.Write, ...)
	if code, ok := t.libEffect(c, nil, false, rest); ok {
		return code
	}
	// translated functions
	if fi, recvSrc := t.calleeOf(c); fi != nil {
		return t.bindCall(c, fi, recvSrc, nil, false, rest)
	}
	t.fail(x, "expression statement")
	return "GoUnknown"
}

// calleeOf: the translated function a call refers to (nil if none).
func (t *tr) calleeOf(c *ast.CallExpr) (*funcInfo, string) {
	fsrc := t.p.src(c.Fun)
	if key, ok := t.cfg.calls[fsrc]; ok {
		parts := strings.SplitN(key, "|", 3)
		fi := t.g.funcs[filepath.Join(t.g.repo, parts[0])+"|"+parts[1]+"|"+parts[2]]
		if fi == nil {
			return nil, ""
		}
		recv := ""
		if sel, ok := c.Fun.(*ast.SelectorExpr); ok {
			recv = t.p.src(sel.X)
		}
		return fi, recv
	}
	if id, ok := c.Fun.(*ast.Ident); ok && t.lookup(id.Name) == nil {
		if fi, ok := t.g.funcs[t.p.dir+"||"+id.Name]; ok {
			return fi, ""
		}
	}
	return nil, ""
}

// needsBind: the callee returns state or is not a plain value.
func needsBind(fi *funcInfo) bool { return fi.mode != modePlain || len(fi.states) > 0 }

// callerSrc maps a source name of the callee (a state or parameter source) to
// the caller's: parameters to the argument expressions, fields of the callee's
// receiver to fields of the caller's receiver expression, objects likewise.
func (t *tr) callerSrc(c *ast.CallExpr, fi *funcInfo, recvSrc, ps string) (string, bool) {
	base, suffix := ps, ""
	if i := strings.Index(ps, ".#"); i >= 0 {
		base, suffix = ps[:i], ps[i:]
	}
	for j, n := range fi.sigN {
		if n == base && j < len(c.Args) {
			a := c.Args[j]
			if se, ok := a.(*ast.SliceExpr); ok && se.Low == nil && se.High == nil && !se.Slice3 {
				a = se.X // buf[:] is buf
			}
			if ue, ok := a.(*ast.UnaryExpr); ok && ue.Op == token.AND {
				a = ue.X
			}
			return t.p.src(a) + suffix, true
		}
	}
	if fi.recv != "" && (base == fi.recv || strings.HasPrefix(base, fi.recv+".")) && recvSrc != "" {
		return recvSrc + strings.TrimPrefix(base, fi.recv) + suffix, true
	}
	return "", false
}

// callArgs: the Coq arguments of a call of a translated function.
func (t *tr) callArgs(c *ast.CallExpr, fi *funcInfo, recvSrc string) string {
	if c.Ellipsis.IsValid() || len(c.Args) != len(fi.sigN) {
		t.fail(c, "call arity")
		return ""
	}
	s := ""
	for i, ps := range fi.psrcs {
		found := false
		for j, n := range fi.sigN {
			if n == ps {
				s += " " + t.exprAs(c.Args[j], fi.params[i])
				found = true
			}
		}
		if found {
			continue
		}
		want, ok := t.callerSrc(c, fi, recvSrc, ps)
		if ok {
			if v := t.lookup(want); v != nil && (v.typ == fi.params[i] || fi.params[i] == "?") {
				s += " " + v.coq
				continue
			}
			if p2, ok := t.psrc[want]; ok && normT(p2.typ) == fi.params[i] {
				s += " " + p2.name
				continue
			}
			if p2, ok := t.pnil[want]; ok && fi.params[i] == tNilness {
				s += " " + p2.name
				continue
			}
		}
		t.fail(c, "callee parameter "+ps+" has no counterpart at the call")
	}
	return s
}

// bindCall: call a translated function that returns state (and/or may panic /
// run out of fuel), bind its results to lhs (nil: dropped) and thread the state.
func (t *tr) bindCall(c *ast.CallExpr, fi *funcInfo, recvSrc string, lhs []ast.Expr, define bool, rest func() string) string {
	if !fi.ok {
		t.fail(c, "call of a function that was not translated")
		return "GoUnknown"
	}
	if fi.mode == modeOption || (fi.mode == modeRes && t.mode() != modeRes) {
		t.fail(c, "call of a checked function from a function of another mode")
		return "GoUnknown"
	}
	args := t.callArgs(c, fi, recvSrc)
	gs := t.takeGuards()
	resT := splitTuple(fi.res)
	if fi.res == "" {
		resT = nil
	}
	nres := len(resT) - len(fi.states)
	var pat []string
	if lhs != nil && len(lhs) != nres {
		t.fail(c, "assignment arity")
		return "GoUnknown"
	}
	for i := 0; i < nres; i++ {
		if lhs == nil {
			pat = append(pat, "_")
			continue
		}
		id, ok := lhs[i].(*ast.Ident)
		name := ""
		if ok {
			name = id.Name
		} else if src := t.p.src(lhs[i]); t.isState(src) {
			name = src
		} else {
			t.fail(c, "assignment target")
			return "GoUnknown"
		}
		if name == "_" {
			pat = append(pat, "_")
			continue
		}
		if define {
			if _, here := t.scopes[len(t.scopes)-1][name]; !here {
				pat = append(pat, t.declare(name, defaultT(resT[i])))
				continue
			}
		}
		v := t.lookup(name)
		if v == nil {
			t.fail(c, "assignment to an unknown variable")
			return "GoUnknown"
		}
		pat = append(pat, v.coq)
	}
	for _, st := range fi.states {
		want, ok := t.callerSrc(c, fi, recvSrc, st)
		v := (*lvar)(nil)
		if ok {
			v = t.lookup(want)
		}
		if v == nil {
			t.fail(c, "state "+st+" returned by the callee has no variable at the call")
			pat = append(pat, "_")
			continue
		}
		pat = append(pat, v.coq)
	}
	call := "(" + fi.coq + args + ")"
	p := strings.Join(pat, ", ")
	if len(pat) > 1 {
		p = "'(" + p + ")"
	}
	var code string
	switch {
	case len(pat) == 0:
		code = rest()
		if fi.mode == modeRes {
			code = "go_bind " + call + " (fun _ =>\n" + indent(code) + ")"
		}
	case fi.mode == modeRes:
		code = "go_bind " + call + " (fun " + p + " =>\n" + indent(rest()) + ")"
	default:
		code = "let " + p + " := " + call + " in\n" + rest()
	}
	return wrapG(gs, code)
}

// ---------------------------------------------------------------- loops on fuel

// forStmt: for init; cond; post { body }  (each part optional).
func (t *tr) forStmt(x *ast.ForStmt, k kont, after func() string) string {
	if t.mode() != modeRes {
		t.fail(x, "a loop on fuel needs the res mode")
		return "GoUnknown"
	}
	t.push()
	defer t.pop()
	pre := ""
	if x.Init != nil {
		pre = t.simple(x.Init)
	}
	gInit := t.takeGuards()
	// fuel
	fuel := t.cfg.fuel
	if cnt := t.countedFuel(x); cnt != "" {
		if fuel != "" {
			fuel = "(" + fuel + " + " + cnt + ")%nat"
		} else {
			fuel = cnt
		}
	}
	if fuel == "" {
		t.fail(x, "no fuel for this loop (transCfg.fuel)")
		return "GoUnknown"
	}
	exit := after() // the code after the loop, in the scope before it (state keeps its names)
	t.nloop++
	name := fmt.Sprintf("%s_loop%d", t.coqName, t.nloop)
	fv := t.fresh("fuel")
	fv2 := t.fresh("fuel")
	// every variable in scope is a parameter of the lifted loop
	var names, decls []string
	seen := map[string]bool{}
	for i := len(t.scopes) - 1; i >= 0; i-- {
		var ks []string
		for kname := range t.scopes[i] {
			ks = append(ks, kname)
		}
		sortStrings(ks)
		for _, kname := range ks {
			v := t.scopes[i][kname]
			if seen[v.coq] || v.coq == "_" {
				continue
			}
			seen[v.coq] = true
			ct := coqType(v.typ)
			if ct == "" {
				t.fail(x, "loop variable "+kname+" of type "+v.typ)
				continue
			}
			names = append(names, v.coq)
			decls = append(decls, "("+v.coq+" : "+ct+")")
		}
	}
	for _, of := range t.outerFuel {
		names = append(names, of)
		decls = append(decls, "("+of+" : nat)")
	}
	recur := func(f string) string { return name + " " + f + " " + strings.Join(names, " ") }
	next := func() string {
		s := ""
		if x.Post != nil {
			s = t.postStmt(x.Post)
		}
		return s + recur(fv2)
	}
	t.outerFuel = append(t.outerFuel, fv2)
	body := ""
	t.push()
	inner := t.stmts(x.Body.List, kont{fall: t.later(next), cont: t.later(next), brk: func() string { return exit }, rty: k.rty})
	t.pop()
	t.outerFuel = t.outerFuel[:len(t.outerFuel)-1]
	if x.Cond != nil {
		t.guards = nil
		cond := t.exprAs(x.Cond, tBool)
		gc := t.takeGuards()
		body = wrapG(gc, "if "+cond+"\nthen "+indent(inner)+"\nelse "+indent(exit))
	} else {
		body = inner
	}
	rty := k.rty
	if rty == "" {
		rty = t.resCoqType()
	}
	// only the variables the loop (or the code after it) mentions are parameters, so that an unrelated
	// local of the enclosing function does not change the loop's signature
	marker := name + " " + fv2 + " " + strings.Join(names, " ")
	var keepN, keepD []string
	for i, n := range names {
		if mentionsWord(strings.ReplaceAll(body, marker, ""), n) {
			keepN = append(keepN, n)
			keepD = append(keepD, decls[i])
		}
	}
	newCall := func(f string) string { return strings.TrimSpace(name + " " + f + " " + strings.Join(keepN, " ")) }
	body = strings.ReplaceAll(body, marker, newCall(fv2))
	def := fmt.Sprintf("(* %s: loop %d of %s *)\nFixpoint %s (%s : nat) %s {struct %s} : %s :=\n  match %s with\n  | O => GoOutOfFuel\n  | S %s =>\n      %s\n  end.\n",
		t.where, t.nloop, t.fd.Name.Name, name, fv, strings.Join(keepD, " "), fv, rty, fv, fv2, indent(indent(indent(body))))
	names = keepN
	t.lifted = append(t.lifted, def)
	t.liftedNames = append(t.liftedNames, name)
	return wrapG(gInit, pre+recur("("+fuel+")"))
}

// countedFuel: for i := a; i < b; i++  →  Z.to_nat (b - i) + 1 iterations at most.
func (t *tr) countedFuel(x *ast.ForStmt) string {
	be, ok := x.Cond.(*ast.BinaryExpr)
	if !ok || (be.Op != token.LSS && be.Op != token.LEQ) {
		return ""
	}
	inc, ok := x.Post.(*ast.IncDecStmt)
	if !ok || inc.Tok != token.INC || t.p.src(inc.X) != t.p.src(be.X) {
		return ""
	}
	a, ta := t.expr(be.X)
	b, tb := t.expr(be.Y)
	if !isIntT(ta) || !isIntT(tb) {
		return ""
	}
	t.guards = nil
	return "S (S (Z.to_nat (" + b + " - " + a + ")))"
}

func (t *tr) postStmt(s ast.Stmt) string {
	switch x := s.(type) {
	case *ast.IncDecStmt:
		id, ok := x.X.(*ast.Ident)
		if ok {
			if v := t.lookup(id.Name); v != nil && isIntT(v.typ) {
				op := "+"
				if x.Tok == token.DEC {
					op = "-"
				}
				return "let " + v.coq + " := " + t.wrap(v.typ, "("+v.coq+" "+op+" 1)") + " in\n"
			}
		}
	case *ast.AssignStmt:
		return t.assign(x)
	}
	t.fail(s, "post statement")
	return ""
}

// mentions: does the Coq text use the identifier n (as a whole word)?
func mentionsWord(text, n string) bool {
	isId := func(c byte) bool {
		return c == '_' || c == '\'' || c >= '0' && c <= '9' || c >= 'a' && c <= 'z' || c >= 'A' && c <= 'Z'
	}
	for i := 0; ; {
		j := strings.Index(text[i:], n)
		if j < 0 {
			return false
		}
		j += i
		if (j == 0 || !isId(text[j-1])) && (j+len(n) == len(text) || !isId(text[j+len(n)])) {
			return true
		}
		i = j + 1
	}
}

func sortStrings(a []string) {
	for i := 1; i < len(a); i++ {
		for j := i; j > 0 && a[j] < a[j-1]; j-- {
			a[j], a[j-1] = a[j-1], a[j]
		}
	}
}
