package main

// gotrans, part 2: state machines.  Loops that are not ranges (for {}, for c {},
// for i := a; i < b; i++ {}) become recursion on explicit fuel, lifted into a
// Fixpoint of its own (gen_<f>_loop<k>) so that refinement lemmas can speak
// about the loop; results are then in the three-valued go_res (GoOk / GoPanic
// "why" / GoOutOfFuel).  Abstract objects (a lexer over the remaining runes,
// an io.Reader / io.Writer over a script of chunks) are state that the
// definition takes and returns; calls of other translated functions thread
// that state and the receiver's assigned fields (monadic bind in go_res).

import (
	"fmt"
	"go/ast"
	"go/constant"
	"go/token"
	"path/filepath"
	"sort"
	"strings"
)

// ---------------------------------------------------------------- modes

const (
	modePlain = iota
	modeOption
	modeRes
)

func (t *tr) mode() int {
	if t.cfg.res {
		return modeRes
	}
	if t.cfg.checked {
		return modeOption
	}
	return modePlain
}

func (t *tr) okWrap(r string) string {
	switch t.mode() {
	case modeRes:
		return "GoOk " + parenIf(r)
	case modeOption:
		return "Some " + parenIf(r)
	}
	return r
}

func parenIf(r string) string {
	if strings.ContainsAny(r, " \n") && !(strings.HasPrefix(r, "(") && balancedOuter(r)) {
		return "(" + r + ")"
	}
	return r
}

func balancedOuter(r string) bool {
	d := 0
	for i, c := range r {
		switch c {
		case '(':
			d++
		case ')':
			d--
			if d == 0 && i != len(r)-1 {
				return false
			}
		}
	}
	return d == 0
}

func (t *tr) panicVal(why string) string {
	switch t.mode() {
	case modeRes:
		return "GoPanic " + coqStr(why) + " (* panic *)"
	case modeOption:
		return "None (* panic *)"
	}
	t.fail(nil, "a panic site ("+why+") needs the checked or res mode")
	return "GoUnknown"
}

// ---------------------------------------------------------------- objects

// An abstract object is a parameter (or a field of the receiver) whose Go
// type is not translated; the definition takes and returns its state instead.
//
//	lexer:  *lexing.Lexer   — in: the runes not yet consumed (head = x.Rune(),
//	        [] = x.Ended()), buf: the scanning buffer, errs: the errors reported
//	        through x.Errorf / x.CodeErrorf (before ErrorList's cap)
//	reader: io.Reader       — rd: the script of what the reader will do (Lib/GoLib.v go_reader)
//	writer: io.Writer       — wr: what was written and what the writer will answer
type objState struct{ suffix, typ string }

var objKinds = map[string][]objState{
	"lexer":  {{"in", "[]rune"}, {"buf", "[]rune"}, {"errs", "[]goerr"}},
	"reader": {{"rd", "reader"}},
	"writer": {{"wr", "writer"}},
}

func objSrc(obj, suffix string) string { return obj + ".#" + suffix }

func (t *tr) objVar(obj, suffix string) *lvar {
	v := t.lookup(objSrc(obj, suffix))
	if v == nil {
		t.fail(nil, "object state "+objSrc(obj, suffix)+" is not in scope")
		return &lvar{coq: "GoUnknown", typ: "?"}
	}
	return v
}

func (t *tr) rebind(src, val string) string {
	v := t.lookup(src)
	if v == nil {
		t.fail(nil, "state "+src+" is not in scope")
		return ""
	}
	return "let " + v.coq + " := " + val + " in\n"
}

// objExprCall: methods of an object that only read its state.
func (t *tr) objExprCall(c *ast.CallExpr, obj, kind, m string) (string, string, bool) {
	switch kind {
	case "lexer":
		in := t.objVar(obj, "in").coq
		switch m {
		case "Rune":
			if len(c.Args) == 0 {
				return "(lexer_Rune " + in + ")", "int32", true
			}
		case "Ended":
			if len(c.Args) == 0 {
				return "(lexer_Ended " + in + ")", tBool, true
			}
		case "See":
			if len(c.Args) == 1 {
				return "(lexer_Rune " + in + " =? " + t.exprAs(c.Args[0], "int32") + ")", tBool, true
			}
		case "Buffered":
			if len(c.Args) == 0 {
				return "(lexer_Buffered " + t.objVar(obj, "buf").coq + ")", tStr, true
			}
		case "MakeToken":
			if len(c.Args) == 1 {
				ty := t.exprAs(c.Args[0], "int")
				buf := t.objVar(obj, "buf")
				t.pending = append(t.pending, "let "+buf.coq+" := [] in\n")
				return "(" + ty + ", " + buf.coq + ")", "token", true
			}
		}
	}
	return "", "", false
}

// objStmtCall: methods of an object used as a statement (result ignored).
// Returns the code up to and including the continuation.
func (t *tr) objStmtCall(c *ast.CallExpr, obj, kind, m string, rest func() string) (string, bool) {
	switch kind {
	case "lexer":
		in, buf, errs := t.objVar(obj, "in"), t.objVar(obj, "buf"), t.objVar(obj, "errs")
		switch m {
		case "Next":
			if len(c.Args) != 0 {
				return "", false
			}
			code := "let " + buf.coq + " := (" + buf.coq + " ++ [lexer_Rune " + in.coq + "]) in\n" +
				"let " + in.coq + " := (tl " + in.coq + ") in\n" + rest()
			return "if (lexer_Ended " + in.coq + ")\nthen " + t.panicVal("scanning on closed rune scanner") + "\nelse " + indent(code), true
		case "Errorf", "CodeErrorf":
			i := 0
			code := "\"\""
			if m == "CodeErrorf" {
				if len(c.Args) < 2 {
					return "", false
				}
				cc := t.constOf(c.Args[0])
				if cc == nil {
					t.fail(c, "error code is not a constant")
					return "GoUnknown", true
				}
				code = coqStr(constStr(*cc))
				i = 1
			}
			if len(c.Args) <= i {
				return "", false
			}
			mm := t.constOf(c.Args[i])
			if mm == nil {
				t.fail(c, "error message is not a constant")
				return "GoUnknown", true
			}
			for _, a := range c.Args[i+1:] {
				t.expr(a)
			}
			gs := t.takeGuards()
			return wrapG(gs, "let "+errs.coq+" := ("+errs.coq+" ++ [GoErr "+code+" "+coqStr(constStr(*mm))+"]) in\n"+rest()), true
		}
	}
	return "", false
}

func constStr(c cval) string {
	if c.v.Kind() == constant.String {
		return constant.StringVal(c.v)
	}
	return c.v.ExactString()
}

// unwrapConv: string(e) / []byte(e) around a call.
func unwrapConv(e ast.Expr) ast.Expr {
	if c, ok := e.(*ast.CallExpr); ok && len(c.Args) == 1 {
		if id, ok := c.Fun.(*ast.Ident); ok && id.Name == "string" {
			return c.Args[0]
		}
		if _, ok := c.Fun.(*ast.ArrayType); ok {
			return c.Args[0]
		}
	}
	return e
}

// returnCall: return f(...) where f returns state: bind, then return.
func (t *tr) returnCall(x *ast.ReturnStmt, c *ast.CallExpr, fi *funcInfo, recvSrc string) string {
	resT := splitTuple(fi.res)
	if fi.res == "" {
		resT = nil
	}
	n := len(resT) - len(fi.states)
	t.push()
	defer t.pop()
	var lhs, ids []ast.Expr
	for i := 0; i < n; i++ {
		id := ast.NewIdent(fmt.Sprintf("ret%d", i+1))
		lhs = append(lhs, id)
		ids = append(ids, id)
	}
	return t.bindCall(c, fi, recvSrc, lhs, true, func() string {
		for i, id := range ids {
			// string(f()) / []byte(f()): same representation
			if v := t.lookup(id.(*ast.Ident).Name); v != nil && i < len(t.res) && coqType(v.typ) == coqType(t.res[i]) {
				v.typ = t.res[i]
			}
		}
		r := t.ret(&ast.ReturnStmt{Results: ids})
		return wrapG(t.takeGuards(), r)
	})
}

// isPkgErrVar: a package-level `var errX = errors.New("...")`.
func (t *tr) isPkgErrVar(name string) bool {
	for _, fn := range t.p.sortedFiles() {
		for _, d := range t.p.files[fn].Decls {
			gd, ok := d.(*ast.GenDecl)
			if !ok || gd.Tok != token.VAR {
				continue
			}
			for _, sp := range gd.Specs {
				vs := sp.(*ast.ValueSpec)
				for i, n := range vs.Names {
					if n.Name != name || i >= len(vs.Values) {
						continue
					}
					if c, ok := vs.Values[i].(*ast.CallExpr); ok {
						src := t.p.src(c.Fun)
						return src == "errors.New" || src == "fmt.Errorf"
					}
				}
			}
		}
	}
	return false
}

// bindName: the Coq name an assignment target gets (declaring it if asked).
func (t *tr) bindName(n ast.Node, e ast.Expr, typ string, define bool) string {
	id, ok := e.(*ast.Ident)
	name := ""
	if ok {
		name = id.Name
	} else if src := t.p.src(e); t.isState(src) {
		name = src
	} else {
		t.fail(n, "assignment target")
		return "GoUnknown"
	}
	if name == "_" {
		return "_"
	}
	if define {
		if _, here := t.scopes[len(t.scopes)-1][name]; !here {
			return t.declare(name, typ)
		}
	}
	v := t.lookup(name)
	if v == nil {
		t.fail(n, "assignment to an unknown variable")
		return "GoUnknown"
	}
	return v.coq
}

// readerEffect: n, err := io.ReadFull(r, buf) / r.Read(buf) / io.ReadAll(r) /
// io.CopyN(&bb, r, n) over an abstract reader.
func (t *tr) readerEffect(c *ast.CallExpr, lhs []ast.Expr, define bool, rest func() string) (string, bool) {
	if len(lhs) != 2 {
		return "", false
	}
	fsrc := t.p.src(c.Fun)
	sel, _ := c.Fun.(*ast.SelectorExpr)
	var robj string
	kind := ""
	switch {
	case fsrc == "io.ReadFull" && len(c.Args) == 2:
		kind = "full"
	case fsrc == "io.ReadAll" && len(c.Args) == 1:
		kind = "all"
	case fsrc == "io.CopyN" && len(c.Args) == 3:
		kind = "copyn"
	case sel != nil && sel.Sel.Name == "Read" && len(c.Args) == 1:
		if o, k, ok := t.objectOf(sel.X); ok && k == "reader" {
			kind, robj = "read", o
		}
	}
	if kind == "" {
		return "", false
	}
	if robj == "" {
		ai := 0
		if kind == "copyn" {
			ai = 1
		}
		o, k, ok := t.objectOf(c.Args[ai])
		if !ok || k != "reader" {
			return "", false
		}
		robj = o
	}
	rd := t.objVar(robj, "rd")
	got := t.fresh("got")
	var code string
	switch kind {
	case "full", "read":
		bi := 0
		if kind == "full" {
			bi = 1
		}
		barg := c.Args[bi]
		if se, ok := barg.(*ast.SliceExpr); ok && se.Low == nil && se.High == nil {
			barg = se.X
		}
		bid, ok := barg.(*ast.Ident)
		bv := (*lvar)(nil)
		if ok {
			bv = t.lookup(bid.Name)
		}
		if bv == nil || bv.typ != tBytes {
			t.fail(c, "the buffer of a read must be a []byte variable")
			return "GoUnknown", true
		}
		t.storageWrite(c, bid.Name)
		fn := "io_ReadFull " + rd.coq + " (go_len " + bv.coq + ")"
		if kind == "read" {
			fn = "rd_read (Z.to_nat (go_len " + bv.coq + ")) " + rd.coq
		}
		errN := t.fresh("rerr")
		code = "let '(" + got + ", " + errN + ", " + rd.coq + ") := " + fn + " in\n" +
			"let " + bv.coq + " := (go_fill_buf " + bv.coq + " " + got + ") in\n"
		nN := t.bindName(c, lhs[0], "int", define)
		eN := t.bindName(c, lhs[1], tErr, define)
		code += "let " + nN + " := (go_len " + got + ") in\nlet " + eN + " := " + errN + " in\n"
	case "all":
		errN := t.fresh("rerr")
		bN := t.bindName(c, lhs[0], tBytes, define)
		eN := t.bindName(c, lhs[1], tErr, define)
		code = "let '(" + bN + ", " + errN + ", " + rd.coq + ") := io_ReadAll " + rd.coq + " in\nlet " + eN + " := " + errN + " in\n"
	case "copyn":
		ue, ok := c.Args[0].(*ast.UnaryExpr)
		var bb *lvar
		if ok && ue.Op == token.AND {
			if id, ok := ue.X.(*ast.Ident); ok {
				bb = t.lookup(id.Name)
			}
		}
		if bb == nil || bb.typ != "buffer" {
			t.fail(c, "io.CopyN into something else than a local bytes.Buffer")
			return "GoUnknown", true
		}
		n := t.exprAs(c.Args[2], "int64")
		errN := t.fresh("rerr")
		code = "let '(" + got + ", " + errN + ", " + rd.coq + ") := io_CopyN " + rd.coq + " " + n + " in\n" +
			"let " + bb.coq + " := (" + bb.coq + " ++ " + got + ") in\n"
		mN := t.bindName(c, lhs[0], "int64", define)
		eN := t.bindName(c, lhs[1], tErr, define)
		code += "let " + mN + " := (go_len " + got + ") in\nlet " + eN + " := " + errN + " in\n"
	}
	gs := t.takeGuards()
	return wrapG(gs, code+rest()), true
}

// fieldOfLit: the value given to field cfg.retField in &T{...} / T{...}.
func (t *tr) fieldOfLit(e ast.Expr) ast.Expr {
	if u, ok := e.(*ast.UnaryExpr); ok && u.Op == token.AND {
		e = u.X
	}
	cl, ok := e.(*ast.CompositeLit)
	if !ok {
		t.fail(e, "return of something else than a struct literal")
		return e
	}
	for _, el := range cl.Elts {
		if kv, ok := el.(*ast.KeyValueExpr); ok && isIdent(kv.Key, t.cfg.retField) {
			return kv.Value
		}
	}
	t.fail(e, "field "+t.cfg.retField+" is not set in the returned literal")
	return e
}

// libEffect: library procedures on abstract readers / writers (filled in below).
func (t *tr) libEffect(c *ast.CallExpr, lhs []ast.Expr, define bool, rest func() string) (string, bool) {
	if code, ok := t.readerEffect(c, lhs, define, rest); ok {
		return code, true
	}
	// n, err := w.Write(bs) on an abstract writer
	if sel, ok := c.Fun.(*ast.SelectorExpr); ok && sel.Sel.Name == "Write" && len(c.Args) == 1 && len(lhs) == 2 {
		if obj, kind, ok := t.objectOf(sel.X); ok && kind == "writer" {
			wr := t.objVar(obj, "wr")
			bs := t.exprAs(c.Args[0], tBytes)
			gs := t.takeGuards()
			nN := t.bindName(c, lhs[0], "int", define)
			eN := t.bindName(c, lhs[1], tErr, define)
			return wrapG(gs, "let '("+nN+", "+eN+", "+wr.coq+") := wr_write "+wr.coq+" "+bs+" in\n"+rest()), true
		}
	}
	// endian.PutUint64(buf[:], v) as a statement
	if lhs == nil && len(c.Args) == 2 {
		if key, ok := t.cfg.libAlias[t.p.src(c.Fun)]; ok && key == "encoding/binary.LittleEndian.PutUint64" {
			barg := c.Args[0]
			if se, ok := barg.(*ast.SliceExpr); ok && se.Low == nil && se.High == nil {
				barg = se.X
			}
			if id, ok := barg.(*ast.Ident); ok {
				if bv := t.lookup(id.Name); bv != nil && bv.typ == tBytes {
					v := t.exprAs(c.Args[1], "uint64")
					t.storageWrite(c, id.Name)
					t.guard("(8 <=? go_len " + bv.coq + ")")
					gs := t.takeGuards()
					return wrapG(gs, "let "+bv.coq+" := (binary_LE_PutUint64 "+bv.coq+" "+v+") in\n"+rest()), true
				}
			}
			t.fail(c, "PutUint64 into something else than a []byte variable")
			return "GoUnknown", true
		}
	}
	sel, ok := c.Fun.(*ast.SelectorExpr)
	if !ok {
		return "", false
	}
	// r, _ := x.Next()
	if obj, kind, ok := t.objectOf(sel.X); ok && kind == "lexer" && sel.Sel.Name == "Next" && len(lhs) == 2 && isIdent(lhs[1], "_") {
		return t.objStmtCall(c, obj, kind, "Next", func() string {
			in := t.objVar(obj, "in")
			id, ok := lhs[0].(*ast.Ident)
			if !ok {
				t.fail(c, "assignment target")
				return "GoUnknown"
			}
			if id.Name == "_" {
				return rest()
			}
			var name string
			if _, here := t.scopes[len(t.scopes)-1][id.Name]; define && !here {
				name = t.declare(id.Name, "int32")
			} else if v := t.lookup(id.Name); v != nil {
				name = v.coq
			} else {
				t.fail(c, "assignment to an unknown variable")
				return "GoUnknown"
			}
			return "let " + name + " := (lexer_Rune " + in.coq + ") in\n" + rest()
		})
	}
	return "", false
}

// objectOf: is e (by source text) a declared abstract object?
func (t *tr) objectOf(e ast.Expr) (string, string, bool) {
	src := t.p.src(e)
	k, ok := t.objects[src]
	return src, k, ok
}

// ---------------------------------------------------------------- statements with effects

// exprStmt: a call used as a statement.
func (t *tr) exprStmt(x *ast.ExprStmt, rest func() string) string {
	c, ok := x.X.(*ast.CallExpr)
	if !ok {
		t.fail(x, "expression statement")
		return "GoUnknown"
	}
	// panic(...)
	if id, ok := c.Fun.(*ast.Ident); ok && id.Name == "panic" && t.lookup("panic") == nil && len(c.Args) == 1 {
		why := "panic"
		if m := t.constOf(c.Args[0]); m != nil {
			why = constStr(*m)
		} else {
			t.expr(c.Args[0])
		}
		return t.panicVal(why)
	}
	// hash-like accumulators (appendTo)
	if len(c.Args) == 1 && !c.Ellipsis.IsValid() {
		if st, ok := t.cfg.appendTo[t.p.src(c.Fun)]; ok && t.isState(st) {
			if v := t.lookup(st); v != nil && v.typ == tBytes {
				a := t.exprAs(c.Args[0], tBytes)
				gs := t.takeGuards()
				return wrapG(gs, "let "+v.coq+" := ("+v.coq+" ++ "+a+") in\n"+rest())
			}
		}
	}
	// methods of abstract objects
	if sel, ok := c.Fun.(*ast.SelectorExpr); ok {
		if obj, kind, ok := t.objectOf(sel.X); ok {
			if code, ok := t.objStmtCall(c, obj, kind, sel.Sel.Name, rest); ok {
				return code
			}
			if _, _, ok := t.objExprCall(c, obj, kind, sel.Sel.Name); ok {
				t.pending = nil
				t.fail(x, "result of a state-reading method is dropped")
				return "GoUnknown"
			}
		}
	}
	// library procedures on abstract objects (io.ReadFull, w.Write, ...)
	if code, ok := t.libEffect(c, nil, false, rest); ok {
		return code
	}
	// translated functions
	if fi, recvSrc := t.calleeOf(c); fi != nil {
		return t.bindCall(c, fi, recvSrc, nil, false, rest)
	}
	t.fail(x, "expression statement")
	return "GoUnknown"
}

// calleeOf: the translated function a call refers to (nil if none).
func (t *tr) calleeOf(c *ast.CallExpr) (*funcInfo, string) {
	fsrc := t.p.src(c.Fun)
	if key, ok := t.cfg.calls[fsrc]; ok {
		parts := strings.SplitN(key, "|", 3)
		fi := t.g.funcs[filepath.Join(t.g.repo, parts[0])+"|"+parts[1]+"|"+parts[2]]
		if fi == nil {
			return nil, ""
		}
		recv := ""
		if sel, ok := c.Fun.(*ast.SelectorExpr); ok {
			recv = t.p.src(sel.X)
		}
		return fi, recv
	}
	if id, ok := c.Fun.(*ast.Ident); ok && t.lookup(id.Name) == nil {
		if fi, ok := t.g.funcs[t.p.dir+"||"+id.Name]; ok {
			return fi, ""
		}
	}
	return nil, ""
}

// needsBind: the callee returns state or is not a plain value.
func needsBind(fi *funcInfo) bool { return fi.mode != modePlain || len(fi.states) > 0 }

// callerSrc maps a source name of the callee (a state or parameter source) to
// the caller's: parameters to the argument expressions, fields of the callee's
// receiver to fields of the caller's receiver expression, objects likewise.
func (t *tr) callerSrc(c *ast.CallExpr, fi *funcInfo, recvSrc, ps string) (string, bool) {
	base, suffix := ps, ""
	if i := strings.Index(ps, ".#"); i >= 0 {
		base, suffix = ps[:i], ps[i:]
	}
	for j, n := range fi.sigN {
		if n == base && j < len(c.Args) {
			a := c.Args[j]
			if se, ok := a.(*ast.SliceExpr); ok && se.Low == nil && se.High == nil && !se.Slice3 {
				a = se.X // buf[:] is buf
			}
			return t.p.src(a) + suffix, true
		}
	}
	if fi.recv != "" && (base == fi.recv || strings.HasPrefix(base, fi.recv+".")) && recvSrc != "" {
		return recvSrc + strings.TrimPrefix(base, fi.recv) + suffix, true
	}
	return "", false
}

// callArgs: the Coq arguments of a call of a translated function.
func (t *tr) callArgs(c *ast.CallExpr, fi *funcInfo, recvSrc string) string {
	if c.Ellipsis.IsValid() || len(c.Args) != len(fi.sigN) {
		t.fail(c, "call arity")
		return ""
	}
	t.dirtyArgs(c, fi)
	s := ""
	for i, ps := range fi.psrcs {
		found := false
		for j, n := range fi.sigN {
			if n == ps {
				s += " " + t.exprAs(c.Args[j], fi.params[i])
				found = true
			}
		}
		if found {
			continue
		}
		want, ok := t.callerSrc(c, fi, recvSrc, ps)
		if ok {
			if v := t.lookup(want); v != nil && (v.typ == fi.params[i] || fi.params[i] == "?") {
				s += " " + v.coq
				continue
			}
			if p2, ok := t.psrc[want]; ok && normT(p2.typ) == fi.params[i] {
				s += " " + p2.name
				continue
			}
			if p2, ok := t.pnil[want]; ok && fi.params[i] == tNilness {
				s += " " + p2.name
				continue
			}
		}
		t.fail(c, "callee parameter "+ps+" has no counterpart at the call")
	}
	return s
}

// bindCall: call a translated function that returns state (and/or may panic /
// run out of fuel), bind its results to lhs (nil: dropped) and thread the state.
func (t *tr) bindCall(c *ast.CallExpr, fi *funcInfo, recvSrc string, lhs []ast.Expr, define bool, rest func() string) string {
	if !fi.ok {
		t.fail(c, "call of a function that was not translated")
		return "GoUnknown"
	}
	if fi.mode == modeOption || (fi.mode == modeRes && t.mode() != modeRes) {
		t.fail(c, "call of a checked function from a function of another mode")
		return "GoUnknown"
	}
	args := t.callArgs(c, fi, recvSrc)
	gs := t.takeGuards()
	mark := ""
	for i, l := range lhs {
		if rt := splitTuple(fi.res); i < len(rt) && isSliceT(rt[i]) {
			mark += t.aliasGuard(c, l, c)
		}
	}
	// the same slice given twice to a callee that writes
	if len(fi.states) > 0 {
		seen := map[string]bool{}
		for _, a := range c.Args {
			if n := t.baseName(a); n != "" {
				if v := t.lookup(n); v != nil && isSliceT(v.typ) {
					if seen[n] {
						t.fail(c, "the same slice is passed twice to a callee that may write it")
					}
					seen[n] = true
				}
			}
		}
	}
	resT := splitTuple(fi.res)
	if fi.res == "" {
		resT = nil
	}
	nres := len(resT) - len(fi.states)
	var pat []string
	if lhs != nil && len(lhs) != nres {
		t.fail(c, "assignment arity")
		return "GoUnknown"
	}
	for i := 0; i < nres; i++ {
		if lhs == nil {
			pat = append(pat, "_")
			continue
		}
		id, ok := lhs[i].(*ast.Ident)
		name := ""
		if ok {
			name = id.Name
		} else if src := t.p.src(lhs[i]); t.isState(src) {
			name = src
		} else {
			t.fail(c, "assignment target")
			return "GoUnknown"
		}
		if name == "_" {
			pat = append(pat, "_")
			continue
		}
		if define {
			if _, here := t.scopes[len(t.scopes)-1][name]; !here {
				pat = append(pat, t.declare(name, defaultT(resT[i])))
				continue
			}
		}
		v := t.lookup(name)
		if v == nil {
			t.fail(c, "assignment to an unknown variable")
			return "GoUnknown"
		}
		pat = append(pat, v.coq)
	}
	for _, st := range fi.states {
		want, ok := t.callerSrc(c, fi, recvSrc, st)
		v := (*lvar)(nil)
		if ok {
			v = t.lookup(want)
		}
		if v == nil {
			t.fail(c, "state "+st+" returned by the callee has no variable at the call")
			pat = append(pat, "_")
			continue
		}
		if isSliceT(v.typ) {
			t.storageWrite(c, want)
		}
		pat = append(pat, v.coq)
	}
	call := "(" + fi.coq + args + ")"
	p := strings.Join(pat, ", ")
	if len(pat) > 1 {
		p = "'(" + p + ")"
	}
	var code string
	switch {
	case len(pat) == 0:
		code = rest()
		if fi.mode == modeRes {
			code = "go_bind " + call + " (fun _ =>\n" + indent(code) + ")"
		}
	case fi.mode == modeRes:
		code = "go_bind " + call + " (fun " + p + " =>\n" + indent(rest()) + ")"
	default:
		code = "let " + p + " := " + call + " in\n" + rest()
	}
	return wrapG(gs, mark+code)
}

// ---------------------------------------------------------------- loops on fuel

// forStmt: for init; cond; post { body }  (each part optional).
func (t *tr) forStmt(x *ast.ForStmt, k kont, after func() string) string {
	if t.mode() != modeRes {
		t.fail(x, "a loop on fuel needs the res mode")
		return "GoUnknown"
	}
	t.push()
	defer t.pop()
	pre := ""
	if x.Init != nil {
		pre = t.simple(x.Init)
	}
	gInit := t.takeGuards()
	// fuel
	fuel := t.cfg.fuel
	if cnt := t.countedFuel(x); cnt != "" {
		if fuel != "" {
			fuel = "(" + fuel + " + " + cnt + ")%nat"
		} else {
			fuel = cnt
		}
	}
	if fuel == "" {
		t.fail(x, "no fuel for this loop (transCfg.fuel)")
		return "GoUnknown"
	}
	exit := after() // the code after the loop, in the scope before it (state keeps its names)
	t.nloop++
	name := fmt.Sprintf("%s_loop%d", t.coqName, t.nloop)
	fv := t.fresh("fuel")
	fv2 := t.fresh("fuel")
	// every variable in scope is a parameter of the lifted loop
	var names, decls []string
	seen := map[string]bool{}
	for i := len(t.scopes) - 1; i >= 0; i-- {
		var ks []string
		for kname := range t.scopes[i] {
			ks = append(ks, kname)
		}
		sortStrings(ks)
		for _, kname := range ks {
			v := t.scopes[i][kname]
			if seen[v.coq] || v.coq == "_" {
				continue
			}
			seen[v.coq] = true
			ct := coqType(v.typ)
			if ct == "" {
				t.fail(x, "loop variable "+kname+" of type "+v.typ)
				continue
			}
			names = append(names, v.coq)
			decls = append(decls, "("+v.coq+" : "+ct+")")
		}
	}
	for _, of := range t.outerFuel {
		names = append(names, of)
		decls = append(decls, "("+of+" : nat)")
	}
	recur := func(f string) string { return name + " " + f + " " + strings.Join(names, " ") }
	next := func() string {
		s := ""
		if x.Post != nil {
			s = t.postStmt(x.Post)
		}
		return s + recur(fv2)
	}
	t.outerFuel = append(t.outerFuel, fv2)
	body := ""
	t.push()
	inner := t.stmts(x.Body.List, kont{fall: t.later(next), cont: t.later(next), brk: func() string { return exit }, rty: k.rty})
	t.pop()
	t.outerFuel = t.outerFuel[:len(t.outerFuel)-1]
	if x.Cond != nil {
		t.guards = nil
		cond := t.exprAs(x.Cond, tBool)
		gc := t.takeGuards()
		body = wrapG(gc, "if "+cond+"\nthen "+indent(inner)+"\nelse "+indent(exit))
	} else {
		body = inner
	}
	rty := k.rty
	if rty == "" {
		rty = t.resCoqType()
	}
	// only the variables the loop (or the code after it) mentions are parameters, so that an unrelated
	// local of the enclosing function does not change the loop's signature
	marker := name + " " + fv2 + " " + strings.Join(names, " ")
	var keepN, keepD []string
	for i, n := range names {
		if mentionsWord(strings.ReplaceAll(body, marker, ""), n) {
			keepN = append(keepN, n)
			keepD = append(keepD, decls[i])
		}
	}
	newCall := func(f string) string { return strings.TrimSpace(name + " " + f + " " + strings.Join(keepN, " ")) }
	body = strings.ReplaceAll(body, marker, newCall(fv2))
	def := fmt.Sprintf("(* %s: loop %d of %s *)\nFixpoint %s (%s : nat) %s {struct %s} : %s :=\n  match %s with\n  | O => GoOutOfFuel\n  | S %s =>\n      %s\n  end.\n",
		t.where, t.nloop, t.fd.Name.Name, name, fv, strings.Join(keepD, " "), fv, rty, fv, fv2, indent(indent(indent(body))))
	names = keepN
	t.lifted = append(t.lifted, def)
	t.liftedNames = append(t.liftedNames, name)
	return wrapG(gInit, pre+recur("("+fuel+")"))
}

// countedFuel: for i := a; i < b; i++  →  Z.to_nat (b - i) + 1 iterations at most.
func (t *tr) countedFuel(x *ast.ForStmt) string {
	be, ok := x.Cond.(*ast.BinaryExpr)
	if !ok || (be.Op != token.LSS && be.Op != token.LEQ) {
		return ""
	}
	inc, ok := x.Post.(*ast.IncDecStmt)
	if !ok || inc.Tok != token.INC || t.p.src(inc.X) != t.p.src(be.X) {
		return ""
	}
	a, ta := t.expr(be.X)
	b, tb := t.expr(be.Y)
	if !isIntT(ta) || !isIntT(tb) {
		return ""
	}
	t.guards = nil
	return "S (S (Z.to_nat (" + b + " - " + a + ")))"
}

func (t *tr) postStmt(s ast.Stmt) string {
	switch x := s.(type) {
	case *ast.IncDecStmt:
		id, ok := x.X.(*ast.Ident)
		if ok {
			if v := t.lookup(id.Name); v != nil && isIntT(v.typ) {
				op := "+"
				if x.Tok == token.DEC {
					op = "-"
				}
				return "let " + v.coq + " := " + t.wrap(v.typ, "("+v.coq+" "+op+" 1)") + " in\n"
			}
		}
	case *ast.AssignStmt:
		return t.assign(x)
	}
	t.fail(s, "post statement")
	return ""
}

// mentions: does the Coq text use the identifier n (as a whole word)?
func mentionsWord(text, n string) bool {
	isId := func(c byte) bool {
		return c == '_' || c == '\'' || c >= '0' && c <= '9' || c >= 'a' && c <= 'z' || c >= 'A' && c <= 'Z'
	}
	for i := 0; ; {
		j := strings.Index(text[i:], n)
		if j < 0 {
			return false
		}
		j += i
		if (j == 0 || !isId(text[j-1])) && (j+len(n) == len(text) || !isId(text[j+len(n)])) {
			return true
		}
		i = j + 1
	}
}

func sortStrings(a []string) {
	for i := 1; i < len(a); i++ {
		for j := i; j > 0 && a[j] < a[j-1]; j-- {
			a[j], a[j-1] = a[j-1], a[j]
		}
	}
}

// ---------------------------------------------------------------- aliasing

// Go slices share their backing array: after `b := buf[:]`, `c := b`,
// `b := append(a, x)` or `x := f(buf)` two names can denote the same storage,
// and a write through one is seen through the other.  The definitions emitted
// here bind VALUES, so such a binding is only translated when it cannot be
// observed: the source name is never mentioned again, or the new name is never
// mentioned again, or neither of the two is written from there on (that last
// case is marked `(* alias-review *)` in the output).  Everything else makes
// the definition go_unknown.  Arrays are values in Go (`c := arr` copies): an
// array variable is tracked as such, `arr[:]` aliases it like a slice.

func isSliceT(ty string) bool {
	switch ty {
	case tBytes, tStrs, "[]rune", "[]goerr", "[][]byte", "buffer":
		return true
	}
	return false
}

// baseName: the variable (or declared state field) an expression is a view of.
func (t *tr) baseName(e ast.Expr) string {
	for {
		switch x := e.(type) {
		case *ast.ParenExpr:
			e = x.X
		case *ast.SliceExpr:
			e = x.X
		case *ast.IndexExpr:
			e = x.X
		case *ast.StarExpr:
			e = x.X
		case *ast.UnaryExpr:
			if x.Op != token.AND {
				return ""
			}
			e = x.X
		case *ast.Ident:
			return x.Name
		case *ast.SelectorExpr:
			src := t.p.src(x)
			if _, ok := t.psrc[src]; ok {
				return src
			}
			return ""
		default:
			return ""
		}
	}
}

// aliasSources: the names whose storage the value of e may share.
func (t *tr) aliasSources(e ast.Expr) []string {
	for {
		p, ok := e.(*ast.ParenExpr)
		if !ok {
			break
		}
		e = p.X
	}
	isSliceVar := func(n string, arraysToo bool) bool {
		v := t.lookup(n)
		if v == nil {
			if ps, ok := t.psrc[n]; ok {
				return isSliceT(normT(ps.typ))
			}
			return false
		}
		return isSliceT(v.typ) && (arraysToo || !v.isArray)
	}
	switch x := e.(type) {
	case *ast.Ident:
		if isSliceVar(x.Name, false) {
			return []string{x.Name}
		}
	case *ast.SelectorExpr:
		if n := t.baseName(x); n != "" && isSliceVar(n, false) {
			return []string{n}
		}
	case *ast.SliceExpr:
		if n := t.baseName(x.X); n != "" && isSliceVar(n, true) {
			return []string{n}
		}
	case *ast.CallExpr:
		if id, ok := x.Fun.(*ast.Ident); ok && t.lookup(id.Name) == nil {
			switch id.Name {
			case "append":
				if len(x.Args) > 0 {
					if n := t.baseName(x.Args[0]); n != "" && isSliceVar(n, true) {
						return []string{n}
					}
				}
				return nil
			case "len", "cap", "string", "make", "new":
				return nil
			}
			if convTypes[id.Name] {
				return nil
			}
		}
		if _, ok := x.Fun.(*ast.ArrayType); ok {
			return nil // []byte(s) copies
		}
		if sel, ok := x.Fun.(*ast.SelectorExpr); ok {
			if sel.Sel.Name == "Bytes" && len(x.Args) == 0 {
				if n := t.baseName(sel.X); n != "" && isSliceVar(n, true) {
					return []string{n}
				}
			}
			if ip, ok := t.importPath(sel.X); ok {
				if _, ok := libFuncs[ip+"."+sel.Sel.Name]; ok {
					return nil // the modelled library functions return fresh values (or strings)
				}
			}
		}
		// any other call: its result may be (a view of) any slice it was given
		var out []string
		for _, a := range x.Args {
			if n := t.baseName(a); n != "" && isSliceVar(n, true) {
				out = append(out, n)
			}
		}
		return out
	}
	return nil
}

type aliasUse struct{ mentioned, written bool }

// usesAfter: how name is used after stmt (and, when stmt is inside a loop,
// anywhere in that loop outside stmt itself).
func (t *tr) usesAfter(stmt ast.Node, name string) aliasUse {
	if t.isState(name) {
		// a state output is handed back to the caller when the function ends
		u := t.usesAfter0(stmt, name)
		u.mentioned = true
		return u
	}
	return t.usesAfter0(stmt, name)
}

func (t *tr) usesAfter0(stmt ast.Node, name string) aliasUse {
	loops := t.loopsAround(stmt)
	relevant := func(n ast.Node) bool {
		if n.Pos() >= stmt.Pos() && n.End() <= stmt.End() {
			return false
		}
		if n.Pos() >= stmt.End() {
			return true
		}
		for _, l := range loops {
			if n.Pos() >= l.Pos() && n.End() <= l.End() {
				return true
			}
		}
		return false
	}
	return t.scanUses(name, relevant)
}

func (t *tr) loopsAround(stmt ast.Node) []ast.Node {
	var loops []ast.Node
	ast.Inspect(t.fd.Body, func(n ast.Node) bool {
		switch n.(type) {
		case *ast.ForStmt, *ast.RangeStmt:
			if n.Pos() <= stmt.Pos() && stmt.End() <= n.End() {
				loops = append(loops, n)
			}
		}
		return true
	})
	return loops
}

// scanUses: is name mentioned / possibly written in the relevant nodes?
func (t *tr) scanUses(name string, relevant func(ast.Node) bool) aliasUse {
	var u aliasUse
	is := func(e ast.Expr) bool { return e != nil && t.baseName(e) == name }
	pureCall := func(c *ast.CallExpr) bool {
		fsrc := t.p.src(c.Fun)
		if _, ok := t.cfg.externs[fsrc]; ok {
			return true // an abstract function of its arguments
		}
		if _, ok := t.cfg.appendTo[fsrc]; ok {
			return true // copies its argument into the accumulator
		}
		if key, ok := t.cfg.libAlias[fsrc]; ok {
			return !strings.Contains(key, ".Put")
		}
		if fi, _ := t.calleeOf(c); fi != nil {
			return len(fi.states) == 0
		}
		switch f := c.Fun.(type) {
		case *ast.ArrayType:
			return true
		case *ast.Ident:
			switch f.Name {
			case "len", "cap", "string":
				return true
			}
			return convTypes[f.Name]
		case *ast.SelectorExpr:
			if ip, ok := t.importPath(f.X); ok {
				if _, ok := libFuncs[ip+"."+f.Sel.Name]; ok {
					return true
				}
				return false
			}
			if s2, ok := f.X.(*ast.SelectorExpr); ok {
				if ip, ok := t.importPath(s2.X); ok {
					if _, ok := libChains[ip+"."+s2.Sel.Name+"."+f.Sel.Name]; ok {
						return !strings.HasPrefix(f.Sel.Name, "Put")
					}
				}
			}
			if _, kind, ok := t.objectOf(f.X); ok && kind == "lexer" {
				return true
			}
		}
		return false
	}
	ast.Inspect(t.fd.Body, func(n ast.Node) bool {
		if n == nil {
			return true
		}
		switch x := n.(type) {
		case *ast.Ident:
			if x.Name == name && relevant(x) {
				u.mentioned = true
			}
		case *ast.SelectorExpr:
			if t.p.src(x) == name && relevant(x) {
				u.mentioned = true
			}
		case *ast.AssignStmt:
			if relevant(x) {
				for _, l := range x.Lhs {
					if is(l) {
						u.written = true
					}
				}
			}
		case *ast.IncDecStmt:
			if relevant(x) && is(x.X) {
				u.written = true
			}
		case *ast.UnaryExpr:
			if x.Op == token.AND && relevant(x) && is(x.X) {
				u.written = true
			}
		case *ast.CallExpr:
			if relevant(x) {
				if id, ok := x.Fun.(*ast.Ident); ok && (id.Name == "append" || id.Name == "copy") && t.lookup(id.Name) == nil {
					if len(x.Args) > 0 && is(x.Args[0]) {
						u.written = true
					}
				} else if !pureCall(x) {
					for _, a := range x.Args {
						if is(a) {
							u.written = true
						}
					}
					if sel, ok := x.Fun.(*ast.SelectorExpr); ok && is(sel.X) {
						u.written = true // a method of the value itself
					}
				}
			}
		}
		return true
	})
	return u
}

// aliasGuard is called for every binding `target = value`: it fails the
// translation when the binding creates an alias that could be observed, and
// returns the review marker when it accepts one between two live names.
func (t *tr) aliasGuard(stmt ast.Node, target ast.Expr, value ast.Expr) string {
	y := t.baseName(target)
	if id, ok := target.(*ast.Ident); ok {
		y = id.Name
	}
	if y == "" || y == "_" {
		return ""
	}
	mark := ""
	for _, x := range t.aliasSources(value) {
		if x == y {
			continue // buf = buf[:n]: still one name
		}
		if r := t.rootOf(x); r != "" {
			t.roots[y] = r
		}
		gx, ok := t.group[x]
		if !ok {
			gx = len(t.group) + 1
			t.group[x] = gx
		}
		if gy, ok := t.group[y]; ok && gy != gx {
			for m, gm := range t.group {
				if gm == gy {
					t.group[m] = gx
				}
			}
		}
		t.group[y] = gx
		ux, uy := t.usesAfter(stmt, x), t.usesAfter(stmt, y)
		switch {
		case !ux.mentioned || !uy.mentioned:
			// only one of the two names lives on
		case !ux.written && !uy.written:
			mark = "(* alias-review: " + y + " shares the storage of " + x + "; neither is written afterwards *)\n"
		default:
			t.fail(stmt, "aliasing is not modelled: "+y+" shares the storage of "+x+" and one of them is written, passed to a callee that may write it, or appended to afterwards")
		}
	}
	return mark
}

func unparen(e ast.Expr) ast.Expr {
	for {
		p, ok := e.(*ast.ParenExpr)
		if !ok {
			return e
		}
		e = p.X
	}
}

// rootOf: the parameter whose storage (visible to the caller) name may share.
func (t *tr) rootOf(name string) string {
	if r, ok := t.roots[name]; ok {
		return r
	}
	if t.isParam[name] {
		if v := t.lookup(name); v != nil {
			if isSliceT(v.typ) && !v.isArray {
				return name
			}
		} else if ps, ok := t.psrc[name]; ok && isSliceT(normT(ps.typ)) {
			return name
		}
	}
	return ""
}

// sharers: the other names that may denote the storage of name and are still
// mentioned after node n.  Second line of defence behind aliasGuard: it is
// asked where a write is actually translated, so it does not depend on the
// guard recognising every writing statement in advance.
func (t *tr) sharers(n ast.Node, name string) []string {
	g, ok := t.group[name]
	if !ok {
		return nil
	}
	var out []string
	for m, gm := range t.group {
		if gm == g && m != name && t.usesAfter(n, m).mentioned {
			out = append(out, m)
		}
	}
	sort.Strings(out)
	return out
}

// storageWrite: the elements of slice variable name are written in place.
// That is visible to the caller when the storage is a parameter's, and is only
// modelled when that parameter itself is a declared state output.
func (t *tr) storageWrite(n ast.Node, name string) {
	if sh := t.sharers(n, name); len(sh) > 0 {
		t.fail(n, "a write into "+name+", whose storage is shared with "+strings.Join(sh, ", ")+" (used afterwards)")
	}
	r := t.rootOf(name)
	if r == "" {
		return
	}
	if t.isState(r) {
		if r != name {
			t.fail(n, "a write into "+name+" is a write into the storage of the state output "+r+", which is not modelled")
		}
		return
	}
	// Not handed back as a state: the results of this function are still exact,
	// but the caller's slice has changed under it.  Callers are checked: what
	// they pass here must not be looked at again (dirtyArgs).
	if isSimpleIdent(r) {
		t.self.dirty[r] = true
	} else {
		t.fail(n, "a write into the storage of "+r+", which is not a declared state output")
	}
}

// dirtyArgs: the callee writes into the storage of some slice parameters
// without handing them back; the variables passed there must be dead after the
// call (their contents are no longer what this translation thinks).
func (t *tr) dirtyArgs(c *ast.CallExpr, fi *funcInfo) {
	for j, pn := range fi.sigN {
		if !fi.dirty[pn] || j >= len(c.Args) {
			continue
		}
		x := t.baseName(c.Args[j])
		if x == "" {
			continue // nil, make(...), a call result: nobody else can look at it
		}
		names := append([]string{x}, t.sharers(c, x)...)
		if t.usesAfter(c, x).mentioned {
			t.fail(c, "the callee writes into the storage of "+x+" (parameter "+pn+"), and "+x+" is used afterwards")
		} else if len(names) > 1 {
			t.fail(c, "the callee writes into the storage of "+x+" (parameter "+pn+"), shared with "+strings.Join(names[1:], ", ")+" (used afterwards)")
		}
		if r := t.rootOf(x); r != "" {
			t.storageWrite(c, x) // and it is this function's parameter in turn
		}
	}
}

// appendGuard: append(x', v...) may write into the spare capacity of the
// storage of x.  That is invisible only when nothing else can look there:
// x = append(x..., v) keeps one name; otherwise x must not be appended to or
// written again (whole x) or not be used at all (x' a part of x) afterwards.
func (t *tr) appendGuard(c *ast.CallExpr) {
	x := t.baseName(c.Args[0])
	if x == "" {
		return
	}
	if v := t.lookup(x); v != nil {
		if !isSliceT(v.typ) {
			return
		}
	} else if ps, ok := t.psrc[x]; !ok || !isSliceT(normT(ps.typ)) {
		return
	}
	t.storageWrite(c, x)
	if t.appendSelf[c] {
		return
	}
	if len(t.loopsAround(c)) > 0 {
		t.fail(c, "append to "+x+" in a loop, bound to another name: the results share storage")
		return
	}
	_, sub := unparen(c.Args[0]).(*ast.SliceExpr)
	u := t.usesAfter(c, x)
	if sub && u.mentioned {
		t.fail(c, "append to a part of "+x+" may overwrite the rest of "+x+", which is used afterwards")
	} else if !sub && u.written {
		t.fail(c, "append to "+x+" bound to another name, and "+x+" is appended to or written again: the results share storage")
	}
}

// effectTargets: the variables and states a call may rebind in this
// translation (an over-approximation; threading a value that did not change
// through a join or a loop is harmless, dropping one that did is not).
func (t *tr) effectTargets(c *ast.CallExpr) []string {
	var out []string
	args := func() {
		for _, a := range c.Args {
			if n := t.baseName(a); n != "" {
				out = append(out, n)
			}
		}
	}
	fsrc := t.p.src(c.Fun)
	if _, ok := t.cfg.externs[fsrc]; ok {
		return nil
	}
	if key, ok := t.cfg.libAlias[fsrc]; ok {
		if strings.Contains(key, ".Put") {
			args()
		}
		return out
	}
	if fi, recvSrc := t.calleeOf(c); fi != nil {
		for _, st := range fi.states {
			if want, ok := t.callerSrc(c, fi, recvSrc, st); ok {
				out = append(out, want)
			}
		}
		return out
	}
	switch f := c.Fun.(type) {
	case *ast.Ident:
		return nil // builtins and conversions (append, len, ...) rebind nothing by themselves
	case *ast.SelectorExpr:
		if ip, ok := t.importPath(f.X); ok {
			if _, ok := libFuncs[ip+"."+f.Sel.Name]; ok {
				return nil
			}
			if ip == "io" {
				out = append(out, t.states...)
				args()
			}
			return out
		}
		if s2, ok := f.X.(*ast.SelectorExpr); ok {
			if _, ok := t.importPath(s2.X); ok {
				if strings.HasPrefix(f.Sel.Name, "Put") {
					args()
				}
				return out
			}
		}
		if _, _, ok := t.objectOf(f.X); ok {
			out = append(out, t.states...)
			args()
			return out
		}
	}
	return nil
}
