package main

// Translator for shanhu.io/g/dags (property C19) -> coq/theories/Gen/DagsSrc.v
//
// Extracted from the current source:
//   - the sort orders of byLayer and byNcritOuts as key lists (gen_by_layer,
//     gen_by_ncrit);
//   - the slots LayoutMap reserves around a placed node (gen_reserve);
//   - the rules of snapNearBy (gen_snap);
//   - the normalised text of every other function the model follows
//     (gen_frozen), compared in Dag/DagGen.v with the text the model was
//     written against.
// Shapes that are not recognised are listed in gen_unknown, never dropped.

import (
	"fmt"
	"go/ast"
	"go/constant"
	"go/token"
	"path/filepath"
	"sort"
	"strconv"
	"strings"
)

func init() { register("DagsSrc", genDags) }

type dagsGen struct {
	p       *pkg
	unknown []string
}

func (d *dagsGen) unk(where string, n ast.Node) {
	d.unknown = append(d.unknown, where+": "+d.p.src(n))
}

// ---- comparators

type cmpTerm struct {
	key  string // Coq constructor
	side int    // 0: element i, 1: element j, -1: none
}

func fieldKey(field string, isLen bool) string {
	switch {
	case field == "layer" && !isLen:
		return "KLayer"
	case field == "Name" && !isLen:
		return "KName"
	case field == "CritIns" && isLen:
		return "KNCritIns"
	case field == "CritOuts" && isLen:
		return "KNCritOuts"
	}
	return ""
}

func (d *dagsGen) lessKeys(typ string) []string {
	fd := d.p.funcDecl(typ, "Less")
	if fd == nil || fd.Type.Params == nil {
		d.unknown = append(d.unknown, typ+".Less: not found")
		return []string{"(KUnknown, true)"}
	}
	var params []string
	for _, f := range fd.Type.Params.List {
		for _, n := range f.Names {
			params = append(params, n.Name)
		}
	}
	if len(params) != 2 {
		d.unk(typ+".Less params", fd.Type)
		return []string{"(KUnknown, true)"}
	}
	elems := map[string]int{}    // local variable -> side
	env := map[string]cmpTerm{} // local variable -> term
	var resolve func(e ast.Expr) (cmpTerm, bool)
	resolve = func(e ast.Expr) (cmpTerm, bool) {
		switch x := e.(type) {
		case *ast.Ident:
			t, ok := env[x.Name]
			return t, ok
		case *ast.SelectorExpr:
			id, ok := x.X.(*ast.Ident)
			if !ok {
				return cmpTerm{}, false
			}
			side, ok := elems[id.Name]
			if !ok {
				return cmpTerm{}, false
			}
			k := fieldKey(x.Sel.Name, false)
			return cmpTerm{k, side}, k != ""
		case *ast.CallExpr:
			fn, ok := x.Fun.(*ast.Ident)
			if !ok || fn.Name != "len" || len(x.Args) != 1 {
				return cmpTerm{}, false
			}
			sel, ok := x.Args[0].(*ast.SelectorExpr)
			if !ok {
				return cmpTerm{}, false
			}
			id, ok := sel.X.(*ast.Ident)
			if !ok {
				return cmpTerm{}, false
			}
			side, ok := elems[id.Name]
			if !ok {
				return cmpTerm{}, false
			}
			k := fieldKey(sel.Sel.Name, true)
			return cmpTerm{k, side}, k != ""
		}
		return cmpTerm{}, false
	}
	// cmpOf reads "X < Y" / "X > Y" as (key, less) with X on side 0.
	cmpOf := func(e ast.Expr) (string, bool, bool) {
		b, ok := e.(*ast.BinaryExpr)
		if !ok || (b.Op != token.LSS && b.Op != token.GTR) {
			return "", false, false
		}
		x, ok1 := resolve(b.X)
		y, ok2 := resolve(b.Y)
		if !ok1 || !ok2 || x.key != y.key || x.side == y.side {
			return "", false, false
		}
		less := b.Op == token.LSS
		if x.side == 1 {
			less = !less
		}
		return x.key, less, true
	}
	type ifRec struct {
		key  string
		less bool
		ret  bool
	}
	var ifs []ifRec
	var keys []string
	bad := false
	for _, st := range fd.Body.List {
		switch s := st.(type) {
		case *ast.AssignStmt:
			if len(s.Lhs) != 1 || len(s.Rhs) != 1 {
				d.unk(typ+".Less", s)
				bad = true
				continue
			}
			lhs, ok := s.Lhs[0].(*ast.Ident)
			if !ok {
				d.unk(typ+".Less", s)
				bad = true
				continue
			}
			if ix, ok := s.Rhs[0].(*ast.IndexExpr); ok {
				if id, ok := ix.Index.(*ast.Ident); ok {
					if id.Name == params[0] {
						elems[lhs.Name] = 0
						continue
					}
					if id.Name == params[1] {
						elems[lhs.Name] = 1
						continue
					}
				}
			}
			if t, ok := resolve(s.Rhs[0]); ok {
				env[lhs.Name] = t
				continue
			}
			d.unk(typ+".Less", s)
			bad = true
		case *ast.IfStmt:
			key, less, ok := cmpOf(s.Cond)
			var ret *ast.Ident
			if ok && s.Init == nil && s.Else == nil && len(s.Body.List) == 1 {
				if r, isRet := s.Body.List[0].(*ast.ReturnStmt); isRet && len(r.Results) == 1 {
					ret, _ = r.Results[0].(*ast.Ident)
				}
			}
			if ret == nil || (ret.Name != "true" && ret.Name != "false") {
				d.unk(typ+".Less", s)
				bad = true
				continue
			}
			ifs = append(ifs, ifRec{key, less, ret.Name == "true"})
		case *ast.ReturnStmt:
			if len(s.Results) == 1 {
				if key, less, ok := cmpOf(s.Results[0]); ok {
					// pending ifs must pair up before the final key
					for len(ifs) >= 2 {
						a, b := ifs[0], ifs[1]
						if a.key != b.key || a.less == b.less || a.ret == b.ret {
							break
						}
						asc := a.ret == a.less
						keys = append(keys, fmt.Sprintf("(%s, %v)", a.key, asc))
						ifs = ifs[2:]
					}
					if len(ifs) != 0 {
						d.unk(typ+".Less unpaired comparison", s)
						bad = true
					}
					keys = append(keys, fmt.Sprintf("(%s, %v)", key, less))
					continue
				}
			}
			d.unk(typ+".Less", s)
			bad = true
		default:
			d.unk(typ+".Less", st)
			bad = true
		}
	}
	if bad || len(keys) == 0 {
		keys = append(keys, "(KUnknown, true)")
	}
	return keys
}

// ---- offsets of y

// yOffset reads y, y-k, y+k (k a literal) as k.
func yOffset(e ast.Expr, yname string) (int, bool) {
	switch x := e.(type) {
	case *ast.Ident:
		return 0, x.Name == yname
	case *ast.ParenExpr:
		return yOffset(x.X, yname)
	case *ast.BinaryExpr:
		id, ok := x.X.(*ast.Ident)
		lit, ok2 := x.Y.(*ast.BasicLit)
		if !ok || !ok2 || id.Name != yname || lit.Kind != token.INT {
			return 0, false
		}
		k, err := strconv.Atoi(lit.Value)
		if err != nil {
			return 0, false
		}
		switch x.Op {
		case token.ADD:
			return k, true
		case token.SUB:
			return -k, true
		}
	}
	return 0, false
}

func dagCoqZ(k int) string { return fmt.Sprintf("(%d)%%Z", k) }

// ---- snapNearBy

func (d *dagsGen) snapRules() []string {
	fd := d.p.funcDecl("", "snapNearBy")
	if fd == nil {
		d.unknown = append(d.unknown, "snapNearBy: not found")
		return nil
	}
	yname, takName := "", ""
	if fd.Type.Params != nil && len(fd.Type.Params.List) == 2 && len(fd.Type.Params.List[1].Names) == 1 {
		takName = fd.Type.Params.List[1].Names[0].Name
	}
	var rules []string
	var conds func(e ast.Expr, out *[]string) bool
	conds = func(e ast.Expr, out *[]string) bool {
		switch x := e.(type) {
		case *ast.ParenExpr:
			return conds(x.X, out)
		case *ast.BinaryExpr:
			if x.Op != token.LAND {
				return false
			}
			return conds(x.X, out) && conds(x.Y, out)
		case *ast.UnaryExpr:
			if x.Op != token.NOT {
				return false
			}
			ix, ok := x.X.(*ast.IndexExpr)
			if !ok {
				return false
			}
			id, ok := ix.X.(*ast.Ident)
			k, ok2 := yOffset(ix.Index, yname)
			if !ok || !ok2 || id.Name != takName {
				return false
			}
			*out = append(*out, fmt.Sprintf("(%s, false)", dagCoqZ(k)))
			return true
		case *ast.IndexExpr:
			id, ok := x.X.(*ast.Ident)
			k, ok2 := yOffset(x.Index, yname)
			if !ok || !ok2 || id.Name != takName {
				return false
			}
			*out = append(*out, fmt.Sprintf("(%s, true)", dagCoqZ(k)))
			return true
		}
		return false
	}
	move := func(b *ast.BlockStmt) (int, bool) {
		if len(b.List) != 1 {
			return 0, false
		}
		switch s := b.List[0].(type) {
		case *ast.IncDecStmt:
			if d.p.src(s.X) != "n.y" {
				return 0, false
			}
			if s.Tok == token.INC {
				return 1, true
			}
			return -1, true
		case *ast.AssignStmt:
			if len(s.Lhs) != 1 || len(s.Rhs) != 1 || d.p.src(s.Lhs[0]) != "n.y" {
				return 0, false
			}
			lit, ok := s.Rhs[0].(*ast.BasicLit)
			if !ok || lit.Kind != token.INT {
				return 0, false
			}
			k, _ := strconv.Atoi(lit.Value)
			switch s.Tok {
			case token.ADD_ASSIGN:
				return k, true
			case token.SUB_ASSIGN:
				return -k, true
			}
		}
		return 0, false
	}
	for _, st := range fd.Body.List {
		switch s := st.(type) {
		case *ast.AssignStmt:
			if len(s.Lhs) == 1 && len(s.Rhs) == 1 && d.p.src(s.Rhs[0]) == "n.y" && yname == "" {
				if id, ok := s.Lhs[0].(*ast.Ident); ok {
					yname = id.Name
					continue
				}
			}
			d.unk("snapNearBy", s)
		case *ast.IfStmt:
			var cur ast.Stmt = s
			for cur != nil {
				is, ok := cur.(*ast.IfStmt)
				if !ok || is.Init != nil {
					d.unk("snapNearBy", cur)
					break
				}
				var cs []string
				mv, okm := move(is.Body)
				if !conds(is.Cond, &cs) || !okm {
					d.unk("snapNearBy", is)
					break
				}
				rules = append(rules, fmt.Sprintf("mkSnap [%s] %s", strings.Join(cs, "; "), dagCoqZ(mv)))
				cur = is.Else
			}
		default:
			d.unk("snapNearBy", st)
		}
	}
	return rules
}

// ---- LayoutMap: reserved slots, and the rest of its text

func (d *dagsGen) layoutReserve(fd *ast.FuncDecl) []string {
	var offs []string
	var strip func(b *ast.BlockStmt)
	strip = func(b *ast.BlockStmt) {
		var keep []ast.Stmt
		for _, st := range b.List {
			if as, ok := st.(*ast.AssignStmt); ok && as.Tok == token.ASSIGN && len(as.Lhs) == 1 && len(as.Rhs) == 1 {
				if ix, ok := as.Lhs[0].(*ast.IndexExpr); ok {
					if id, ok := ix.X.(*ast.Ident); ok && id.Name == "tak" && d.p.src(as.Rhs[0]) == "true" {
						if k, ok := yOffset(ix.Index, "y"); ok {
							offs = append(offs, dagCoqZ(k))
							continue
						}
						d.unk("LayoutMap reservation", st)
					}
				}
			}
			keep = append(keep, st)
		}
		b.List = keep
	}
	ast.Inspect(fd.Body, func(n ast.Node) bool {
		if b, ok := n.(*ast.BlockStmt); ok {
			strip(b)
		}
		return true
	})
	return offs
}

var dagsFrozen = []struct{ recv, name string }{
	{"", "CheckDAG"}, {"", "initMap"}, {"", "NewMap"}, {"Map", "makeLayers"},
	{"Map", "buildAlls"}, {"", "isCrit"}, {"Map", "buildCrits"},
	{"Map", "SortedNodes"}, {"Map", "SortedLayers"},
	{"", "traceCircle"}, {"", "minCircle"},
	{"", "checkPush"}, {"", "checkPushNode"}, {"", "pushWorthy"}, {"", "pushNode"}, {"", "pushTight"},
	{"", "critOutMaxLayer"}, {"", "avgCritInY"}, {"", "LayoutMap"},
	{"Graph", "Reverse"},
}

func genDags(repo string) (string, error) {
	p, err := loadPkg(filepath.Join(repo, "dags"))
	if err != nil {
		return "", err
	}
	d := &dagsGen{p: p}
	byLayer := d.lessKeys("byLayer")
	byNcrit := d.lessKeys("byNcritOuts")
	snap := d.snapRules()

	var reserve []string
	var frozen []string
	for _, f := range dagsFrozen {
		fd := p.funcDecl(f.recv, f.name)
		nm := f.name
		if f.recv != "" {
			nm = f.recv + "." + f.name
		}
		if fd == nil || fd.Body == nil {
			d.unknown = append(d.unknown, nm+": not found")
			continue
		}
		if f.name == "LayoutMap" {
			reserve = d.layoutReserve(fd)
		}
		frozen = append(frozen, fmt.Sprintf("(%s, %s)", coqStr(nm), coqStr(p.src(fd.Type)+" "+p.src(fd.Body))))
	}

	var b strings.Builder
	b.WriteString("(* Generated by gen/dags.go from /repo/dags. Do not edit. *)\n")
	b.WriteString("From Coq Require Import List ZArith String.\n")
	b.WriteString("From Verif Require Import Dag.Model Dag.Ops.\n")
	b.WriteString("Import ListNotations.\nLocal Open Scope string_scope.\n\n")
	fmt.Fprintf(&b, "Definition gen_by_layer : cmp_keys := [%s].\n", strings.Join(byLayer, "; "))
	fmt.Fprintf(&b, "Definition gen_by_ncrit : cmp_keys := [%s].\n", strings.Join(byNcrit, "; "))
	fmt.Fprintf(&b, "Definition gen_reserve : list Z := [%s].\n", strings.Join(reserve, "; "))
	fmt.Fprintf(&b, "Definition gen_snap : list snap_rule :=\n  %s.\n", coqList(snap))
	b.WriteString("Definition gen_params : lparams := mkP gen_by_layer gen_by_ncrit gen_reserve gen_snap.\n\n")
	var unk []string
	for _, u := range d.unknown {
		unk = append(unk, coqStr(u))
	}
	fmt.Fprintf(&b, "Definition gen_unknown : list string :=\n  %s.\n\n", coqList(unk))
	fmt.Fprintf(&b, "Definition gen_frozen : list (string * string) :=\n  %s.\n\n", coqList(frozen))
	fmt.Fprintf(&b, "Definition gen_findy : fy_skel :=\n  %s.\n\n", d.findYSkel())

	// every integer the package names: literals and constants above 8 (graph
	// sizes on both sides of each are worth a case)
	seen := map[int64]bool{}
	var lits []string
	addLit := func(v constant.Value) {
		if v == nil || v.Kind() != constant.Int {
			return
		}
		if x, ok := constant.Int64Val(v); ok && x > 8 && !seen[x] {
			seen[x] = true
			lits = append(lits, fmt.Sprintf("%d%%N", x))
		}
	}
	consts, _ := p.consts()
	for _, v := range consts {
		addLit(v)
	}
	for _, fn := range p.sortedFiles() {
		if strings.HasSuffix(fn, "_test.go") {
			continue
		}
		ast.Inspect(p.files[fn], func(n ast.Node) bool {
			if bl, ok := n.(*ast.BasicLit); ok && bl.Kind == token.INT {
				addLit(constant.MakeFromLiteral(bl.Value, token.INT, 0))
			}
			return true
		})
	}
	sort.Strings(lits)
	fmt.Fprintf(&b, "Definition gen_int_literals : list N := [%s].\n", strings.Join(lits, "; "))

	// Graph has no state besides Nodes, and Reverse hands back a graph built in
	// the call: a composite literal whose Nodes is a local made in the body; no
	// assignment to a field of the receiver, no return of a receiver field.
	{
		var fields []string
		for f := range p.structFields("Graph") {
			fields = append(fields, coqStr(f))
		}
		sort.Strings(fields)
		fmt.Fprintf(&b, "\nDefinition gen_graph_fields : list string := [%s].\n", strings.Join(fields, "; "))
		fresh, why := false, "Graph.Reverse not found"
		if fd := p.funcDecl("Graph", "Reverse"); fd != nil && fd.Body != nil {
			rv := recvVar(fd)
			fresh, why = true, ""
			made := map[string]bool{}
			ast.Inspect(fd.Body, func(n ast.Node) bool {
				switch x := n.(type) {
				case *ast.AssignStmt:
					for i, l := range x.Lhs {
						if id, ok := l.(*ast.Ident); ok && i < len(x.Rhs) {
							if c, ok := x.Rhs[i].(*ast.CallExpr); ok {
								if f, ok := c.Fun.(*ast.Ident); ok && f.Name == "make" {
									made[id.Name] = true
								}
							}
						}
						if sel, ok := l.(*ast.SelectorExpr); ok {
							if id, ok := sel.X.(*ast.Ident); ok && id.Name == rv {
								fresh, why = false, "writes "+p.src(l)
							}
						}
					}
				case *ast.ReturnStmt:
					ok := false
					if len(x.Results) == 1 {
						if u, isU := x.Results[0].(*ast.UnaryExpr); isU {
							if cl, isC := u.X.(*ast.CompositeLit); isC && len(cl.Elts) == 1 {
								if kv, isKV := cl.Elts[0].(*ast.KeyValueExpr); isKV {
									if id, isID := kv.Value.(*ast.Ident); isID && made[id.Name] {
										ok = true
									}
								}
							}
						}
					}
					if !ok {
						fresh, why = false, "returns "+p.src(x)
					}
				}
				return true
			})
		}
		fmt.Fprintf(&b, "Definition gen_reverse_fresh : bool * string := (%v, %s).\n", fresh, coqStr(why))
	}

	// Package-level variables of package dags (name and declared type or
	// initialiser): anything mutable here is state shared by every caller.
	{
		var vars []string
		for _, fn := range p.sortedFiles() {
			if strings.HasSuffix(fn, "_test.go") {
				continue
			}
			for _, d := range p.files[fn].Decls {
				gd, ok := d.(*ast.GenDecl)
				if !ok || gd.Tok != token.VAR {
					continue
				}
				for _, sp := range gd.Specs {
					vs := sp.(*ast.ValueSpec)
					what := ""
					if vs.Type != nil {
						what = p.src(vs.Type)
					} else if len(vs.Values) > 0 {
						what = "= " + p.src(vs.Values[0])
					}
					for _, nm := range vs.Names {
						vars = append(vars, fmt.Sprintf("(%s, %s)", coqStr(nm.Name), coqStr(what)))
					}
				}
			}
		}
		sort.Strings(vars)
		fmt.Fprintf(&b, "Definition gen_package_vars : list (string * string) := [%s].\n", strings.Join(vars, "; "))
	}
	return b.String(), nil
}

// findYSkel reads the slot probe of findY: how the offset starts, whether the
// loop has an exit condition, the guarded returns "if !tak[E] { return E }" of
// its body in order, the step, and every return that is NOT guarded by a test
// of the very slot it returns.
func (d *dagsGen) findYSkel() string {
	p := d.p
	fd := p.funcDecl("", "findY")
	if fd == nil || fd.Body == nil {
		return "(mkFY false false [] false [" + coqStr("findY not found") + "])"
	}
	squash := func(s string) string { return strings.ReplaceAll(s, " ", "") }
	initZero, unbounded, step := false, false, false
	var probes, others []string
	checked := map[*ast.ReturnStmt]bool{}
	var loop *ast.ForStmt
	for _, st := range fd.Body.List {
		switch x := st.(type) {
		case *ast.AssignStmt:
			if p.src(x) == "offset := 0" {
				initZero = true
			}
		case *ast.ForStmt:
			loop = x
		}
	}
	if loop != nil {
		unbounded = loop.Cond == nil && loop.Init == nil && loop.Post == nil
		if loop.Init != nil && p.src(loop.Init) == "offset := 0" {
			initZero = true
		}
		if loop.Post != nil && p.src(loop.Post) == "offset++" {
			step = true
		}
		for i, st := range loop.Body.List {
			switch x := st.(type) {
			case *ast.IfStmt:
				c := squash(p.src(x.Cond))
				if x.Init == nil && x.Else == nil && len(x.Body.List) == 1 && strings.HasPrefix(c, "!tak[") && strings.HasSuffix(c, "]") {
					if r, ok := x.Body.List[0].(*ast.ReturnStmt); ok && len(r.Results) == 1 &&
						squash(p.src(r.Results[0])) == c[len("!tak["):len(c)-1] {
						checked[r] = true
						switch c[len("!tak[") : len(c)-1] {
						case "yavg+offset":
							probes = append(probes, "FYPlus")
						case "yavg-offset":
							probes = append(probes, "FYMinus")
						default:
							probes = append(probes, "(FYOther "+coqStr(c)+")")
						}
						continue
					}
				}
				probes = append(probes, "(FYOther "+coqStr(p.src(x))+")")
			case *ast.IncDecStmt:
				if i == len(loop.Body.List)-1 && p.src(x) == "offset++" {
					step = true
				}
			default:
				probes = append(probes, "(FYOther "+coqStr(p.src(st))+")")
			}
		}
	}
	ast.Inspect(fd.Body, func(n ast.Node) bool {
		if r, ok := n.(*ast.ReturnStmt); ok && !checked[r] {
			others = append(others, coqStr(p.src(r)))
		}
		return true
	})
	return fmt.Sprintf("(mkFY %v %v [%s] %v [%s])", initZero, unbounded, strings.Join(probes, "; "), step, strings.Join(others, "; "))
}
