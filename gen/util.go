package main

import (
	"bytes"
	"fmt"
	"go/ast"
	"go/constant"
	"go/parser"
	"go/printer"
	"go/token"
	"os"
	"path/filepath"
	"sort"
	"strings"
)

// pkg is a parsed Go package directory (non-test, non-verif files).
type pkg struct {
	fset  *token.FileSet
	files map[string]*ast.File
	dir   string
}

func loadPkg(dir string) (*pkg, error) {
	fset := token.NewFileSet()
	ents, err := os.ReadDir(dir)
	if err != nil {
		return nil, err
	}
	p := &pkg{fset: fset, files: map[string]*ast.File{}, dir: dir}
	for _, e := range ents {
		n := e.Name()
		if !strings.HasSuffix(n, ".go") || strings.HasSuffix(n, "_test.go") {
			continue
		}
		if strings.HasPrefix(n, "verif_") {
			continue
		}
		f, err := parser.ParseFile(fset, filepath.Join(dir, n), nil, parser.ParseComments)
		if err != nil {
			return nil, err
		}
		p.files[n] = f
	}
	return p, nil
}

func (p *pkg) sortedFiles() []string {
	var ns []string
	for n := range p.files {
		ns = append(ns, n)
	}
	sort.Strings(ns)
	return ns
}

func (p *pkg) src(n ast.Node) string {
	var b bytes.Buffer
	printer.Fprint(&b, p.fset, n)
	return strings.Join(strings.Fields(b.String()), " ")
}

// funcDecl finds a function or method. recv is "" for plain functions, or the
// receiver's type name (without *).
func (p *pkg) funcDecl(recv, name string) *ast.FuncDecl {
	for _, fn := range p.sortedFiles() {
		for _, d := range p.files[fn].Decls {
			fd, ok := d.(*ast.FuncDecl)
			if !ok || fd.Name.Name != name {
				continue
			}
			if recvName(fd) == recv {
				return fd
			}
		}
	}
	return nil
}

func recvName(fd *ast.FuncDecl) string {
	if fd.Recv == nil || len(fd.Recv.List) == 0 {
		return ""
	}
	return typeName(fd.Recv.List[0].Type)
}

func typeName(e ast.Expr) string {
	switch t := e.(type) {
	case *ast.StarExpr:
		return typeName(t.X)
	case *ast.Ident:
		return t.Name
	case *ast.SelectorExpr:
		return typeName(t.X) + "." + t.Sel.Name
	}
	return ""
}

// allFuncs lists every FuncDecl in file-name then source order.
func (p *pkg) allFuncs() []*ast.FuncDecl {
	var r []*ast.FuncDecl
	for _, fn := range p.sortedFiles() {
		for _, d := range p.files[fn].Decls {
			if fd, ok := d.(*ast.FuncDecl); ok {
				r = append(r, fd)
			}
		}
	}
	return r
}

// structFields returns field name -> type source for a struct type.
func (p *pkg) structFields(name string) map[string]string {
	for _, fn := range p.sortedFiles() {
		for _, d := range p.files[fn].Decls {
			gd, ok := d.(*ast.GenDecl)
			if !ok || gd.Tok != token.TYPE {
				continue
			}
			for _, s := range gd.Specs {
				ts := s.(*ast.TypeSpec)
				if ts.Name.Name != name {
					continue
				}
				st, ok := ts.Type.(*ast.StructType)
				if !ok {
					return nil
				}
				m := map[string]string{}
				for _, f := range st.Fields.List {
					for _, n := range f.Names {
						m[n.Name] = p.src(f.Type)
					}
				}
				return m
			}
		}
	}
	return nil
}

// consts evaluates every integer/string constant declared at package level
// (with iota support). Unevaluable constants are absent from the map.
func (p *pkg) consts() (map[string]constant.Value, []string) {
	vals := map[string]constant.Value{}
	var order []string
	for _, fn := range p.sortedFiles() {
		for _, d := range p.files[fn].Decls {
			gd, ok := d.(*ast.GenDecl)
			if !ok || gd.Tok != token.CONST {
				continue
			}
			var last []ast.Expr
			for i, s := range gd.Specs {
				vs := s.(*ast.ValueSpec)
				exprs := vs.Values
				if len(exprs) == 0 {
					exprs = last
				} else {
					last = exprs
				}
				for j, n := range vs.Names {
					if j >= len(exprs) {
						continue
					}
					v := evalConst(exprs[j], vals, int64(i))
					if v != nil && n.Name != "_" {
						vals[n.Name] = v
						order = append(order, n.Name)
					}
				}
			}
		}
	}
	return vals, order
}

func evalConst(e ast.Expr, env map[string]constant.Value, iota int64) constant.Value {
	switch x := e.(type) {
	case *ast.BasicLit:
		v := constant.MakeFromLiteral(x.Value, x.Kind, 0)
		if v.Kind() == constant.Unknown {
			return nil
		}
		return v
	case *ast.Ident:
		if x.Name == "iota" {
			return constant.MakeInt64(iota)
		}
		if v, ok := env[x.Name]; ok {
			return v
		}
		return nil
	case *ast.ParenExpr:
		return evalConst(x.X, env, iota)
	case *ast.UnaryExpr:
		v := evalConst(x.X, env, iota)
		if v == nil {
			return nil
		}
		return constant.UnaryOp(x.Op, v, 0)
	case *ast.BinaryExpr:
		a := evalConst(x.X, env, iota)
		b := evalConst(x.Y, env, iota)
		if a == nil || b == nil {
			return nil
		}
		switch x.Op {
		case token.SHL, token.SHR:
			s, ok := constant.Uint64Val(b)
			if !ok {
				return nil
			}
			return constant.Shift(a, x.Op, uint(s))
		case token.QUO:
			if a.Kind() == constant.Int && b.Kind() == constant.Int {
				return constant.BinaryOp(a, token.QUO_ASSIGN, b)
			}
		}
		return constant.BinaryOp(a, x.Op, b)
	case *ast.CallExpr:
		// conversions like uint64(x), time.Duration(x)
		if len(x.Args) == 1 {
			return evalConst(x.Args[0], env, iota)
		}
	case *ast.SelectorExpr:
		// time.Second etc.
		if id, ok := x.X.(*ast.Ident); ok && id.Name == "time" {
			switch x.Sel.Name {
			case "Nanosecond":
				return constant.MakeInt64(1)
			case "Microsecond":
				return constant.MakeInt64(1e3)
			case "Millisecond":
				return constant.MakeInt64(1e6)
			case "Second":
				return constant.MakeInt64(1e9)
			case "Minute":
				return constant.MakeInt64(60e9)
			case "Hour":
				return constant.MakeInt64(3600e9)
			}
		}
	}
	return nil
}

// ---- Coq emission helpers ----

func coqStr(s string) string {
	var b strings.Builder
	b.WriteByte('"')
	for _, r := range s {
		if r == '"' {
			b.WriteString(`""`)
		} else if r < 32 || r > 126 {
			fmt.Fprintf(&b, "?")
		} else {
			b.WriteRune(r)
		}
	}
	b.WriteByte('"')
	return b.String()
}

func coqList(items []string) string {
	if len(items) == 0 {
		return "[]"
	}
	return "[ " + strings.Join(items, ";\n    ") + " ]"
}

func coqN(v constant.Value) string {
	if v == nil {
		return "0%N (* unevaluated *)"
	}
	return v.ExactString() + "%N"
}

// writeIfChanged keeps timestamps stable so that make stays incremental.
func writeIfChanged(path string, content string) error {
	old, err := os.ReadFile(path)
	if err == nil && string(old) == content {
		return nil
	}
	if err := os.MkdirAll(filepath.Dir(path), 0o755); err != nil {
		return err
	}
	return os.WriteFile(path, []byte(content), 0o644)
}
