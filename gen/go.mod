module verifgen

go 1.21
