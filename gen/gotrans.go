package main

// gotrans: a Go -> Gallina translator for small pure decision functions
// (shallow embedding).  One Go function body becomes one executable Coq
// definition `gen_<pkg>_<name>`; a lemma in coq/theories/<Area>/CodeRefine.v
// proves it equal to the hand-written model for all inputs.
//
// Only go/parser + go/ast are used (no go/types): types are read off the
// syntax (parameter declarations, literals, the tables of modelled library
// functions below).  Anything outside the supported subset makes the whole
// definition a `go_unknown` value (GoUnknown "<source text>"), so that the
// refinement lemma about it cannot be stated; nothing is dropped silently.
//
// Reference semantics.  The generated definitions bind VALUES.  Where Go binds
// references the translation is either exact or refused (gotrans2.go,
// "aliasing"):
//   - slices: a second name for a storage (b := buf[:], b := buf[1:3], c := b,
//     y := append(x, v), y := f(x)) is accepted only if one of the two names
//     is never used again, or neither is written/appended to/passed to a
//     writing callee from there on (marked `(* alias-review *)`); every
//     translated in-place write (reader fill, PutUint64, a callee's state
//     output) re-checks that no other live name shares the storage; append to
//     a part of x needs x dead; a range over a slice must not write it;
//   - a parameter's storage is the caller's: writing it needs the parameter to
//     be a declared state output, or is recorded (funcInfo.dirty) and every
//     caller must not look at what it passed again;
//   - arrays are values: c := arr copies, arr[:] is a view of arr;
//   - pointers: &x of a local, *p, struct copies through pointers, method
//     values, closures (so also captured loop variables), named results,
//     defer/go are refused; fields of a pointer receiver/parameter are read
//     through pspec sources and written only as declared states; a receiver
//     or an object under a second name is refused; two objects of one kind in
//     one function are refused;
//   - maps: only read-only sets; strings and errors are immutable values;
//   - what an effectful call writes (states, buffers) is threaded through
//     every if-join and loop that contains it (effectTargets).
//
// The Coq side of every name emitted here is coq/theories/Lib/GoLib.v.

import (
	"fmt"
	"go/ast"
	"go/constant"
	"go/token"
	"path/filepath"
	"sort"
	"strconv"
	"strings"
)

// ---------------------------------------------------------------- config

// pspec names one Coq parameter of the generated definition and the Go
// expression (by normalised source text) it stands for: a plain parameter
// ("ttl"), a field read through a struct/pointer parameter ("s.ttl",
// "claims.Iat"), a projection ("code.Valid.Time()"), an impure read the
// caller performs ("now(s.TimeFunc)").  typ is Go type syntax, or "nil?"
// for the nil-ness of a pointer/slice/map expression (Coq bool, true = nil).
type pspec struct {
	src, name, typ string
}

// extern is a function the translated code calls and the model treats as
// given (a hash, net.ParseIP, a signer's check): a Section variable.
// res "nonnil?" means: the result is only ever compared with nil; the Coq
// variable returns bool (true = result is not nil).
type extern struct {
	name string
	args []string
	res  []string
}

type transCfg struct {
	coqName string            // default gen_<pkg>_<name>
	params  []pspec           // nil: derived from the signature
	externs map[string]extern // by source text of the called expression
	results []string          // nil: from the signature
	// checked: the Go panic sites of the body (index / slice out of range,
	// division by zero, short buffer of a binary.* read) are results: the
	// definition has type option R and yields None where Go would panic.
	// Without it a panic site evaluates to the opaque go_junk value.
	checked bool
	// calls: a method call (by the source text of the called expression, e.g.
	// "s.s.CheckHex") that is the translated function "<dir>|<recv>|<name>".
	// Parameters of the callee that are fields of its receiver are read from
	// the same fields of the caller's receiver expression.
	calls map[string]string
	// slice: translate a prefix of the body only.  skip lists statements (exact
	// normalised source text) that are left out; they may only declare
	// variables the translated part never reads.  The definition yields the
	// value of variable sliceVar once it has been declared; the statements
	// after that must not assign it, and the function's final return must
	// return it at position sliceRes.
	skip     []string
	sliceVar string
	sliceRes int
	// sliceEarly: the translated prefix may return before sliceVar is declared;
	// the definition then has type option T: None = "returned earlier"
	// (whatever was returned), Some v = the value of sliceVar.  No check on
	// the function's final return is made (sliceRes is ignored).
	sliceEarly bool
	// stateOut: fields of the receiver (by source text, each also a parameter)
	// that the body may assign; their final values are appended to every
	// result tuple (a method without results yields just these).
	stateOut []string
	// appendTo: a method call used as a statement (by the source text of the
	// called expression, e.g. "r.h.Write") that appends its one argument to
	// the named state (a []byte in stateOut, e.g. "r.h": everything written
	// to a hash so far).  An extern argument type "state:<src>" passes that
	// state instead of the call's own argument (which must be nil), as in
	// r.h.Sum(nil).
	appendTo map[string]string
	// res: results are in the three-valued go_res (GoOk v / GoPanic "why" /
	// GoOutOfFuel); needed for loops on fuel and for explicit panic(...).
	// fuel: the Coq expression (over the Coq names of the parameters) that
	// bounds the iterations of every non-range loop at its entry, e.g.
	// "S (List.length x_in)"; counted loops add their own count.
	res  bool
	fuel string
	// objects: abstract objects by source text ("x", "d.r") -> kind (lexer,
	// reader, writer): see gotrans2.go.  A signature parameter that is an
	// object is replaced by its state; with explicit params use the pspec type
	// "object:<kind>".
	objects map[string]string
	// typeMap: Go type syntax of this package -> a type the translator knows
	// ("*Error" -> "goerr", "[]*Error" -> "[]goerr", "*Token" -> "token").
	typeMap map[string]string
	// retField: the function returns &T{...}; the definition yields the value
	// given to this field of the literal.
	retField string
	// errLits: struct types of this package that implement error; &T{...} is
	// the error value GoErr "T" "" (its fields are not modelled).
	// libAlias: a package-level variable that names a modelled library value
	// ("endian.Uint64" -> "encoding/binary.LittleEndian.Uint64").
	errLits  map[string]bool
	libAlias map[string]string
}

// ---------------------------------------------------------------- types

const (
	tStr     = "string"
	tBytes   = "[]byte"
	tStrs    = "[]string"
	tBool    = "bool"
	tErr     = "error"
	tTime    = "time.Time"
	tDur     = "time.Duration"
	tUInt    = "untyped int"
	tURune   = "untyped rune"
	tUStr    = "untyped string"
	tUBool   = "untyped bool"
	tNil     = "untyped nil"
	tNilness = "nil?"    // Coq bool, true = nil
	tNonnil  = "nonnil?" // Coq bool, true = not nil
)

var intWrap = map[string]string{
	"int": "wrap_i64", "int64": "wrap_i64", "uint": "wrap_u64", "uint64": "wrap_u64",
	"uintptr": "wrap_u64", "int32": "wrap_i32", "uint32": "wrap_u32", "uint16": "wrap_u16",
	"uint8": "wrap_u8", tDur: "wrap_i64",
}

func isIntT(t string) bool {
	_, ok := intWrap[t]
	return ok || t == tUInt || t == tURune
}

func isUntyped(t string) bool { return strings.HasPrefix(t, "untyped ") }

func normT(t string) string {
	if m, ok := curTypeMap[t]; ok {
		return m
	}
	switch t {
	case "byte":
		return "uint8"
	case "rune":
		return "int32"
	case "[]uint8":
		return tBytes
	}
	return t
}

func (p *pkg) goType(e ast.Expr) string {
	if e == nil {
		return ""
	}
	return normT(p.src(e))
}

func coqType(t string) string {
	switch t {
	case tStr, tBytes, tUStr:
		return "list N"
	case tStrs, "[][]byte":
		return "list (list N)"
	case tBool, tNilness, tNonnil, tUBool:
		return "bool"
	case tErr:
		return "go_error"
	case tTime:
		return "Z"
	case "set":
		return "list (list N)"
	case "buffer":
		return "list N"
	case "[]rune":
		return "list Z"
	case "goerr":
		return "go_err"
	case "[]goerr":
		return "list go_err"
	case "token":
		return "(Z * list Z)%type"
	case "reader":
		return "go_reader"
	case "writer":
		return "go_writer"
	}
	if isIntT(t) {
		return "Z"
	}
	if strings.HasPrefix(t, "(") { // tuple "(a,b)"
		var cs []string
		for _, x := range splitTuple(t) {
			c := coqType(x)
			if c == "" {
				return ""
			}
			cs = append(cs, c)
		}
		return "(" + strings.Join(cs, " * ") + ")%type"
	}
	return ""
}

func tupleT(ts []string) string {
	if len(ts) == 1 {
		return ts[0]
	}
	return "(" + strings.Join(ts, ",") + ")"
}

func splitTuple(t string) []string {
	if !strings.HasPrefix(t, "(") {
		return []string{t}
	}
	return strings.Split(t[1:len(t)-1], ",")
}

// ---------------------------------------------------------------- tables

type libFn struct {
	coq      string
	args     []string // Go types; a last "...string" collects the rest into a list
	res      string   // Go type or tuple
	errKind  string   // error constructors: GoErr kind, first argument = message template
	annotate bool
	minLen   int // the (only) argument must have at least this many bytes, else Go panics
}

// by import path + "." + name
var libFuncs = map[string]libFn{
	"strings.HasPrefix":           {coq: "strings_HasPrefix", args: []string{tStr, tStr}, res: tBool},
	"strings.HasSuffix":           {coq: "strings_HasSuffix", args: []string{tStr, tStr}, res: tBool},
	"strings.TrimPrefix":          {coq: "strings_TrimPrefix", args: []string{tStr, tStr}, res: tStr},
	"strings.TrimSuffix":          {coq: "strings_TrimSuffix", args: []string{tStr, tStr}, res: tStr},
	"strings.Contains":            {coq: "strings_Contains", args: []string{tStr, tStr}, res: tBool},
	"strings.Fields":              {coq: "strings_Fields", args: []string{tStr}, res: tStrs},
	"shanhu.io/g/strutil.MakeSet": {coq: "strutil_MakeSet", args: []string{tStrs}, res: "set"},

	"path.Clean":              {coq: "path_Clean", args: []string{tStr}, res: tStr},
	"path.Join":               {coq: "path_Join", args: []string{"...string"}, res: tStr},
	"path.IsAbs":              {coq: "path_IsAbs", args: []string{tStr}, res: tBool},
	"path/filepath.Clean":     {coq: "filepath_Clean", args: []string{tStr}, res: tStr},
	"path/filepath.Join":      {coq: "filepath_Join", args: []string{"...string"}, res: tStr},
	"path/filepath.IsAbs":     {coq: "filepath_IsAbs", args: []string{tStr}, res: tBool},
	"path/filepath.Dir":       {coq: "filepath_Dir", args: []string{tStr}, res: tStr},
	"path/filepath.FromSlash": {coq: "filepath_FromSlash", args: []string{tStr}, res: tStr},
	"path/filepath.ToSlash":   {coq: "filepath_ToSlash", args: []string{tStr}, res: tStr},
	"path/filepath.Rel":       {coq: "filepath_Rel", args: []string{tStr, tStr}, res: "(string,error)"},

	"bytes.Equal":                       {coq: "bytes_Equal", args: []string{tBytes, tBytes}, res: tBool},
	"crypto/hmac.Equal":                 {coq: "hmac_Equal", args: []string{tBytes, tBytes}, res: tBool},
	"crypto/subtle.ConstantTimeCompare": {coq: "subtle_ConstantTimeCompare", args: []string{tBytes, tBytes}, res: "int"},
	"encoding/hex.EncodeToString":       {coq: "hex_EncodeToString", args: []string{tBytes}, res: tStr},
	"encoding/hex.DecodeString":         {coq: "hex_DecodeString", args: []string{tStr}, res: "([]byte,error)"},

	"time.Unix": {coq: "time_Unix", args: []string{"int64", "int64"}, res: tTime},

	"fmt.Errorf":                         {errKind: "fmt.Errorf"},
	"errors.New":                         {errKind: "errors.New"},
	"shanhu.io/g/errcode.Unauthorizedf":  {errKind: "Unauthorized"},
	"shanhu.io/g/errcode.Internalf":      {errKind: "Internal"},
	"shanhu.io/g/errcode.InvalidArgf":    {errKind: "InvalidArg"},
	"shanhu.io/g/errcode.NotFoundf":      {errKind: "NotFound"},
	"shanhu.io/g/errcode.Forbiddenf":     {errKind: "Forbidden"},
	"shanhu.io/g/errcode.TimeOutf":       {errKind: "TimeOut"},
	"shanhu.io/g/errcode.IsNotFound":     {coq: "errcode_Is \"NotFound\"", args: []string{tErr}, res: tBool},
	"shanhu.io/g/errcode.IsInvalidArg":   {coq: "errcode_Is \"InvalidArg\"", args: []string{tErr}, res: tBool},
	"shanhu.io/g/errcode.IsInternal":     {coq: "errcode_Is \"Internal\"", args: []string{tErr}, res: tBool},
	"shanhu.io/g/errcode.IsUnauthorized": {coq: "errcode_Is \"Unauthorized\"", args: []string{tErr}, res: tBool},
	"shanhu.io/g/errcode.Annotate":       {annotate: true},
	"shanhu.io/g/errcode.Annotatef":      {annotate: true},
}

// methods by receiver Go type + "." + name
var libMethods = map[string]libFn{
	"time.Time.Add":      {coq: "time_Add", args: []string{tDur}, res: tTime},
	"time.Time.Sub":      {coq: "time_Sub", args: []string{tTime}, res: tDur},
	"time.Time.Before":   {coq: "time_Before", args: []string{tTime}, res: tBool},
	"time.Time.After":    {coq: "time_After", args: []string{tTime}, res: tBool},
	"time.Time.Equal":    {coq: "time_Equal", args: []string{tTime}, res: tBool},
	"time.Time.UnixNano": {coq: "time_UnixNano", args: nil, res: "int64"},
	"time.Time.Unix":     {coq: "time_UnixSec", args: nil, res: "int64"},
}

// chained selectors that denote library functions: source text -> entry
var libChains = map[string]libFn{
	"encoding/binary.LittleEndian.Uint64":           {coq: "binary_LE_Uint64", args: []string{tBytes}, res: "uint64", minLen: 8},
	"encoding/binary.LittleEndian.Uint32":           {coq: "binary_LE_Uint32", args: []string{tBytes}, res: "uint32", minLen: 4},
	"encoding/binary.LittleEndian.Uint16":           {coq: "binary_LE_Uint16", args: []string{tBytes}, res: "uint16", minLen: 2},
	"encoding/base64.RawURLEncoding.EncodeToString": {coq: "base64_RawURL_EncodeToString", args: []string{tBytes}, res: tStr},
	"encoding/base64.RawURLEncoding.DecodeString":   {coq: "base64_RawURL_DecodeString", args: []string{tStr}, res: "([]byte,error)"},
}

type cval struct {
	v constant.Value
	t string
}

// constants of imported packages, by import path + "." + name
var libConsts = map[string]cval{
	"time.Nanosecond":         {constant.MakeInt64(1), tDur},
	"time.Microsecond":        {constant.MakeInt64(1e3), tDur},
	"time.Millisecond":        {constant.MakeInt64(1e6), tDur},
	"time.Second":             {constant.MakeInt64(1e9), tDur},
	"time.Minute":             {constant.MakeInt64(60e9), tDur},
	"time.Hour":               {constant.MakeInt64(3600e9), tDur},
	"path/filepath.Separator": {constant.MakeInt64('/'), tURune},
	"os.PathSeparator":        {constant.MakeInt64('/'), tURune},
	"crypto/sha256.Size":      {constant.MakeInt64(32), tUInt},
	"crypto/sha1.Size":        {constant.MakeInt64(20), tUInt},
	"unicode.MaxRune":         {constant.MakeInt64(0x10FFFF), tURune},
	"math.MaxInt64":           {constant.MakeInt64(1<<63 - 1), tUInt},
	"math.MaxInt32":           {constant.MakeInt64(1<<31 - 1), tUInt},
	"math.MaxUint16":          {constant.MakeInt64(1<<16 - 1), tUInt},
	"math.MaxUint8":           {constant.MakeInt64(255), tUInt},
}

// package-level error values of imported packages
var libErrVars = map[string]bool{"io.EOF": true, "io.ErrUnexpectedEOF": true}

var coqReserved = map[string]bool{
	"fix": true, "match": true, "end": true, "in": true, "fun": true, "let": true, "if": true,
	"then": true, "else": true, "return": true, "as": true, "at": true, "with": true, "forall": true,
	"exists": true, "Type": true, "Prop": true, "Set": true, "cofix": true, "using": true, "where": true,
	"for": true, "struct": true, "mod": true, "true": true, "false": true, "nil": true, "cons": true,
	"Some": true, "None": true, "negb": true, "andb": true, "orb": true, "fst": true, "snd": true,
	"app": true, "length": true, "map": true, "rev": true, "firstn": true, "skipn": true, "nth": true,
	"clean": true, "slash": true, "N": true, "Z": true, "list": true, "option": true, "pair": true,
	"tt": true, "unit": true, "bool": true, "nat": true, "S": true, "O": true, "I": true, "eq": true,
	"id": true, "not": true, "and": true, "or": true, "by": true, "of": true, "do": true, "is": true,
}

// ---------------------------------------------------------------- generator state

type funcInfo struct {
	coq     string
	psrcs   []string // source expression of each Coq parameter (in the callee)
	mode    int      // modePlain / modeOption / modeRes
	states  []string // sources of the state values appended to the results
	recv    string   // name of the receiver variable
	sigN    []string // names of the signature's parameters
	params  []string // Go types of the Coq parameters (after flattening)
	res     string   // Go type or tuple
	ok      bool
	externs []string        // Section variables used (in order), also passed by callers
	dirty   map[string]bool // slice parameters (not states) whose storage the body writes: a caller
	// must not look at what it passed there again
}

type codeGen struct {
	repo    string
	area    string
	pkgs    map[string]*pkg
	funcs   map[string]*funcInfo // "<dir>|<recv>|<name>"
	consts  []string             // emitted constant definitions
	constOK map[string]bool
	externs []extern // Section variables in first-use order
	externI map[string]bool
	defs    []string
	names   []string // names of emitted definitions (for the unfold hints)
}

func newCodeGen(repo, area string) *codeGen {
	return &codeGen{repo: repo, area: area, pkgs: map[string]*pkg{}, funcs: map[string]*funcInfo{},
		constOK: map[string]bool{}, externI: map[string]bool{}}
}

func (g *codeGen) pkg(dir string) (*pkg, error) {
	if p, ok := g.pkgs[dir]; ok {
		return p, nil
	}
	p, err := loadPkg(filepath.Join(g.repo, dir))
	if err != nil {
		return nil, err
	}
	g.pkgs[dir] = p
	return p, nil
}

func pkgShort(p *pkg) string {
	for _, fn := range p.sortedFiles() {
		return p.files[fn].Name.Name
	}
	return filepath.Base(p.dir)
}

// ---------------------------------------------------------------- translator

type lvar struct {
	coq     string
	typ     string
	isArray bool // a Go array ([k]byte): a value, not a reference; arr[:] is a view of it
}

type kont struct {
	fall func() string
	brk  func() string
	cont func() string
	rty  string // Coq type of what this continuation context yields ("" = the function's result)
}

type tr struct {
	g           *codeGen
	p           *pkg
	file        *ast.File
	fd          *ast.FuncDecl
	cfg         transCfg
	imports     map[string]string // local name -> import path
	scopes      []map[string]*lvar
	lconsts     []map[string]cval
	used        map[string]bool
	psrc        map[string]pspec
	self        *funcInfo
	isParam     map[string]bool        // every parameter / receiver-field source name
	group       map[string]int         // variables that may share one storage have one group number
	roots       map[string]string      // variable -> the parameter whose storage it may share
	appendSelf  map[*ast.CallExpr]bool // x = append(x..., v): one name before and after
	pnil        map[string]pspec
	res         []string
	bad         []string
	nloop       int
	pkgc        map[string]constant.Value
	sliceRet    *ast.ReturnStmt
	states      []string          // cfg.stateOut + the state of the abstract objects
	objects     map[string]string // source text -> kind
	pending     []string          // state updates caused by the expression just translated (MakeToken)
	lifted      []string          // loops lifted into Fixpoints, in dependency order
	liftedNames []string
	outerFuel   []string
	coqName     string
	where       string
	guards      []string // checked mode: conditions under which the expressions read so far do not panic
}

func (t *tr) guard(c string) {
	if t.cfg.checked || t.cfg.res {
		t.guards = append(t.guards, c)
	}
}

func (t *tr) takeGuards() []string {
	g := t.guards
	t.guards = nil
	return g
}

// curPanic is what a failed guard evaluates to in the function being translated.
var curPanic = "None (* panic *)"

// curTypeMap is transCfg.typeMap of the function being translated.
var curTypeMap map[string]string

func wrapG(gs []string, code string) string {
	gs = dedup(gs)
	if len(gs) == 0 {
		return code
	}
	return "if " + strings.Join(gs, " && ") + "\nthen " + indent(code) + "\nelse " + curPanic
}

func (t *tr) fail(n ast.Node, why string) {
	src := why
	if n != nil {
		src = why + ": " + t.p.src(n)
	}
	if len(src) > 300 {
		src = src[:300] + "..."
	}
	t.bad = append(t.bad, src)
}

func (t *tr) push() {
	t.scopes = append(t.scopes, map[string]*lvar{})
	t.lconsts = append(t.lconsts, map[string]cval{})
}

func (t *tr) pop() {
	t.scopes = t.scopes[:len(t.scopes)-1]
	t.lconsts = t.lconsts[:len(t.lconsts)-1]
}

type snap struct {
	scopes  []map[string]*lvar
	lconsts []map[string]cval
}

func (t *tr) snapshot() snap {
	var s snap
	for _, m := range t.scopes {
		c := map[string]*lvar{}
		for k, v := range m {
			vv := *v
			c[k] = &vv
		}
		s.scopes = append(s.scopes, c)
	}
	for _, m := range t.lconsts {
		c := map[string]cval{}
		for k, v := range m {
			c[k] = v
		}
		s.lconsts = append(s.lconsts, c)
	}
	return s
}

// later wraps a continuation so that it is translated in the scope that is
// current NOW (not the scope of the place it is called from).
func (t *tr) later(f func() string) func() string {
	s := t.snapshot()
	done, memo := false, ""
	return func() string {
		// the text of a continuation depends only on the scope it was created in: translate it once
		// (loops lifted out of it are then lifted once, too)
		if done {
			return memo
		}
		defer func() { done = true }()
		cur := snap{t.scopes, t.lconsts}
		tmp := tr{scopes: s.scopes, lconsts: s.lconsts}
		cp := tmp.snapshot()
		t.scopes, t.lconsts = cp.scopes, cp.lconsts
		r := f()
		t.scopes, t.lconsts = cur.scopes, cur.lconsts
		memo = r
		return r
	}
}

func (t *tr) lookup(name string) *lvar {
	for i := len(t.scopes) - 1; i >= 0; i-- {
		if v, ok := t.scopes[i][name]; ok {
			return v
		}
		if _, ok := t.lconsts[i][name]; ok {
			return nil
		}
	}
	return nil
}

func (t *tr) lookupConst(name string) (cval, bool) {
	for i := len(t.scopes) - 1; i >= 0; i-- {
		if _, ok := t.scopes[i][name]; ok {
			return cval{}, false
		}
		if c, ok := t.lconsts[i][name]; ok {
			return c, true
		}
	}
	return cval{}, false
}

func (t *tr) fresh(base string) string {
	n := base
	if coqReserved[n] || strings.Contains(n, "__") || strings.HasPrefix(n, "gen_") ||
		strings.HasPrefix(n, "go_") || strings.HasPrefix(n, "wrap_") || t.isGlobalName(n) {
		n = n + "_"
	}
	c := n
	for i := 2; t.used[c]; i++ {
		c = fmt.Sprintf("%s_%d", n, i)
	}
	t.used[c] = true
	return c
}

func (t *tr) isGlobalName(n string) bool {
	for _, f := range libFuncs {
		if f.coq == n {
			return true
		}
	}
	for _, f := range libMethods {
		if f.coq == n {
			return true
		}
	}
	for _, e := range t.cfg.externs {
		if e.name == n {
			return true
		}
	}
	return false
}

// declare binds a Go name in the current scope and returns its Coq name.
func (t *tr) declare(name, typ string) string {
	if name == "_" {
		return "_"
	}
	c := t.fresh(name)
	t.scopes[len(t.scopes)-1][name] = &lvar{coq: c, typ: typ}
	return c
}

func indent(s string) string {
	return strings.ReplaceAll(s, "\n", "\n  ")
}

// ---------------------------------------------------------------- constants

func (t *tr) importPath(x ast.Expr) (string, bool) {
	id, ok := x.(*ast.Ident)
	if !ok {
		return "", false
	}
	if t.lookup(id.Name) != nil {
		return "", false
	}
	if _, ok := t.lookupConst(id.Name); ok {
		return "", false
	}
	ip, ok := t.imports[id.Name]
	return ip, ok
}

var convTypes = map[string]bool{"int": true, "int64": true, "uint64": true, "uint": true, "int32": true,
	"uint32": true, "uint16": true, "uint8": true, "byte": true, "rune": true, "string": true}

// constOf evaluates a constant expression (nil if it is not one).
func (t *tr) constOf(e ast.Expr) *cval {
	switch x := e.(type) {
	case *ast.BasicLit:
		v := constant.MakeFromLiteral(x.Value, x.Kind, 0)
		switch x.Kind {
		case token.INT:
			return &cval{v, tUInt}
		case token.CHAR:
			return &cval{v, tURune}
		case token.STRING:
			return &cval{v, tUStr}
		}
		return nil
	case *ast.ParenExpr:
		return t.constOf(x.X)
	case *ast.Ident:
		if t.lookup(x.Name) != nil {
			return nil
		}
		if c, ok := t.lookupConst(x.Name); ok {
			return &c
		}
		switch x.Name {
		case "true":
			return &cval{constant.MakeBool(true), tUBool}
		case "false":
			return &cval{constant.MakeBool(false), tUBool}
		}
		if v, ok := t.pkgc[x.Name]; ok {
			return &cval{v, t.pkgConstType(x.Name, v)}
		}
		return nil
	case *ast.SelectorExpr:
		if ip, ok := t.importPath(x.X); ok {
			if c, ok := libConsts[ip+"."+x.Sel.Name]; ok {
				return &c
			}
		}
		return nil
	case *ast.UnaryExpr:
		a := t.constOf(x.X)
		if a == nil {
			return nil
		}
		switch x.Op {
		case token.SUB, token.ADD:
			if a.v.Kind() != constant.Int {
				return nil
			}
			return &cval{constant.UnaryOp(x.Op, a.v, 0), a.t}
		case token.NOT:
			if a.v.Kind() != constant.Bool {
				return nil
			}
			return &cval{constant.UnaryOp(x.Op, a.v, 0), a.t}
		}
		return nil
	case *ast.BinaryExpr:
		a, b := t.constOf(x.X), t.constOf(x.Y)
		if a == nil || b == nil {
			return nil
		}
		rt := a.t
		if isUntyped(rt) {
			rt = b.t
		}
		switch x.Op {
		case token.ADD, token.SUB, token.MUL:
			if a.v.Kind() == constant.String && b.v.Kind() == constant.String && x.Op == token.ADD {
				return &cval{constant.BinaryOp(a.v, x.Op, b.v), rt}
			}
			if a.v.Kind() != constant.Int || b.v.Kind() != constant.Int {
				return nil
			}
			return &cval{constant.BinaryOp(a.v, x.Op, b.v), rt}
		case token.QUO:
			if a.v.Kind() != constant.Int || b.v.Kind() != constant.Int || constant.Sign(b.v) == 0 {
				return nil
			}
			return &cval{constant.BinaryOp(a.v, token.QUO_ASSIGN, b.v), rt}
		case token.SHL:
			s, ok := constant.Uint64Val(b.v)
			if !ok || a.v.Kind() != constant.Int || s > 200 {
				return nil
			}
			return &cval{constant.Shift(a.v, x.Op, uint(s)), a.t}
		}
		return nil
	case *ast.CallExpr:
		if len(x.Args) != 1 {
			return nil
		}
		a := t.constOf(x.Args[0])
		if a == nil {
			return nil
		}
		ty := normT(t.p.src(x.Fun))
		if id, ok := x.Fun.(*ast.Ident); ok && convTypes[id.Name] && t.lookup(id.Name) == nil {
			if ty == tStr {
				if a.v.Kind() == constant.Int {
					r, ok := constant.Int64Val(a.v)
					if !ok {
						return nil
					}
					return &cval{constant.MakeString(string(rune(r))), tStr}
				}
				if a.v.Kind() == constant.String {
					return &cval{a.v, tStr}
				}
				return nil
			}
			if a.v.Kind() != constant.Int {
				return nil
			}
			return &cval{a.v, ty} // a constant conversion that overflows does not compile in Go
		}
		if sel, ok := x.Fun.(*ast.SelectorExpr); ok {
			if ip, ok := t.importPath(sel.X); ok && ip == "time" && sel.Sel.Name == "Duration" && a.v.Kind() == constant.Int {
				return &cval{a.v, tDur}
			}
		}
		return nil
	}
	return nil
}

// pkgConstType: the declared type of a package constant, or untyped.
func (t *tr) pkgConstType(name string, v constant.Value) string {
	for _, fn := range t.p.sortedFiles() {
		for _, d := range t.p.files[fn].Decls {
			gd, ok := d.(*ast.GenDecl)
			if !ok || gd.Tok != token.CONST {
				continue
			}
			var lastT ast.Expr
			for _, s := range gd.Specs {
				vs := s.(*ast.ValueSpec)
				if vs.Type != nil || len(vs.Values) > 0 {
					lastT = vs.Type
				}
				for _, n := range vs.Names {
					if n.Name == name && lastT != nil {
						return t.p.goType(lastT)
					}
				}
			}
		}
	}
	switch v.Kind() {
	case constant.String:
		return tUStr
	case constant.Bool:
		return tUBool
	}
	return tUInt
}

func coqBytesC(s string) string {
	c := strings.NewReplacer("*)", "* )", "(*", "( *", "\"", "'", "\n", " ").Replace(s)
	var b strings.Builder
	for _, r := range c {
		if r < 32 || r > 126 {
			b.WriteByte('?')
		} else {
			b.WriteRune(r)
		}
	}
	return "(" + coqBytes(s) + "%N : list N) (* " + b.String() + " *)"
}

func constLit(c cval) (string, bool) {
	switch c.v.Kind() {
	case constant.Int:
		s := c.v.ExactString()
		return "(" + s + ")", true
	case constant.String:
		return coqBytesC(constant.StringVal(c.v)), true
	case constant.Bool:
		if constant.BoolVal(c.v) {
			return "true", true
		}
		return "false", true
	}
	return "", false
}

// ---------------------------------------------------------------- expressions

func (t *tr) expr(e ast.Expr) (string, string) {
	// parameters named by source text (fields, projections, impure reads)
	src := t.p.src(e)
	if ps, ok := t.psrc[src]; ok {
		if _, isId := e.(*ast.Ident); !isId || t.lookup(src) == nil {
			if v := t.lookup(src); v != nil {
				return v.coq, v.typ
			}
			return ps.name, normT(ps.typ)
		}
	}
	// named package constants keep their name
	if id, ok := e.(*ast.Ident); ok && t.lookup(id.Name) == nil {
		if _, lc := t.lookupConst(id.Name); !lc {
			if v, ok := t.pkgc[id.Name]; ok {
				ty := t.pkgConstType(id.Name, v)
				return t.g.emitConst(t.p, id.Name, cval{v, ty}), ty
			}
		}
	}
	if c := t.constOf(e); c != nil {
		if s, ok := constLit(*c); ok {
			return s, c.t
		}
	}
	switch x := e.(type) {
	case *ast.ParenExpr:
		return t.expr(x.X)
	case *ast.Ident:
		if v := t.lookup(x.Name); v != nil {
			return v.coq, v.typ
		}
		if x.Name == "nil" {
			return "None", tNil
		}
		if t.isPkgErrVar(x.Name) {
			return fmt.Sprintf("(Some (GoErr \"var\" %s))", coqStr(x.Name)), tErr
		}
		t.fail(e, "unknown identifier")
		return "GoUnknown", "?"
	case *ast.BasicLit:
		t.fail(e, "literal")
		return "GoUnknown", "?"
	case *ast.UnaryExpr:
		if x.Op == token.AND {
			if cl, ok := x.X.(*ast.CompositeLit); ok && t.cfg.errLits[t.p.src(cl.Type)] {
				for _, el := range cl.Elts {
					if kv, ok := el.(*ast.KeyValueExpr); ok {
						t.expr(kv.Value)
					} else {
						t.expr(el)
					}
				}
				return fmt.Sprintf("(Some (GoErr %s \"\"))", coqStr(t.p.src(cl.Type))), tErr
			}
		}
		a, ty := t.expr(x.X)
		switch x.Op {
		case token.NOT:
			if ty != tBool && ty != tUBool {
				t.fail(e, "! on non-bool")
			}
			return "(negb " + a + ")", tBool
		case token.SUB:
			if !isIntT(ty) {
				t.fail(e, "- on non-integer")
			}
			return t.wrap(ty, "(- "+a+")"), ty
		case token.ADD:
			return a, ty
		}
		t.fail(e, "unary operator")
		return "GoUnknown", "?"
	case *ast.BinaryExpr:
		return t.binary(x)
	case *ast.CallExpr:
		return t.call(x)
	case *ast.SelectorExpr:
		if ip, ok := t.importPath(x.X); ok {
			k := filepath.Base(ip) + "." + x.Sel.Name
			if libErrVars[k] {
				return fmt.Sprintf("(Some (GoErr \"var\" %s))", coqStr(k)), tErr
			}
		}
		t.fail(e, "selector")
		return "GoUnknown", "?"
	case *ast.IndexExpr:
		a, ta := t.expr(x.X)
		i, ti := t.expr(x.Index)
		if (ta != tStr && ta != tBytes) || !isIntT(ti) {
			t.fail(e, "index expression")
		}
		t.guard("(go_index_ok " + a + " " + i + ")")
		return "(go_index " + a + " " + i + ")", "uint8"
	case *ast.SliceExpr:
		a, ta := t.expr(x.X)
		if (ta != tStr && ta != tBytes && ta != tStrs) || x.Slice3 {
			t.fail(e, "slice expression")
		}
		if x.Low == nil && x.High == nil {
			return a, ta // x[:] has the elements of x (and shares its storage: see aliasGuard)
		}
		lo, hi := "0", "(go_len "+a+")"
		if x.Low != nil {
			l, tl := t.expr(x.Low)
			if !isIntT(tl) {
				t.fail(e, "slice bound")
			}
			lo = l
		}
		if x.High != nil {
			h, th := t.expr(x.High)
			if !isIntT(th) {
				t.fail(e, "slice bound")
			}
			hi = h
		}
		t.guard("(go_slice_ok " + a + " " + lo + " " + hi + ")")
		return "(go_slice " + a + " " + lo + " " + hi + ")", ta
	case *ast.CompositeLit:
		at, ok := x.Type.(*ast.ArrayType)
		if ok && at.Len == nil {
			et := t.p.goType(at.Elt)
			if et == tStr {
				var items []string
				for _, el := range x.Elts {
					items = append(items, t.exprAs(el, tStr))
				}
				return "[" + strings.Join(items, ";\n    ") + "]", tStrs
			}
			if et == "uint8" {
				var items []string
				for _, el := range x.Elts {
					items = append(items, "Z.to_N "+t.exprAs(el, "uint8"))
				}
				return "[" + strings.Join(items, "; ") + "]", tBytes
			}
		}
		t.fail(e, "composite literal")
		return "GoUnknown", "?"
	}
	t.fail(e, "expression")
	return "GoUnknown", "?"
}

func (t *tr) wrap(ty, s string) string {
	if w, ok := intWrap[ty]; ok {
		return "(" + w + " " + s + ")"
	}
	return s
}

// exprAs translates e where a value of Go type want is expected.
func (t *tr) exprAs(e ast.Expr, want string) string {
	want = normT(want)
	s, got := t.expr(e)
	if want == "" || got == want || got == "?" {
		return s
	}
	switch got {
	case tNil:
		switch want {
		case tErr:
			return "None"
		case tBytes, tStrs:
			return "[]"
		}
	case tUInt, tURune:
		if isIntT(want) {
			return s
		}
	case tUStr:
		if want == tStr {
			return s
		}
	case tUBool:
		if want == tBool {
			return s
		}
	case "int32":
		if want == tURune {
			return s
		}
	}
	t.fail(e, "type "+got+" where "+want+" is expected")
	return s
}

func (t *tr) binary(x *ast.BinaryExpr) (string, string) {
	// comparisons with nil
	if x.Op == token.EQL || x.Op == token.NEQ {
		var other ast.Expr
		if isIdent(x.Y, "nil") && t.lookup("nil") == nil {
			other = x.X
		} else if isIdent(x.X, "nil") && t.lookup("nil") == nil {
			other = x.Y
		}
		if other != nil {
			var isnil string
			if ps, ok := t.pnil[t.p.src(other)]; ok {
				isnil = ps.name
			} else {
				a, ta := t.expr(other)
				switch ta {
				case tErr:
					isnil = "(go_isnil " + a + ")"
				case tNonnil:
					isnil = "(negb " + a + ")"
				default:
					t.fail(x, "comparison with nil")
					return "GoUnknown", tBool
				}
			}
			if x.Op == token.NEQ {
				if strings.HasPrefix(isnil, "(negb ") {
					return strings.TrimSuffix(strings.TrimPrefix(isnil, "(negb "), ")"), tBool
				}
				return "(negb " + isnil + ")", tBool
			}
			return isnil, tBool
		}
	}
	if x.Op == token.EQL || x.Op == token.NEQ {
		// comparison of an error with a sentinel error value (io.EOF)
		isSentinel := func(e ast.Expr) bool {
			sel, ok := e.(*ast.SelectorExpr)
			if !ok {
				return false
			}
			ip, ok := t.importPath(sel.X)
			return ok && libErrVars[filepath.Base(ip)+"."+sel.Sel.Name]
		}
		if isSentinel(x.X) || isSentinel(x.Y) {
			a := t.exprAs(x.X, tErr)
			b := t.exprAs(x.Y, tErr)
			r := "(opt_eqb go_err_eqb " + a + " " + b + ")"
			if x.Op == token.NEQ {
				r = "(negb " + r + ")"
			}
			return r, tBool
		}
	}
	a, ta := t.expr(x.X)
	g0 := len(t.guards)
	b, tb := t.expr(x.Y)
	// the right operand of && / || is only evaluated (and can only panic) when the left one lets it
	for i := g0; i < len(t.guards); i++ {
		switch x.Op {
		case token.LAND:
			t.guards[i] = "(negb " + a + " || " + t.guards[i] + ")"
		case token.LOR:
			t.guards[i] = "(" + a + " || " + t.guards[i] + ")"
		}
	}
	ty := ta
	if isUntyped(ta) {
		ty = tb
	}
	if !isUntyped(ta) && !isUntyped(tb) && ta != tb && ta != "?" && tb != "?" {
		t.fail(x, "operands of types "+ta+" and "+tb)
	}
	isS := ty == tStr || ty == tUStr
	isB := ty == tBool || ty == tUBool
	isI := isIntT(ty) || ty == tTime && (x.Op == token.EQL || x.Op == token.NEQ)
	switch x.Op {
	case token.LAND:
		if !isB {
			t.fail(x, "&& on non-bool")
		}
		return "(" + a + " && " + b + ")", tBool
	case token.LOR:
		if !isB {
			t.fail(x, "|| on non-bool")
		}
		return "(" + a + " || " + b + ")", tBool
	case token.EQL, token.NEQ:
		var r string
		switch {
		case isS:
			r = "(go_str_eqb " + a + " " + b + ")"
		case isB:
			r = "(Bool.eqb " + a + " " + b + ")"
		case isI && ty != tTime:
			r = "(" + a + " =? " + b + ")"
		default:
			t.fail(x, "== on type "+ty)
			r = "GoUnknown"
		}
		if x.Op == token.NEQ {
			r = "(negb " + r + ")"
		}
		return r, tBool
	case token.LSS, token.LEQ, token.GTR, token.GEQ:
		if isS {
			switch x.Op {
			case token.LSS:
				return "(go_str_ltb " + a + " " + b + ")", tBool
			case token.GTR:
				return "(go_str_ltb " + b + " " + a + ")", tBool
			case token.LEQ:
				return "(negb (go_str_ltb " + b + " " + a + "))", tBool
			default:
				return "(negb (go_str_ltb " + a + " " + b + "))", tBool
			}
		}
		if !isIntT(ty) {
			t.fail(x, "ordering on type "+ty)
		}
		op := map[token.Token]string{token.LSS: "<?", token.LEQ: "<=?", token.GTR: ">?", token.GEQ: ">=?"}[x.Op]
		return "(" + a + " " + op + " " + b + ")", tBool
	case token.ADD:
		if isS {
			return "(" + a + " ++ " + b + ")", tStr
		}
		fallthrough
	case token.SUB, token.MUL:
		if !isIntT(ty) {
			t.fail(x, "arithmetic on type "+ty)
		}
		op := map[token.Token]string{token.ADD: "+", token.SUB: "-", token.MUL: "*"}[x.Op]
		return t.wrap(ty, "("+a+" "+op+" "+b+")"), ty
	case token.QUO:
		if !isIntT(ty) {
			t.fail(x, "arithmetic on type "+ty)
		}
		t.guard("(negb (" + b + " =? 0))")
		return t.wrap(ty, "(go_quot "+a+" "+b+")"), ty
	case token.REM:
		if !isIntT(ty) {
			t.fail(x, "arithmetic on type "+ty)
		}
		t.guard("(negb (" + b + " =? 0))")
		return "(go_rem " + a + " " + b + ")", ty
	case token.AND, token.OR, token.XOR:
		if !isIntT(ty) {
			t.fail(x, "bit operation on type "+ty)
		}
		if strings.HasPrefix(ty, "int") || ty == tDur || ty == tUInt {
			// two's complement: Z.land/lor/lxor on Z agree with Go on in-range signed values
		}
		op := map[token.Token]string{token.AND: "Z.land", token.OR: "Z.lor", token.XOR: "Z.lxor"}[x.Op]
		return "(" + op + " " + a + " " + b + ")", ty
	case token.SHL:
		if !isIntT(ta) || !isIntT(tb) {
			t.fail(x, "shift")
		}
		t.guard("(0 <=? " + b + ")")
		return t.wrap(ta, "(go_shl "+a+" "+b+")"), ta
	case token.SHR:
		if !isIntT(ta) || !isIntT(tb) {
			t.fail(x, "shift")
		}
		t.guard("(0 <=? " + b + ")")
		return "(go_shr " + a + " " + b + ")", ta
	}
	t.fail(x, "binary operator")
	return "GoUnknown", "?"
}

func (t *tr) args(c *ast.CallExpr, want []string) string {
	var as []string
	for i, w := range want {
		if strings.HasPrefix(w, "state:") {
			v := t.lookup(strings.TrimPrefix(w, "state:"))
			if v == nil || i >= len(c.Args) || !isIdent(c.Args[i], "nil") {
				t.fail(c, "state argument")
				continue
			}
			as = append(as, v.coq)
			continue
		}
		if w == "...string" {
			var items []string
			for _, a := range c.Args[i:] {
				items = append(items, t.exprAs(a, tStr))
			}
			if c.Ellipsis.IsValid() {
				t.fail(c, "variadic spread")
			}
			as = append(as, "["+strings.Join(items, "; ")+"]")
			return " " + strings.Join(as, " ")
		}
		if i >= len(c.Args) {
			t.fail(c, "too few arguments")
			break
		}
		as = append(as, t.exprAs(c.Args[i], w))
	}
	if len(c.Args) > len(want) {
		t.fail(c, "too many arguments")
	}
	if len(as) == 0 {
		return ""
	}
	return " " + strings.Join(as, " ")
}

func (t *tr) call(c *ast.CallExpr) (string, string) {
	fsrc := t.p.src(c.Fun)
	if ex, ok := t.cfg.externs[fsrc]; ok {
		t.g.useExtern(ex)
		return "(" + ex.name + t.args(c, ex.args) + ")", tupleT(ex.res)
	}
	if key, ok := t.cfg.libAlias[fsrc]; ok {
		if lf, ok := libChains[key]; ok {
			return t.libCall(c, lf, "")
		}
	}
	if sel, ok := c.Fun.(*ast.SelectorExpr); ok && sel.Sel.Name == "Bytes" && len(c.Args) == 0 {
		if id, ok := sel.X.(*ast.Ident); ok {
			if v := t.lookup(id.Name); v != nil && v.typ == "buffer" {
				return v.coq, tBytes
			}
		}
	}
	if key, ok := t.cfg.calls[fsrc]; ok {
		if fi, _ := t.calleeOf(c); fi != nil && needsBind(fi) {
			t.fail(c, "a call that returns state is only translated as a statement, an assignment or a return")
			return "GoUnknown", "?"
		}
		return t.methodCall(c, key)
	}
	if sel, ok := c.Fun.(*ast.SelectorExpr); ok {
		if obj, kind, ok := t.objectOf(sel.X); ok {
			if code, ty, ok := t.objExprCall(c, obj, kind, sel.Sel.Name); ok {
				return code, ty
			}
			t.fail(c, "method "+sel.Sel.Name+" of the abstract "+kind+" is not modelled as an expression")
			return "GoUnknown", "?"
		}
	}
	switch f := c.Fun.(type) {
	case *ast.ParenExpr:
		c2 := *c
		c2.Fun = f.X
		return t.call(&c2)
	case *ast.ArrayType:
		if t.p.goType(f) == tBytes && len(c.Args) == 1 {
			a, ta := t.expr(c.Args[0])
			if ta != tStr && ta != tBytes && ta != tUStr {
				t.fail(c, "conversion to []byte")
			}
			return a, tBytes
		}
	case *ast.Ident:
		if t.lookup(f.Name) != nil {
			t.fail(c, "call of a function value")
			return "GoUnknown", "?"
		}
		switch f.Name {
		case "make":
			if len(c.Args) == 2 && t.p.goType(c.Args[0]) == tBytes {
				n, tn := t.expr(c.Args[1])
				if !isIntT(tn) {
					t.fail(c, "make length")
				}
				t.guard("(go_make_ok " + n + ")")
				return "(go_make_bytes " + n + ")", tBytes
			}
		case "append":
			if len(c.Args) == 2 {
				t.appendGuard(c)
				a, ta := t.expr(c.Args[0])
				if c.Ellipsis.IsValid() {
					b := t.exprAs(c.Args[1], ta)
					return "(" + a + " ++ " + b + ")", ta
				}
				switch ta {
				case tStrs:
					return "(" + a + " ++ [" + t.exprAs(c.Args[1], tStr) + "])", ta
				case tBytes:
					return "(" + a + " ++ [Z.to_N " + t.exprAs(c.Args[1], "uint8") + "])", ta
				case "[]rune":
					return "(" + a + " ++ [" + t.exprAs(c.Args[1], "int32") + "])", ta
				case "[]goerr":
					return "(" + a + " ++ [" + t.exprAs(c.Args[1], "goerr") + "])", ta
				}
				t.fail(c, "append to type "+ta)
				return "GoUnknown", ta
			}
		case "len":
			if len(c.Args) == 1 {
				a, ta := t.expr(c.Args[0])
				if ta == "[]rune" || ta == "[]goerr" {
					return "(go_len " + a + ")", "int"
				}
				if ta != tStr && ta != tBytes && ta != tStrs && ta != tUStr {
					t.fail(c, "len of type "+ta)
				}
				return "(go_len " + a + ")", "int"
			}
		case "string":
			if len(c.Args) == 1 {
				a, ta := t.expr(c.Args[0])
				if ta != tStr && ta != tBytes && ta != tUStr {
					t.fail(c, "conversion to string")
				}
				return a, tStr
			}
		case "int", "int64", "uint64", "uint", "int32", "uint32", "uint16", "uint8", "byte", "rune":
			if len(c.Args) == 1 {
				a, ta := t.expr(c.Args[0])
				if !isIntT(ta) {
					t.fail(c, "integer conversion of type "+ta)
				}
				ty := normT(f.Name)
				return t.wrap(ty, a), ty
			}
		}
		key := t.p.dir + "||" + f.Name
		if fi, ok := t.g.funcs[key]; ok {
			if fi.ok && needsBind(fi) {
				t.fail(c, "a call that returns state is only translated as a statement, an assignment or a return")
				return "GoUnknown", "?"
			}
			if !fi.ok {
				t.fail(c, "call of a function that was not translated")
				return "GoUnknown", fi.res
			}
			return "(" + fi.coq + t.args(c, fi.params) + ")", fi.res
		}
		t.fail(c, "call of an unknown function")
		return "GoUnknown", "?"
	case *ast.SelectorExpr:
		if ip, ok := t.importPath(f.X); ok {
			if ip == "time" && f.Sel.Name == "Duration" && len(c.Args) == 1 {
				a, ta := t.expr(c.Args[0])
				if !isIntT(ta) {
					t.fail(c, "conversion to time.Duration")
				}
				return t.wrap(tDur, a), tDur
			}
			if lf, ok := libFuncs[ip+"."+f.Sel.Name]; ok {
				return t.libCall(c, lf, "")
			}
			t.fail(c, "call of an unmodelled library function "+ip+"."+f.Sel.Name)
			return "GoUnknown", "?"
		}
		// pkg.Var.Method chains
		if s2, ok := f.X.(*ast.SelectorExpr); ok {
			if ip, ok := t.importPath(s2.X); ok {
				if lf, ok := libChains[ip+"."+s2.Sel.Name+"."+f.Sel.Name]; ok {
					return t.libCall(c, lf, "")
				}
			}
		}
		// method of a value whose type is known
		r, tr_ := t.expr(f.X)
		if lf, ok := libMethods[tr_+"."+f.Sel.Name]; ok {
			return t.libCall(c, lf, r)
		}
		t.fail(c, "method call on type "+tr_)
		return "GoUnknown", "?"
	}
	t.fail(c, "call")
	return "GoUnknown", "?"
}

// methodCall: a call of a translated method.  Arguments go to the callee's
// signature parameters by position; a callee parameter that stands for a
// field of the callee's receiver ("r.f") is read from the caller's receiver
// expression ("<recv expr>.f"), which must itself be a parameter of the caller.
func (t *tr) methodCall(c *ast.CallExpr, key string) (string, string) {
	parts := strings.SplitN(key, "|", 3)
	fi := t.g.funcs[filepath.Join(t.g.repo, parts[0])+"|"+parts[1]+"|"+parts[2]]
	if fi == nil || !fi.ok {
		t.fail(c, "call of a function that was not translated")
		return "GoUnknown", "?"
	}
	sel, ok := c.Fun.(*ast.SelectorExpr)
	if !ok {
		t.fail(c, "method call shape")
		return "GoUnknown", fi.res
	}
	recvSrc := t.p.src(sel.X)
	if c.Ellipsis.IsValid() || len(c.Args) != len(fi.sigN) {
		t.fail(c, "method call arity")
		return "GoUnknown", fi.res
	}
	t.dirtyArgs(c, fi)
	s := "(" + fi.coq
	for i, ps := range fi.psrcs {
		found := false
		for j, n := range fi.sigN {
			if n == ps {
				s += " " + t.exprAs(c.Args[j], fi.params[i])
				found = true
			}
		}
		if found {
			continue
		}
		if fi.recv != "" && strings.HasPrefix(ps, fi.recv+".") {
			want := recvSrc + strings.TrimPrefix(ps, fi.recv)
			if p2, ok := t.psrc[want]; ok && normT(p2.typ) == fi.params[i] {
				s += " " + p2.name
				continue
			}
			if p2, ok := t.pnil[want]; ok && fi.params[i] == tNilness {
				s += " " + p2.name
				continue
			}
		}
		t.fail(c, "callee parameter "+ps+" has no counterpart at the call")
	}
	return s + ")", fi.res
}

func (t *tr) libCall(c *ast.CallExpr, lf libFn, recv string) (string, string) {
	if lf.errKind != "" {
		if len(c.Args) == 0 {
			t.fail(c, "error constructor without message")
			return "GoUnknown", tErr
		}
		m := t.constOf(c.Args[0])
		if m == nil || m.v.Kind() != constant.String {
			t.fail(c, "error message is not a constant")
			return "GoUnknown", tErr
		}
		for _, a := range c.Args[1:] {
			t.expr(a) // format arguments must at least be readable
		}
		return fmt.Sprintf("(Some (GoErr %s %s))", coqStr(lf.errKind), coqStr(constant.StringVal(m.v))), tErr
	}
	if lf.annotate {
		if len(c.Args) < 2 {
			t.fail(c, "Annotate")
			return "GoUnknown", tErr
		}
		e := t.exprAs(c.Args[0], tErr)
		m := t.constOf(c.Args[1])
		if m == nil || m.v.Kind() != constant.String {
			t.fail(c, "error message is not a constant")
			return "GoUnknown", tErr
		}
		return fmt.Sprintf("(errcode_Annotate %s %s)", e, coqStr(constant.StringVal(m.v))), tErr
	}
	s := "(" + lf.coq
	if recv != "" {
		s += " " + recv
	}
	as := t.args(c, lf.args)
	if lf.minLen > 0 {
		t.guard(fmt.Sprintf("(%d <=? go_len%s)", lf.minLen, as))
	}
	return s + as + ")", lf.res
}

// ---------------------------------------------------------------- statements

func hasJump(n ast.Node) (ret, brk bool) {
	if n == nil {
		return
	}
	ast.Inspect(n, func(x ast.Node) bool {
		switch s := x.(type) {
		case *ast.ReturnStmt:
			ret = true
		case *ast.BranchStmt:
			_ = s
			brk = true
		case *ast.FuncLit:
			return false
		}
		return true
	})
	return
}

// assigned lists the variables of the enclosing scopes that the statements
// assign to (=, op=, ++/--), in order of first assignment.
func (t *tr) assigned(nodes ...ast.Node) []string {
	var out []string
	seen := map[string]bool{}
	add := func(e ast.Expr) {
		id, ok := e.(*ast.Ident)
		if !ok {
			if src := t.p.src(e); t.isState(src) && !seen[src] {
				seen[src] = true
				out = append(out, src)
			}
			return
		}
		if id.Name == "_" || seen[id.Name] {
			return
		}
		if t.lookup(id.Name) == nil {
			return
		}
		seen[id.Name] = true
		out = append(out, id.Name)
	}
	for _, n := range nodes {
		if n == nil {
			continue
		}
		declared := map[string]bool{}
		ast.Inspect(n, func(x ast.Node) bool {
			switch s := x.(type) {
			case *ast.AssignStmt:
				if s.Tok == token.DEFINE {
					for _, l := range s.Lhs {
						if id, ok := l.(*ast.Ident); ok {
							declared[id.Name] = true
						}
					}
				} else {
					for _, l := range s.Lhs {
						if id, ok := l.(*ast.Ident); ok && declared[id.Name] && t.lookup(id.Name) != nil {
							t.fail(s, "assignment to a name that is both local and outer")
						}
						add(l)
					}
				}
			case *ast.IncDecStmt:
				add(s.X)
			case *ast.CallExpr:
				// a call with effects rebinds what it writes: the reader/writer/lexer
				// states, the receiver's state fields, the buffers it fills
				for _, name := range t.effectTargets(s) {
					if !seen[name] && t.lookup(name) != nil {
						seen[name] = true
						out = append(out, name)
					}
				}
			case *ast.ExprStmt:
				if c, ok := s.X.(*ast.CallExpr); ok {
					if st, ok := t.cfg.appendTo[t.p.src(c.Fun)]; ok && t.isState(st) && !seen[st] {
						seen[st] = true
						out = append(out, st)
					}
				}
			case *ast.DeclStmt:
				if gd, ok := s.Decl.(*ast.GenDecl); ok {
					for _, sp := range gd.Specs {
						if vs, ok := sp.(*ast.ValueSpec); ok {
							for _, nm := range vs.Names {
								declared[nm.Name] = true
							}
						}
					}
				}
			case *ast.FuncLit:
				return false
			}
			return true
		})
		for _, v := range out {
			if declared[v] {
				t.fail(n, "name "+v+" is assigned as an outer variable and declared locally")
			}
		}
	}
	return out
}

func (t *tr) resCoqType() string {
	r := "unit"
	if len(t.res) > 0 {
		r = coqType(tupleT(t.res))
	}
	if t.cfg.sliceEarly && r != "" {
		r = "option (" + strings.TrimSuffix(r, "%type") + ")"
	}
	if t.cfg.res && r != "" {
		return "go_res (" + strings.TrimSuffix(r, "%type") + ")"
	}
	if t.cfg.checked && r != "" {
		return "option (" + strings.TrimSuffix(r, "%type") + ")"
	}
	return r
}

func (t *tr) varTuple(names []string) (string, string) {
	var cs, ts []string
	for _, n := range names {
		v := t.lookup(n)
		if v == nil {
			t.fail(nil, "variable "+n+" out of scope")
			return "GoUnknown", ""
		}
		cs = append(cs, v.coq)
		ts = append(ts, v.typ)
	}
	if len(cs) == 1 {
		return cs[0], cs[0]
	}
	return "(" + strings.Join(cs, ", ") + ")", "'(" + strings.Join(cs, ", ") + ")"
}

func (t *tr) stmts(ss []ast.Stmt, k kont) string {
	if len(ss) == 0 {
		return k.fall()
	}
	s, rest := ss[0], ss[1:]
	restHere := func() string { return t.stmts(rest, k) }
	t.guards = nil
	switch x := s.(type) {
	case *ast.EmptyStmt:
		return restHere()
	case *ast.ReturnStmt:
		if len(x.Results) == 1 {
			if c, ok := unwrapConv(x.Results[0]).(*ast.CallExpr); ok {
				if fi, recvSrc := t.calleeOf(c); fi != nil && needsBind(fi) {
					return t.returnCall(x, c, fi, recvSrc)
				}
			}
		}
		r := t.ret(x)
		return wrapG(t.takeGuards(), r)
	case *ast.BlockStmt:
		after := t.later(restHere)
		t.push()
		r := t.stmts(x.List, kont{fall: after, brk: k.brk, cont: k.cont, rty: k.rty})
		t.pop()
		return r
	case *ast.BranchStmt:
		if x.Label != nil {
			t.fail(x, "labelled branch")
			return "GoUnknown"
		}
		switch x.Tok {
		case token.BREAK:
			if k.brk != nil {
				return k.brk()
			}
		case token.CONTINUE:
			if k.cont != nil {
				return k.cont()
			}
		}
		t.fail(x, "branch statement")
		return "GoUnknown"
	case *ast.DeclStmt:
		gd, ok := x.Decl.(*ast.GenDecl)
		if !ok {
			t.fail(x, "declaration")
			return "GoUnknown"
		}
		pre := ""
		for _, sp := range gd.Specs {
			vs, ok := sp.(*ast.ValueSpec)
			if !ok {
				t.fail(x, "declaration")
				return "GoUnknown"
			}
			if gd.Tok == token.CONST {
				for i, n := range vs.Names {
					if i >= len(vs.Values) {
						t.fail(x, "constant without value")
						continue
					}
					c := t.constOf(vs.Values[i])
					if c == nil {
						t.fail(x, "constant expression")
						continue
					}
					if vs.Type != nil {
						c.t = t.p.goType(vs.Type)
					}
					t.lconsts[len(t.lconsts)-1][n.Name] = *c
					delete(t.scopes[len(t.scopes)-1], n.Name)
				}
				continue
			}
			for i, n := range vs.Names {
				ty := t.p.goType(vs.Type)
				var val string
				if at, ok := vs.Type.(*ast.ArrayType); ok && at.Len != nil && len(vs.Values) == 0 {
					// var buf [8]byte: a zeroed byte array, handled as a slice of that length
					if k := t.constOf(at.Len); k != nil && normT(t.p.src(at.Elt)) == "uint8" {
						c := t.declare(n.Name, tBytes)
						if v := t.lookup(n.Name); v != nil {
							v.isArray = true
						}
						pre += "let " + c + " := (go_make_bytes " + k.v.ExactString() + ") in\n"
						continue
					}
				}
				if id, ok := vs.Type.(*ast.SelectorExpr); ok && len(vs.Values) == 0 && t.p.src(id) == "bytes.Buffer" {
					c := t.declare(n.Name, "buffer")
					pre += "let " + c + " := [] in\n"
					continue
				}
				if i < len(vs.Values) {
					pre += t.aliasGuard(x, n, vs.Values[i])
					if ty != "" {
						val = t.exprAs(vs.Values[i], ty)
					} else {
						val, ty = t.expr(vs.Values[i])
						ty = defaultT(ty)
					}
				} else {
					val = zeroVal(ty)
					if val == "" {
						t.fail(x, "zero value of type "+ty)
						val = "GoUnknown"
					}
				}
				c := t.declare(n.Name, ty)
				pre += "let " + c + " := " + val + " in\n"
			}
		}
		gs := t.takeGuards()
		return wrapG(gs, pre+restHere())
	case *ast.AssignStmt:
		if len(x.Rhs) == 1 && (x.Tok == token.DEFINE || x.Tok == token.ASSIGN) {
			if c, ok := x.Rhs[0].(*ast.CallExpr); ok {
				if code, ok := t.libEffect(c, x.Lhs, x.Tok == token.DEFINE, restHere); ok {
					return code
				}
				if fi, recvSrc := t.calleeOf(c); fi != nil && needsBind(fi) {
					return t.bindCall(c, fi, recvSrc, x.Lhs, x.Tok == token.DEFINE, restHere)
				}
			}
		}
		t.pending = nil
		pre := t.assign(x)
		gs := t.takeGuards()
		pre += strings.Join(t.pending, "")
		t.pending = nil
		return wrapG(gs, pre+restHere())
	case *ast.IncDecStmt:
		id, ok := x.X.(*ast.Ident)
		v := (*lvar)(nil)
		if ok {
			v = t.lookup(id.Name)
		} else if src := t.p.src(x.X); t.isState(src) {
			v = t.lookup(src)
		}
		if v == nil || !isIntT(v.typ) {
			t.fail(x, "++/--")
			return "GoUnknown"
		}
		op := "+"
		if x.Tok == token.DEC {
			op = "-"
		}
		return "let " + v.coq + " := " + t.wrap(v.typ, "("+v.coq+" "+op+" 1)") + " in\n" + restHere()
	case *ast.ExprStmt:
		return t.exprStmt(x, restHere)
	case *ast.ForStmt:
		return t.forStmt(x, k, t.later(restHere))
	case *ast.IfStmt:
		return t.ifStmt(x, k, t.later(restHere))
	case *ast.SwitchStmt:
		return t.switchStmt(x, k, t.later(restHere))
	case *ast.RangeStmt:
		return t.rangeStmt(x, k, t.later(restHere))
	}
	t.fail(s, "statement")
	return "GoUnknown"
}

func defaultT(ty string) string {
	switch ty {
	case tUInt:
		return "int"
	case tURune:
		return "int32"
	case tUStr:
		return tStr
	case tUBool:
		return tBool
	}
	return ty
}

func zeroVal(ty string) string {
	switch ty {
	case tStr, tBytes, tStrs:
		return "[]"
	case tBool:
		return "false"
	case tErr:
		return "None"
	case tTime:
		return "" // the zero time.Time is year 1, not the epoch: not modelled
	}
	if isIntT(ty) {
		return "0"
	}
	return ""
}

func (t *tr) ret(x *ast.ReturnStmt) string {
	var r string
	if t.cfg.sliceEarly {
		if x == t.sliceRet {
			r = "(Some " + t.ret0(x) + ")"
		} else {
			for _, e := range x.Results {
				t.expr(e) // must at least be readable
			}
			r = "None (* returned earlier *)"
		}
	} else {
		r = t.ret0(x)
	}
	return t.okWrap(r)
}

func (t *tr) ret0(x *ast.ReturnStmt) string {
	if n := len(t.states); n > 0 {
		if t.cfg.retField != "" && len(x.Results) == 1 {
			x = &ast.ReturnStmt{Results: []ast.Expr{t.fieldOfLit(x.Results[0])}}
		}
		if len(x.Results) != len(t.res)-n {
			t.fail(x, "return arity")
			return "GoUnknown"
		}
		var rs []string
		t.pending = nil
		for i, r := range x.Results {
			rs = append(rs, t.exprAs(r, t.res[i]))
		}
		pre := ""
		if len(t.pending) > 0 {
			for i := range rs {
				n := t.fresh("ret")
				pre += "let " + n + " := " + rs[i] + " in\n"
				rs[i] = n
			}
			pre += strings.Join(t.pending, "")
			t.pending = nil
		}
		rs = append(rs, t.stateVals()...)
		if len(rs) == 1 {
			return pre + rs[0]
		}
		return pre + "(" + strings.Join(rs, ", ") + ")"
	}
	if t.cfg.retField != "" && len(x.Results) == 1 {
		x = &ast.ReturnStmt{Results: []ast.Expr{t.fieldOfLit(x.Results[0])}}
	}
	if len(t.res) == 0 {
		if len(x.Results) != 0 {
			t.fail(x, "return with values")
		}
		return "tt"
	}
	if len(x.Results) == 1 && len(t.res) > 1 {
		s, ty := t.expr(x.Results[0])
		if ty != tupleT(t.res) {
			t.fail(x, "return of type "+ty)
		}
		return "(" + s + ")"
	}
	if len(x.Results) != len(t.res) {
		t.fail(x, "return (named results are not supported)")
		return "GoUnknown"
	}
	var rs []string
	for i, r := range x.Results {
		rs = append(rs, t.exprAs(r, t.res[i]))
	}
	if len(rs) == 1 {
		if strings.Contains(rs[0], " ") && !strings.HasPrefix(rs[0], "(") {
			return "(" + rs[0] + ")"
		}
		return rs[0]
	}
	return "(" + strings.Join(rs, ", ") + ")"
}

// assign returns the "let ... in\n" prefix for an assignment or definition.
func (t *tr) assign(x *ast.AssignStmt) string {
	lhsName := func(e ast.Expr) (string, bool) {
		id, ok := e.(*ast.Ident)
		if !ok {
			if src := t.p.src(e); t.isState(src) {
				return src, true
			}
			return "", false
		}
		return id.Name, true
	}
	bind := func(name, ty string, define bool) string {
		if name == "_" {
			return "_"
		}
		if define {
			if _, here := t.scopes[len(t.scopes)-1][name]; !here {
				return t.declare(name, defaultT(ty))
			}
		}
		v := t.lookup(name)
		if v == nil {
			t.fail(x, "assignment to an unknown variable")
			return "GoUnknown"
		}
		if ty != "" && defaultT(ty) != v.typ && !(isUntyped(ty) && (isIntT(ty) && isIntT(v.typ) || ty == tUStr && v.typ == tStr || ty == tNil)) && ty != "?" {
			t.fail(x, "assignment of type "+ty+" to "+v.typ)
		}
		return v.coq
	}
	if len(x.Lhs) == 2 && len(x.Rhs) == 1 && (x.Tok == token.DEFINE || x.Tok == token.ASSIGN) {
		if ie, ok := x.Rhs[0].(*ast.IndexExpr); ok {
			// _, ok := set[key]  (a map used as a set)
			m, tm := t.expr(ie.X)
			if tm == "set" && isIdent(x.Lhs[0], "_") {
				k := t.exprAs(ie.Index, tStr)
				if n, ok := lhsName(x.Lhs[1]); ok {
					return "let " + bind(n, tBool, x.Tok == token.DEFINE) + " := (go_set_mem " + k + " " + m + ") in\n"
				}
			}
		}
	}
	switch x.Tok {
	case token.DEFINE, token.ASSIGN:
		define := x.Tok == token.DEFINE
		if len(x.Lhs) == len(x.Rhs) {
			var vals, tys []string
			for i, r := range x.Rhs {
				var v, ty string
				if n, ok := lhsName(x.Lhs[i]); ok && !define {
					if lv := t.lookup(n); lv != nil {
						v, ty = t.exprAs(r, lv.typ), lv.typ
					}
				}
				if v == "" {
					v, ty = t.expr(r)
				}
				vals, tys = append(vals, v), append(tys, ty)
			}
			var names []string
			mark := ""
			for i, l := range x.Lhs {
				n, ok := lhsName(l)
				if !ok {
					t.fail(x, "assignment target")
					return ""
				}
				if ac, ok := unparen(x.Rhs[i]).(*ast.CallExpr); ok && isIdent(ac.Fun, "append") && len(ac.Args) > 0 && t.baseName(ac.Args[0]) == n {
					t.appendSelf[ac] = true
				}
				mark += t.aliasGuard(x, l, x.Rhs[i])
				names = append(names, bind(n, tys[i], define))
				// an array copied by value is an array
				if id, ok := x.Rhs[i].(*ast.Ident); ok && n != "_" {
					if sv, dv := t.lookup(id.Name), t.lookup(n); sv != nil && dv != nil && sv.isArray && sv != dv {
						dv.isArray = true
					}
				}
			}
			if len(names) == 1 {
				return mark + "let " + names[0] + " := " + vals[0] + " in\n"
			}
			return "let '(" + strings.Join(names, ", ") + ") := (" + strings.Join(vals, ", ") + ") in\n"
		}
		if len(x.Rhs) == 1 {
			v, ty := t.expr(x.Rhs[0])
			tys := splitTuple(ty)
			if len(tys) != len(x.Lhs) {
				t.fail(x, "assignment arity")
				return ""
			}
			var names []string
			mark := ""
			for i, l := range x.Lhs {
				n, ok := lhsName(l)
				if !ok {
					t.fail(x, "assignment target")
					return ""
				}
				if isSliceT(tys[i]) {
					mark += t.aliasGuard(x, l, x.Rhs[0])
				}
				names = append(names, bind(n, tys[i], define))
			}
			return mark + "let '(" + strings.Join(names, ", ") + ") := " + v + " in\n"
		}
	case token.ADD_ASSIGN, token.SUB_ASSIGN, token.MUL_ASSIGN, token.QUO_ASSIGN, token.REM_ASSIGN,
		token.AND_ASSIGN, token.OR_ASSIGN, token.XOR_ASSIGN, token.SHL_ASSIGN, token.SHR_ASSIGN:
		if len(x.Lhs) == 1 && len(x.Rhs) == 1 {
			n, ok := lhsName(x.Lhs[0])
			if ok && t.lookup(n) != nil {
				op := map[token.Token]token.Token{token.ADD_ASSIGN: token.ADD, token.SUB_ASSIGN: token.SUB,
					token.MUL_ASSIGN: token.MUL, token.QUO_ASSIGN: token.QUO, token.REM_ASSIGN: token.REM,
					token.AND_ASSIGN: token.AND, token.OR_ASSIGN: token.OR, token.XOR_ASSIGN: token.XOR,
					token.SHL_ASSIGN: token.SHL, token.SHR_ASSIGN: token.SHR}[x.Tok]
				v, _ := t.binary(&ast.BinaryExpr{X: x.Lhs[0], Op: op, Y: x.Rhs[0]})
				return "let " + t.lookup(n).coq + " := " + v + " in\n"
			}
		}
	}
	t.fail(x, "assignment")
	return ""
}

// isState: src names a field listed in cfg.stateOut (assignable).
func (t *tr) isState(src string) bool {
	for _, s := range t.states {
		if s == src {
			return true
		}
	}
	return false
}

func (t *tr) stateVals() []string {
	var vs []string
	for _, s := range t.states {
		if v := t.lookup(s); v != nil {
			vs = append(vs, v.coq)
		} else {
			t.fail(nil, "state "+s+" is not a parameter")
			vs = append(vs, "GoUnknown")
		}
	}
	return vs
}

func (t *tr) simple(s ast.Stmt) string {
	switch x := s.(type) {
	case *ast.AssignStmt:
		return t.assign(x)
	}
	t.fail(s, "init statement")
	return ""
}

func (t *tr) ifStmt(x *ast.IfStmt, k kont, after func() string) string {
	// loops and effect statements in a branch: sequence the rest after each branch
	effects := false
	for _, n := range []ast.Node{x.Body, x.Else} {
		if n == nil {
			continue
		}
		ast.Inspect(n, func(m ast.Node) bool {
			switch m.(type) {
			case *ast.ForStmt, *ast.RangeStmt, *ast.ExprStmt:
				effects = true
			}
			return true
		})
	}
	if effects {
		return t.ifStmt1(x, k, after, true)
	}
	s := t.ifStmt1(x, k, after, false)
	if (t.cfg.checked || t.cfg.res) && strings.Contains(s, "(* join *)") && joinUnsafe(strings.SplitN(s, "(* join *)", 2)[0]) {
		// a branch of the joined form can panic: sequence the rest after each branch instead
		return t.ifStmt1(x, k, after, true)
	}
	return strings.Replace(s, "(* join *)", "", 1)
}

func joinUnsafe(branches string) bool {
	return strings.Contains(branches, "(* panic *)") || strings.Contains(branches, "go_bind ") ||
		strings.Contains(branches, "_loop")
}

func (t *tr) ifStmt1(x *ast.IfStmt, k kont, after func() string, noJoin bool) string {
	// variables of the enclosing scopes assigned in the branches
	vs := t.assigned(x.Body, x.Else)
	r1, b1 := hasJump(x.Body)
	r2, b2 := hasJump(x.Else)
	join := len(vs) > 0 && !r1 && !b1 && !r2 && !b2 && !noJoin
	tup, pat := "", ""
	if join {
		tup, pat = t.varTuple(vs)
	}
	t.push()
	defer t.pop()
	pre := ""
	if x.Init != nil {
		pre = t.simple(x.Init)
	}
	gInit := t.takeGuards()
	cond := t.exprAs(x.Cond, tBool)
	gCond := t.takeGuards()
	bk := kont{fall: after, brk: k.brk, cont: k.cont, rty: k.rty}
	if join {
		var cts []string
		for _, v := range vs {
			cts = append(cts, coqType(t.lookup(v).typ))
		}
		bk = kont{fall: func() string {
			s, _ := t.varTuple(vs)
			return s
		}, rty: "(" + strings.Join(cts, " * ") + ")%type"}
	}
	t.push()
	a := t.stmts(x.Body.List, bk)
	t.pop()
	var b string
	switch e := x.Else.(type) {
	case nil:
		b = bk.fall()
	case *ast.BlockStmt:
		t.push()
		b = t.stmts(e.List, bk)
		t.pop()
	case *ast.IfStmt:
		b = t.stmts([]ast.Stmt{e}, bk)
	default:
		t.fail(x, "else")
	}
	ite := "if " + cond + "\nthen " + indent(a) + "\nelse " + indent(b)
	if join {
		_ = tup
		return wrapG(gInit, pre+wrapG(gCond, "let "+pat+" :=\n  "+indent(ite)+" in (* join *)\n"+after()))
	}
	return wrapG(gInit, pre+wrapG(gCond, ite))
}

func (t *tr) switchStmt(x *ast.SwitchStmt, k kont, after func() string) string {
	t.push()
	defer t.pop()
	pre := ""
	if x.Init != nil {
		pre = t.simple(x.Init)
	}
	tag, tagT := "", ""
	if x.Tag != nil {
		v, ty := t.expr(x.Tag)
		tagT = defaultT(ty)
		tag = t.fresh("tag")
		pre += "let " + tag + " := " + v + " in\n"
	}
	gPre := t.takeGuards()
	var clauses []*ast.CaseClause
	var def *ast.CaseClause
	for _, c := range x.Body.List {
		cc := c.(*ast.CaseClause)
		if cc.List == nil {
			def = cc
		} else {
			clauses = append(clauses, cc)
		}
	}
	bk := kont{fall: after, brk: after, cont: k.cont, rty: k.rty}
	var b strings.Builder
	b.WriteString(pre)
	for _, cc := range clauses {
		for _, s := range cc.Body {
			if br, ok := s.(*ast.BranchStmt); ok && br.Tok == token.FALLTHROUGH {
				t.fail(x, "fallthrough")
			}
		}
		var conds []string
		for _, e := range cc.List {
			if x.Tag == nil {
				conds = append(conds, t.exprAs(e, tBool))
				continue
			}
			v := t.exprAs(e, tagT)
			switch {
			case tagT == tStr:
				conds = append(conds, "(go_str_eqb "+tag+" "+v+")")
			case isIntT(tagT):
				conds = append(conds, "("+tag+" =? "+v+")")
			case tagT == tBool:
				conds = append(conds, "(Bool.eqb "+tag+" "+v+")")
			default:
				t.fail(x, "switch on type "+tagT)
			}
		}
		if len(t.takeGuards()) > 0 {
			t.fail(cc, "case expression that can panic")
		}
		t.push()
		body := t.stmts(cc.Body, bk)
		t.pop()
		b.WriteString("if " + strings.Join(conds, " || ") + "\nthen " + indent(body) + "\nelse ")
	}
	if def != nil {
		t.push()
		b.WriteString(t.stmts(def.Body, bk))
		t.pop()
	} else {
		b.WriteString(after())
	}
	return wrapG(gPre, b.String())
}

func (t *tr) rangeStmt(x *ast.RangeStmt, k kont, after func() string) string {
	if x.Tok != token.DEFINE && (x.Key != nil || x.Value != nil) {
		t.fail(x, "range with assignment")
		return "GoUnknown"
	}
	lst, lt := t.expr(x.X)
	if rn := t.baseName(x.X); rn != "" {
		// a range over a slice sees the writes the body makes into it
		// (a range over an array ranges over a copy)
		if v := t.lookup(rn); (v == nil || !v.isArray) && lt != tStr && lt != tUStr {
			if u := t.scanUses(rn, func(n ast.Node) bool { return n.Pos() >= x.Body.Pos() && n.End() <= x.Body.End() }); u.written {
				t.fail(x, "the body of a range over "+rn+" may write "+rn)
			}
		}
	}
	var elemCoq, elemT, conv string
	switch lt {
	case tStrs:
		elemCoq, elemT = "list N", tStr
	case tBytes:
		elemCoq, elemT, conv = "N", "uint8", "Z.of_N "
	case tStr, tUStr:
		elemCoq, elemT = "Z", "int32"
		lst = "(go_runes " + lst + ")"
		if x.Key != nil && !isIdent(x.Key, "_") {
			t.fail(x, "byte offsets of a range over a string")
		}
	default:
		t.fail(x, "range over type "+lt)
		return "GoUnknown"
	}
	gList := t.takeGuards()
	vs := t.assigned(x.Body)
	t.nloop++
	n := t.nloop
	loop := t.fresh(fmt.Sprintf("loop%d", n))
	l := t.fresh(fmt.Sprintf("l%d", n))
	l2 := t.fresh(fmt.Sprintf("r%d", n))
	hd := t.fresh(fmt.Sprintf("x%d", n))
	idx := ""
	hasKey := x.Key != nil && !isIdent(x.Key, "_")
	if hasKey {
		idx = t.fresh(fmt.Sprintf("i%d", n))
	}
	var vcoq, vdecl []string
	for _, v := range vs {
		lv := t.lookup(v)
		vcoq = append(vcoq, lv.coq)
		ct := coqType(lv.typ)
		if ct == "" {
			t.fail(x, "loop variable of type "+lv.typ)
		}
		vdecl = append(vdecl, "("+lv.coq+" : "+ct+")")
	}
	recur := func(first bool) string {
		s := loop + " "
		if first {
			s += lst
		} else {
			s += l2
		}
		if hasKey {
			if first {
				s += " 0"
			} else {
				s += " (" + idx + " + 1)"
			}
		}
		for _, v := range vcoq {
			s += " " + v
		}
		return s
	}
	done := after() // translated in the scope before the loop; the loop's state variables keep their names
	t.push()
	body := ""
	if hasKey {
		c := t.declare(x.Key.(*ast.Ident).Name, "int")
		body += "let " + c + " := " + idx + " in\n"
	}
	if x.Value != nil && !isIdent(x.Value, "_") {
		c := t.declare(x.Value.(*ast.Ident).Name, elemT)
		body += "let " + c + " := " + conv + hd + " in\n"
	}
	next := func() string { return recur(false) }
	t.push()
	rty := k.rty
	if rty == "" {
		rty = t.resCoqType()
	}
	body += t.stmts(x.Body.List, kont{fall: next, cont: next, brk: after, rty: k.rty})
	t.pop()
	t.pop()
	sig := "(" + l + " : list " + elemCoq + ")"
	if strings.Contains(elemCoq, " ") {
		sig = "(" + l + " : list (" + elemCoq + "))"
	}
	if hasKey {
		sig += " (" + idx + " : Z)"
	}
	if len(vdecl) > 0 {
		sig += " " + strings.Join(vdecl, " ")
	}
	return wrapG(gList, "(fix "+loop+" "+sig+" {struct "+l+"} : "+rty+" :=\n"+
		"   match "+l+" with\n"+
		"   | [] =>\n       "+indent(indent(indent(done)))+"\n"+
		"   | "+hd+" :: "+l2+" =>\n       "+indent(indent(indent(body)))+"\n"+
		"   end) "+strings.TrimPrefix(recur(true), loop+" "))
}

// ---------------------------------------------------------------- functions

func (g *codeGen) useExtern(e extern) {
	if g.externI[e.name] {
		return
	}
	g.externI[e.name] = true
	g.externs = append(g.externs, e)
}

func (g *codeGen) emitConst(p *pkg, name string, c cval) string {
	cn := "gen_" + pkgShort(p) + "_" + name
	if g.constOK[cn] {
		return cn
	}
	g.constOK[cn] = true
	lit, ok := constLit(c)
	ct := coqType(c.t)
	if !ok || ct == "" {
		g.consts = append(g.consts, fmt.Sprintf("Definition %s : go_unknown := GoUnknown %s.", cn, coqStr("constant "+name)))
		return cn
	}
	g.consts = append(g.consts, fmt.Sprintf("(* %s: const %s *)\nDefinition %s : %s := %s.", filepath.Base(p.dir), name, cn, ct, lit))
	g.names = append(g.names, cn)
	return cn
}

func (p *pkg) fileOf(fd *ast.FuncDecl) (string, *ast.File) {
	for _, fn := range p.sortedFiles() {
		for _, d := range p.files[fn].Decls {
			if d == ast.Decl(fd) {
				return fn, p.files[fn]
			}
		}
	}
	return "", nil
}

// translateFunc translates one function or method of p into one Gallina
// definition.  A shape outside the supported subset is not an error of the
// run: the result is then a `go_unknown` definition that names it.
func (g *codeGen) translateFunc(p *pkg, dir, recv, name string, cfg transCfg) (string, error) {
	short := pkgShort(p)
	coqName := cfg.coqName
	if coqName == "" {
		coqName = "gen_" + short + "_" + name
		if recv != "" {
			coqName = "gen_" + short + "_" + recv + "_" + name
		}
	}
	key := p.dir + "|" + recv + "|" + name
	fi := &funcInfo{coq: coqName, dirty: map[string]bool{}}
	g.funcs[key] = fi
	where := dir + ": func " + name
	if recv != "" {
		where = dir + ": func (" + recv + ") " + name
	}
	unknown := func(why string) string {
		return fmt.Sprintf("(* %s -- NOT TRANSLATED: %s *)\nDefinition %s : go_unknown :=\n  GoUnknown %s.\n",
			where, strings.NewReplacer("*)", "* )", "(*", "( *", "\"", "'").Replace(why), coqName, coqStr(why))
	}
	fd := p.funcDecl(recv, name)
	if fd == nil || fd.Body == nil {
		return unknown("function not found in " + dir), nil
	}
	fname, file := p.fileOf(fd)
	where = dir + "/" + fname + ": func " + name
	if recv != "" {
		where = dir + "/" + fname + ": func (" + recv + ") " + name
	}
	pkgc, _ := p.consts()
	t := &tr{g: g, p: p, file: file, fd: fd, cfg: cfg, imports: map[string]string{}, used: map[string]bool{},
		isParam: map[string]bool{}, group: map[string]int{}, self: fi,
		roots: map[string]string{}, appendSelf: map[*ast.CallExpr]bool{},
		psrc: map[string]pspec{}, pnil: map[string]pspec{}, pkgc: pkgc, objects: map[string]string{},
		coqName: coqName, where: where}
	curTypeMap = cfg.typeMap
	defer func() { curTypeMap = nil; curPanic = "None (* panic *)" }()
	curPanic = "None (* panic *)"
	if cfg.res {
		curPanic = "GoPanic \"runtime error: index or slice out of range, division by zero or short buffer\" (* panic *)"
	}
	fi.mode = t.mode()
	for k, v := range cfg.objects {
		t.objects[k] = v
	}
	t.states = append(t.states, cfg.stateOut...)
	for _, im := range file.Imports {
		ip, _ := strconv.Unquote(im.Path.Value)
		n := filepath.Base(ip)
		if im.Name != nil {
			n = im.Name.Name
		}
		t.imports[n] = ip
	}
	t.push()
	// parameters
	var params []pspec
	if cfg.params != nil {
		params = cfg.params
	} else {
		if fd.Recv != nil {
			t.fail(fd.Recv, "method without a parameter list in the translator configuration")
		}
		for _, f := range fd.Type.Params.List {
			ty := p.goType(f.Type)
			for _, n := range f.Names {
				if k, ok := cfg.objects[n.Name]; ok {
					ty = "object:" + k
				}
				params = append(params, pspec{src: n.Name, name: n.Name, typ: ty})
			}
			if len(f.Names) == 0 {
				t.fail(f, "unnamed parameter")
			}
		}
	}
	if fd.Recv != nil && len(fd.Recv.List) == 1 && len(fd.Recv.List[0].Names) == 1 {
		fi.recv = fd.Recv.List[0].Names[0].Name
	}
	for _, f := range fd.Type.Params.List {
		for _, n := range f.Names {
			fi.sigN = append(fi.sigN, n.Name)
		}
	}
	// abstract objects: their state instead of the object
	var expanded []pspec
	for _, ps := range params {
		if strings.HasPrefix(ps.typ, "object:") {
			kind := strings.TrimPrefix(ps.typ, "object:")
			sts, ok := objKinds[kind]
			if !ok {
				t.fail(nil, "unknown object kind "+kind)
				continue
			}
			t.objects[ps.src] = kind
			for _, st := range sts {
				src := objSrc(ps.src, st.suffix)
				expanded = append(expanded, pspec{src: src, name: ps.name + "_" + st.suffix, typ: st.typ})
				t.states = append(t.states, src)
			}
			continue
		}
		expanded = append(expanded, ps)
	}
	params = expanded
	{
		// two objects of one kind reached by two paths may be one object
		byKind := map[string][]string{}
		for src, kind := range t.objects {
			byKind[kind] = append(byKind[kind], src)
		}
		for kind, srcs := range byKind {
			if len(srcs) > 1 {
				sort.Strings(srcs)
				t.fail(nil, "two "+kind+" objects ("+strings.Join(srcs, ", ")+") may be the same object; that is not modelled")
			}
		}
	}
	fi.states = append([]string{}, t.states...)
	var sig []string
	for _, ps := range params {
		ty := normT(ps.typ)
		ct := coqType(ty)
		if ct == "" {
			t.fail(nil, "parameter "+ps.src+" of type "+ps.typ)
			continue
		}
		cn := t.fresh(ps.name)
		ps.name = cn
		ps.typ = ty
		t.isParam[ps.src] = true
		if ty == tNilness {
			t.pnil[ps.src] = ps
		} else if isSimpleIdent(ps.src) {
			t.scopes[0][ps.src] = &lvar{coq: cn, typ: ty}
		} else {
			t.psrc[ps.src] = ps
			if t.isState(ps.src) {
				t.scopes[0][ps.src] = &lvar{coq: cn, typ: ty}
			}
		}
		sig = append(sig, "("+cn+" : "+ct+")")
		fi.params = append(fi.params, ty)
		fi.psrcs = append(fi.psrcs, ps.src)
	}
	// results
	if cfg.results != nil {
		t.res = cfg.results
	} else if fd.Type.Results != nil {
		for _, f := range fd.Type.Results.List {
			if len(f.Names) > 0 {
				t.fail(f, "named results are not modelled")
			}
			n := len(f.Names)
			if n == 0 {
				n = 1
			}
			for i := 0; i < n; i++ {
				t.res = append(t.res, p.goType(f.Type))
			}
		}
	}
	if cfg.results == nil {
		for i := range t.res {
			t.res[i] = normT(t.res[i])
		}
	}
	for _, so := range t.states {
		v := t.lookup(so)
		if v == nil {
			t.fail(nil, "state "+so+" is not a parameter")
			continue
		}
		t.res = append(t.res, v.typ)
	}
	fi.res = tupleT(t.res)
	if len(t.res) == 0 {
		fi.res = ""
	}
	rct := t.resCoqType()
	if rct == "" {
		t.fail(fd.Type.Results, "result type")
	}
	t.push()
	stmtList := fd.Body.List
	if cfg.sliceVar != "" || len(cfg.skip) > 0 {
		stmtList = t.sliceBody(fd.Body.List)
	}
	body := t.stmts(stmtList, kont{fall: func() string {
		if len(t.res) == 0 {
			return t.okWrap("tt")
		}
		if len(t.states) > 0 && len(t.res) == len(t.states) {
			return t.ret(&ast.ReturnStmt{})
		}
		t.fail(nil, "function may end without return")
		return "GoUnknown"
	}})
	if len(t.bad) > 0 {
		sort.Strings(t.bad[1:])
		return unknown(strings.Join(dedup(t.bad), " | ")), nil
	}
	fi.ok = true
	g.names = append(g.names, coqName)
	def := fmt.Sprintf("(* %s *)\nDefinition %s %s : %s :=\n  %s.\n", where, coqName, strings.Join(sig, " "), rct, indent(body))
	if len(sig) == 0 {
		def = fmt.Sprintf("(* %s *)\nDefinition %s : %s :=\n  %s.\n", where, coqName, rct, indent(body))
	}
	if len(t.lifted) > 0 {
		def = strings.Join(t.lifted, "\n") + "\n" + def
	}
	return def, nil
}

// sliceBody implements transCfg.skip / sliceVar (see there).
func (t *tr) sliceBody(all []ast.Stmt) []ast.Stmt {
	skip := map[string]bool{}
	for _, s := range t.cfg.skip {
		skip[strings.Join(strings.Fields(s), " ")] = true
	}
	var kept, skipped []ast.Stmt
	for _, s := range all {
		if skip[t.p.src(s)] {
			delete(skip, t.p.src(s))
			skipped = append(skipped, s)
			continue
		}
		kept = append(kept, s)
	}
	for s := range skip {
		t.fail(nil, "statement to skip not found: "+s)
	}
	// what the skipped statements declare or assign must not be read by the kept ones
	names := map[string]bool{}
	for _, s := range skipped {
		ast.Inspect(s, func(n ast.Node) bool {
			switch x := n.(type) {
			case *ast.AssignStmt:
				for _, l := range x.Lhs {
					if id, ok := l.(*ast.Ident); ok {
						names[id.Name] = true
					} else {
						t.fail(s, "skipped statement assigns through a non-variable")
					}
				}
			case *ast.IncDecStmt, *ast.ReturnStmt, *ast.BranchStmt, *ast.GoStmt, *ast.DeferStmt:
				t.fail(s, "skipped statement is not a plain declaration")
			}
			return true
		})
	}
	if t.cfg.sliceVar == "" {
		for _, s := range kept {
			t.noRead(s, names)
		}
		return kept
	}
	// cut after the declaration of sliceVar
	cut := -1
	for i, s := range kept {
		if as, ok := s.(*ast.AssignStmt); ok && as.Tok == token.DEFINE {
			for _, l := range as.Lhs {
				if isIdent(l, t.cfg.sliceVar) {
					cut = i
				}
			}
		}
		if cut >= 0 {
			break
		}
	}
	if cut < 0 {
		t.fail(nil, "declaration of "+t.cfg.sliceVar+" not found at the top level of the body")
		return kept
	}
	for _, s := range kept[:cut+1] {
		t.noRead(s, names)
	}
	for _, s := range kept[cut+1:] {
		ast.Inspect(s, func(n ast.Node) bool {
			switch x := n.(type) {
			case *ast.AssignStmt:
				for _, l := range x.Lhs {
					if isIdent(l, t.cfg.sliceVar) {
						t.fail(s, t.cfg.sliceVar+" is assigned after the translated part")
					}
				}
			case *ast.IncDecStmt:
				if isIdent(x.X, t.cfg.sliceVar) {
					t.fail(s, t.cfg.sliceVar+" is assigned after the translated part")
				}
			case *ast.UnaryExpr:
				if x.Op == token.AND && isIdent(x.X, t.cfg.sliceVar) {
					t.fail(s, "address of "+t.cfg.sliceVar+" is taken")
				}
			case *ast.ReturnStmt:
				if !t.cfg.sliceEarly && (t.cfg.sliceRes >= len(x.Results) || !isIdent(x.Results[t.cfg.sliceRes], t.cfg.sliceVar)) {
					t.fail(x, fmt.Sprintf("result %d of a return is not %s", t.cfg.sliceRes, t.cfg.sliceVar))
				}
			}
			return true
		})
	}
	last, ok := all[len(all)-1].(*ast.ReturnStmt)
	if !t.cfg.sliceEarly && (!ok || t.cfg.sliceRes >= len(last.Results) || !isIdent(last.Results[t.cfg.sliceRes], t.cfg.sliceVar)) {
		t.fail(nil, "the body does not end in a return of "+t.cfg.sliceVar)
	}
	out := append([]ast.Stmt{}, kept[:cut+1]...)
	t.sliceRet = &ast.ReturnStmt{Results: []ast.Expr{ast.NewIdent(t.cfg.sliceVar)}}
	return append(out, t.sliceRet)
}

func (t *tr) noRead(s ast.Stmt, names map[string]bool) {
	ast.Inspect(s, func(n ast.Node) bool {
		if id, ok := n.(*ast.Ident); ok && names[id.Name] {
			t.fail(s, "the translated part mentions "+id.Name+", which a skipped statement sets")
		}
		return true
	})
}

func dedup(ss []string) []string {
	var out []string
	seen := map[string]bool{}
	for _, s := range ss {
		if !seen[s] {
			seen[s] = true
			out = append(out, s)
		}
	}
	return out
}

func isSimpleIdent(s string) bool {
	if s == "" {
		return false
	}
	for i, r := range s {
		if !(r == '_' || r >= 'a' && r <= 'z' || r >= 'A' && r <= 'Z' || i > 0 && r >= '0' && r <= '9') {
			return false
		}
	}
	return true
}

// translateFunc is the reusable entry point named in the design: one Go
// function of p -> one Gallina definition (with a private generator state).
func translateFunc(p *pkg, recv, name string, cfg transCfg) (string, error) {
	g := newCodeGen(filepath.Dir(p.dir), "adhoc")
	dir := filepath.Base(p.dir)
	g.pkgs[dir] = p
	return g.translateFunc(p, dir, recv, name, cfg)
}

// ---------------------------------------------------------------- area files

type codeTarget struct {
	dir, recv, name string
	cfg             transCfg
}

func emitCodeArea(repo, area string, targets []codeTarget) (string, error) {
	g := newCodeGen(repo, area)
	var defs []string
	for _, tg := range targets {
		p, err := g.pkg(tg.dir)
		if err != nil {
			return "", err
		}
		d, err := g.translateFunc(p, tg.dir, tg.recv, tg.name, tg.cfg)
		if err != nil {
			return "", err
		}
		defs = append(defs, d)
	}
	var b strings.Builder
	b.WriteString("(* GENERATED by /verif/gen (gotrans.go) from /repo on every run. Do not edit.\n")
	b.WriteString("   Go function bodies as executable Gallina definitions (shallow embedding):\n")
	for _, tg := range targets {
		n := tg.name
		if tg.recv != "" {
			n = "(" + tg.recv + ")." + n
		}
		fmt.Fprintf(&b, "     %s: %s\n", tg.dir, n)
	}
	b.WriteString("   The meaning of every name used here is coq/theories/Lib/GoLib.v. *)\n")
	b.WriteString("From Coq Require Import String.\nFrom Coq Require Import List NArith ZArith Bool.\n")
	b.WriteString("From Verif Require Import Lib.GoLib.\nImport ListNotations.\nLocal Open Scope Z_scope.\n\n")
	for _, c := range g.consts {
		b.WriteString(c + "\n\n")
	}
	if len(g.externs) > 0 {
		b.WriteString("Section Code.\n")
		for _, e := range g.externs {
			var ts []string
			for _, a := range e.args {
				if strings.HasPrefix(a, "state:") {
					ts = append(ts, "list N") // an appendTo state: the bytes written so far
					continue
				}
				ts = append(ts, coqType(normT(a)))
			}
			ts = append(ts, coqType(tupleT(e.res)))
			fmt.Fprintf(&b, "Variable %s : %s.\n", e.name, strings.Join(ts, " -> "))
		}
		b.WriteString("\n")
	}
	b.WriteString(strings.Join(defs, "\n"))
	if len(g.externs) > 0 {
		b.WriteString("End Code.\n")
	}
	b.WriteString("\n")
	for _, n := range g.names {
		fmt.Fprintf(&b, "#[global] Hint Unfold %s : gencode.\n", n)
	}
	return b.String(), nil
}
