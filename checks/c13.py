"""C13 — sniproxy wire codec (DESIGN.md §7 C13)."""
import json
import os

import code_tie
import vlib
from vlib import coq_N, coq_Z, coq_str

META = {
    "category": "proof",
    "text": "Coq theorems over the codec model for every schema, every field value, every cut point and every "
            "input byte string (round trip, truncation => error, tail reported at the request entry, no panic, "
            "allocation <= 4x input + constant), instantiated with message layouts, type codes, call pairing and "
            "size constants regenerated from /repo on every run; the hand-written primitive layer is tied to the "
            "code by differential runs evaluated inside Coq.",
    "note": "Trusted: Coq kernel + vm_compute; translator gen/wire.go; harness and shim; io.ReadFull/io.CopyN/"
            "bytes.Buffer growth and websocket message framing are modelled, not verified; no axioms.",
    "technique": "Coq proof (induction over schemas/fields) + go/ast translation of schemas + vm_compute correspondence",
}

MODEL = ["theories/Sni/WireCorr.vo"]          # needed to evaluate the model
PROOFS = ["theories/Props/C13.vo", "theories/Sni/WireLegacy.vo"]
STATEMENT_FILES = ["theories/Props/C13.v", "theories/Sni/WireGen.v", "theories/Sni/WireLegacy.v"]
SEMANTIC_TIE = code_tie.functions("C13")   # Go bodies proved equal to the model (Props/C13Code.v)

ERRCODE = {"ok": 0, "eof": 1, "tail": 2, "toolong": 3}


def segs(ss):
    parts = []
    for s in ss or []:
        if "rep" in s:
            parts.append("rep %d %d" % (s["rep"][0], s["rep"][1]))
        else:
            bs = bytes.fromhex(s.get("hex", ""))
            parts.append("[" + ";".join(str(b) for b in bs) + "]")
    if not parts:
        return "[]"
    return "(" + " ++ ".join(parts) + ")%list"


def seglen(ss):
    n = 0
    for s in ss or []:
        n += s["rep"][1] if "rep" in s else len(s.get("hex", "")) // 2
    return n


def value(f):
    k = f["k"]
    if k == "u64":
        return "VU64 %s" % f.get("u", "0")
    if k == "int":
        return "VInt (%s)" % f.get("i", "0")
    if k == "bytes":
        return "VBytes %s" % segs(f.get("b"))
    if k == "err":
        if f.get("nil"):
            return "VErr None"
        return "VErr (Some ((%s)%%Z, %s))" % (f.get("i", "0"), segs(f.get("b")))
    raise ValueError(k)


def values(fs):
    return "[" + "; ".join(value(f) for f in fs or []) + "]"


def obs_err(o):
    if o.get("crash"):
        return 9
    return ERRCODE.get(o.get("err", ""), 8)


def to_coq(c):
    o = c["obs"]
    op = c["op"]
    if op == "enc":
        return "CEnc %s %s %s" % (coq_str(c["name"]), values(c.get("fields")), segs(o.get("bytes")))
    if op == "encreply":
        return "CEncReply %s %d %d %s %s %s" % (c["id"], c["typ"], c["ec"], coq_str(c["name"]),
                                               values(c.get("fields")), segs(o.get("bytes")))
    if op == "dec":
        return "CDec %s %d %s %s %d %d %s %d" % (
            coq_str(c["name"]), c["cap"], "true" if c["end"] else "false", segs(c.get("input")),
            obs_err(o), o.get("count", 0), values(o.get("fields")), o.get("alloc", 0))
    if op == "start":
        return "CStart %s %d %s %d %s %s %d" % (
            segs(c.get("input")), obs_err(o), o.get("id") or "0", o.get("typ", 0),
            coq_str(o.get("name", "")), values(o.get("fields")), o.get("alloc", 0))
    if op == "tread":
        return "CTRead %d %d %s %d" % (c["buflen"], c["replen"], "true" if o.get("err") == "ok" else "false",
                                       o.get("n", 0))
    if op == "hread":
        return "CHRead (%s)%%Z %d %s %d %d" % (
            c["maxread"], c["avail"], "true" if o.get("crash") else "false", o.get("n", 0), o.get("code", 0))
    raise ValueError(op)


def impl_oracle(c):
    """Implementation-only reading of the property on one case: returns a
    description of the failure, or None."""
    o = c["obs"]
    if o.get("crash"):
        return "decoding crashed the process: %s" % o["crash"][:200]
    inlen = seglen(c.get("input"))
    if c["op"] in ("dec", "start") and o.get("alloc", 0) > 8 * inlen + 1024 * 1024:
        return "decoding %d input bytes allocated %d bytes" % (inlen, o["alloc"])
    if c["op"] == "hread" and o.get("alloc", 0) > 8 * 1024 * 1024:
        return "read request with size %s allocated %d bytes" % (c["maxread"], o["alloc"])
    if c["op"] == "tread":
        if o.get("err") == "hang":
            return "tunnel.Read did not return within 10 s"
        if o.get("err") == "ok" and o.get("n", 0) > c["buflen"]:
            return "tunnel.Read returned more bytes than the buffer holds: n=%d for a %d-byte buffer" % (o["n"], c["buflen"])
        return None
    if c["stream"] in ("prefix",) and o.get("err") == "ok":
        return "truncated frame decoded without error"
    if c["stream"] == "tail" and o.get("err") == "ok":
        return "trailing bytes not reported"
    return None

def explore(ck, binp, seed, ncases, model_ok, first):
    cases = []
    rc, out, err = vlib.sh2([binp, "-seed", str(seed), "-n", str(ncases)], timeout=1500)
    if rc != 0:
        ck.broken.append({"what": "harness run failed", "detail": err[-1500:]})
    for line in out.splitlines():
        if line.startswith("{"):
            cases.append(json.loads(line))

    # implementation-only oracle (also the search for a failing input)
    for c in cases:
        trivial = seglen(c.get("input")) == 0 and c["op"] in ("dec", "start")
        ck.count(c["stream"], key=(c["op"], c.get("name"), json.dumps(c.get("input")),
                                   json.dumps(c.get("fields")), c.get("cap"), c.get("maxread"), c.get("avail"),
                                   c.get("buflen"), c.get("replen")),
                 trivial=trivial)
        why = impl_oracle(c)
        if why:
            ck.violation("impl:%s:%s" % (c["stream"], why.split(":")[0]), why,
                         {"case": c, "expected": "error value without crash, allocation proportional to input",
                          "observed": c["obs"]})
    if first:
        for c in cases[:2] + cases[80:82] + cases[-2:]:
            ck.sample({k: c[k] for k in c if k != "i"})

    # correspondence: model evaluated inside Coq on the same inputs
    if cases and model_ok:
        shard = 700 if len(cases) <= 4000 else 1500
        mism = []
        mism_dep = []
        jobs = []
        for s in range(0, len(cases), shard):
            part = cases[s:s + shard]
            txt = ("From Coq Require Import List NArith ZArith String.\n"
                   "From Verif Require Import Lib.Bytes Sni.Wire Sni.WireCorr.\n"
                   "Import ListNotations.\nLocal Open Scope N_scope.\nLocal Open Scope string_scope.\n"
                   "Definition cases : list ccase := [\n  "
                   + ";\n  ".join(to_coq(c) for c in part) + "\n].\n"
                   "Definition M := Eval vm_compute in mismatches cases.\nPrint M.\n"
                   "Definition MD := Eval vm_compute in mismatches_deployed cases.\nPrint MD.\n")
            jobs.append((s, "cases_%d_%d" % (seed, s // shard), txt))
        from concurrent.futures import ThreadPoolExecutor
        with ThreadPoolExecutor(max_workers=8) as ex:
            results = list(ex.map(lambda j: (j[0],) + ck.coq_eval(j[1], j[2]), jobs))
        for s, rc, out in results:
            got = vlib.parse_coq_list_of_nat(out, "M") if rc == 0 else None
            gotd = vlib.parse_coq_list_of_nat(out, "MD") if rc == 0 else None
            if got is None or gotd is None:
                ck.broken.append({"what": "correspondence evaluation failed", "detail": out[-1500:]})
                break
            mism += [s + i for i in got]
            mism_dep += [s + i for i in gotd]
        ck.coverage["correspondence_cases"] = ck.coverage.get("correspondence_cases", 0) + len(cases)
        ck.coverage["correspondence_mismatches"] = ck.coverage.get("correspondence_mismatches", 0) + len(mism)
        for i in mism[:50]:
            c = cases[i]
            ck.broken.append({"what": "correspondence: model and implementation disagree",
                              "stream": c["stream"], "case_index": i, "seed": seed})
            why = impl_oracle(c)
            if why is None:
                # the case itself is the replay: the implementation does not behave as the
                # proved model on it (e.g. a changed byte layout or a wrong field value)
                why = "implementation output differs from the proved model of the deployed codec"
                ck.violation("corr:%s:%s" % (c["stream"], c["op"]), why,
                             {"case": c, "model": "Sni/Wire.v evaluated by vm_compute disagrees",
                              "observed": c["obs"]})
        ck.coverage["deployed_protocol_mismatches"] = ck.coverage.get("deployed_protocol_mismatches", 0) + len(mism_dep)
        for i in [i for i in mism_dep if i not in set(mism)][:50]:
            c = cases[i]
            ck.broken.append({"what": "deployed protocol: the current code treats a deployed frame differently",
                              "stream": c["stream"], "case_index": i, "seed": seed})
            ck.violation("deployed:%s:%s" % (c["stream"], c["op"]),
                         "a frame of the deployed protocol is encoded/decoded differently by the current code",
                         {"case": c, "model": "Sni/Wire.v deployed_schemas/deployed_table disagree",
                          "observed": c["obs"]})
    elif cases and not model_ok:
        ck.broken.append({"what": "model does not compile; correspondence not evaluated"})


def run(ck):
    ncases = 3100 if not ck.thorough else 24500
    ck.gen()
    built = ck.coq_make(MODEL + PROOFS, clean=ck.thorough)
    ck.obligations = ck.count_statements(STATEMENT_FILES)
    proofs_ok = all(built.get(x) for x in PROOFS)
    if proofs_ok:
        if ck.audit("theories/Props/C13.v"):
            ck.discharged = list(ck.obligations)
    if ck.thorough and proofs_ok:
        ck.coqchk(["Verif.Props.C13"])
    code_tie.run(ck, "C13")

    binp = ck.build_harness("c13")
    model_ok = all(built.get(x) for x in MODEL)
    if binp:
        explore(ck, binp, ck.seed, ncases, model_ok, first=True)
        if ck.broken and not any(v["found_input"] for v in ck.violations):
            # something no longer checks but no concrete failing input yet: widen the search
            ck.log("searching for a failing input with a larger sample")
            explore(ck, binp, ck.seed + 7919, ncases * 8, model_ok, first=False)

    return ck.finish(
        level="proof",
        checker_cmd="bin/check C13 (gen -> make -C coq theories/Props/C13.vo -> Print Assumptions audit"
                    " -> harness c13 vs vm_compute of Sni/WireCorr.v)",
        trusted=["Coq 8.16.1 kernel + vm_compute", "translator gen/wire.go (field lists, codes, pairing, constants)",
                 "harness/cmd/c13 + checks/c13.py comparison", "sniproxy/verif_export.go shim",
                 "modelled not verified: io.ReadFull/io.CopyN/bytes.Buffer growth, websocket framing"],
        rule="seeded generation (splitmix64) over {encode, roundtrip, prefix, tail, mutated-length, garbage, "
             "request-frame, reply-frame} plus fixed hostile-length and read-size frames; a case is non-trivial "
             "unless its input is empty; distinct = distinct (op, message, input, fields, cap)",
        assumptions=["64-bit int", "the writer given to the encoder does not fail",
                     "reply trailing bytes are discarded by design (transport.go TODO)"])
