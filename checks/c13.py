"""C13 — sniproxy wire codec (DESIGN.md §7 C13)."""
import json
import os

import code_tie
import vlib
from vlib import coq_N, coq_Z, coq_str

META = {
    "category": "proof",
    "text": "Coq theorems over the codec model for every schema, every field value, every cut point and every "
            "input byte string (round trip, truncation => error, tail reported at the request entry, no panic, "
            "allocation <= 4x input + constant), instantiated with message layouts, type codes, call pairing and "
            "size constants regenerated from /repo on every run; the hand-written primitive layer is tied to the "
            "code by differential runs evaluated inside Coq.",
    "note": "Trusted: Coq kernel + vm_compute; translator gen/wire.go; harness and shim; io.ReadFull/io.CopyN/"
            "bytes.Buffer growth and websocket message framing are modelled, not verified; no axioms.",
    "technique": "Coq proof (induction over schemas/fields) + go/ast translation of schemas + vm_compute correspondence",
}

MODEL = ["theories/Sni/WireCorr.vo"]          # needed to evaluate the model
PROOFS = ["theories/Props/C13.vo", "theories/Sni/WireLegacy.vo"]
STATEMENT_FILES = ["theories/Props/C13.v", "theories/Sni/WireGen.v", "theories/Sni/WireLegacy.v"]
SEMANTIC_TIE = code_tie.functions("C13")   # Go bodies proved equal to the model (Props/C13Code.v)

ERRCODE = {"ok": 0, "eof": 1, "tail": 2, "toolong": 3}
SHAPES = {"one": 1, "half": 2, "dataerr": 3, "zero": 4, "chunk7": 5, "one+dataerr": 6}


def segs(ss):
    parts = []
    for s in ss or []:
        if "rep" in s:
            parts.append("rep %d %d" % (s["rep"][0], s["rep"][1]))
        else:
            bs = bytes.fromhex(s.get("hex", ""))
            parts.append("[" + ";".join(str(b) for b in bs) + "]")
    if not parts:
        return "[]"
    return "(" + " ++ ".join(parts) + ")%list"


def seglen(ss):
    n = 0
    for s in ss or []:
        n += s["rep"][1] if "rep" in s else len(s.get("hex", "")) // 2
    return n


def value(f):
    k = f["k"]
    if k == "u64":
        return "VU64 %s" % f.get("u", "0")
    if k == "int":
        return "VInt (%s)" % f.get("i", "0")
    if k == "bytes":
        return "VBytes %s" % segs(f.get("b"))
    if k == "err":
        if f.get("nil"):
            return "VErr None"
        return "VErr (Some ((%s)%%Z, %s))" % (f.get("i", "0"), segs(f.get("b")))
    raise ValueError(k)


def values(fs):
    return "[" + "; ".join(value(f) for f in fs or []) + "]"


def obs_err(o):
    if o.get("crash"):
        return 9
    return ERRCODE.get(o.get("err", ""), 8)


def to_coq(c):
    o = c["obs"]
    op = c["op"]
    if op == "enc":
        return "CEnc %s %s %s" % (coq_str(c["name"]), values(c.get("fields")), segs(o.get("bytes")))
    if op == "encreply":
        return "CEncReply %s %d %d %s %s %s" % (c["id"], c["typ"], c["ec"], coq_str(c["name"]),
                                               values(c.get("fields")), segs(o.get("bytes")))
    shape = SHAPES.get(c.get("shape") or "", 0)
    if op == "dec" and shape and seglen(c.get("input")) <= 4000:
        # the reader behaviour is part of the case: evaluated on the reader-based model
        return "CDecS %d %s %d %s %s %d %d %s %d" % (
            shape, coq_str(c["name"]), c["cap"], "true" if c["end"] else "false", segs(c.get("input")),
            obs_err(o), o.get("count", 0), values(o.get("fields")), o.get("alloc", 0))
    if op == "start" and shape and seglen(c.get("input")) <= 4000:
        return "CStartS %d %s %d %s %d %s %s %d" % (
            shape, segs(c.get("input")), obs_err(o), o.get("id") or "0", o.get("typ", 0),
            coq_str(o.get("name", "")), values(o.get("fields")), o.get("alloc", 0))
    if op == "dec":
        return "CDec %s %d %s %s %d %d %s %d" % (
            coq_str(c["name"]), c["cap"], "true" if c["end"] else "false", segs(c.get("input")),
            obs_err(o), o.get("count", 0), values(o.get("fields")), o.get("alloc", 0))
    if op == "start":
        return "CStart %s %d %s %d %s %s %d" % (
            segs(c.get("input")), obs_err(o), o.get("id") or "0", o.get("typ", 0),
            coq_str(o.get("name", "")), values(o.get("fields")), o.get("alloc", 0))
    if op == "real":
        pr = {"helloRequest": 1, "dialRequest": 2, "writeRequest": 3, "readRequest": 4, "statusRequest": 5,
              "closeRequest": 6, "dialSideRequest": 8, "dialSide2Request": 9}[c["name"]]
        rerr = {"ok": 0, "eof": 1, "lenoverflow": 3, "hang": 5, "ctx": 5}.get(o.get("rerr", ""), 8)
        return "CReal %d %s %s %s %d %s %d %s %s %d %s %d %s %d %s" % (
            pr, coq_str(c["name"]), values(c.get("sent")), segs(c.get("input")), obs_err(o), o.get("id") or "0",
            o.get("typ", 0), coq_str(o.get("name", "")), values(o.get("fields")), o.get("alloc", 0),
            coq_str(c["rname"]), c.get("cap", 0), segs(c.get("reply")), rerr, values(o.get("rfields")))
    if op == "e2e":
        return "CTRead 0 0 true 0"            # oracle only: real websocket frames of up to 3 MiB
    if op == "hold":
        def hobs(h):
            return "(%d, %s, %d, %s, %s)" % (ERRCODE.get(h.get("err", ""), 8), h.get("id") or "0", h.get("typ", 0),
                                             coq_str(h.get("name", "")), values(h.get("fields")))
        return "CHold [%s] [%s] [%s]" % ("; ".join(segs(f) for f in c.get("frames") or []),
                                       "; ".join(hobs(h) for h in o.get("held") or []),
                                       "; ".join(hobs(h) for h in o.get("after") or []))
    if op == "wrap":
        typ, name, sent = wrap_request(c)
        return "CReal %d %s %s %s %d %s %d %s %s %d %s 0 [] 0 []" % (
            typ, coq_str(name), values(sent), segs(c.get("input")), obs_err(o), o.get("id") or "0",
            o.get("typ", 0), coq_str(o.get("name", "")), values(o.get("fields")), o.get("alloc", 0), coq_str(""))
    if op == "tread":
        return "CTRead %d %d %s %d" % (c["buflen"], c["replen"], "true" if o.get("err") == "ok" else "false",
                                       o.get("n", 0))
    if op == "hread":
        return "CHRead (%s)%%Z %d %s %d %d" % (
            c["maxread"], c["avail"], "true" if o.get("crash") else "false", o.get("n", 0), o.get("code", 0))
    raise ValueError(op)


def seg_bytes(ss):
    out = bytearray()
    for s in ss or []:
        if "rep" in s:
            out += bytes([s["rep"][0]]) * s["rep"][1]
        else:
            out += bytes.fromhex(s.get("hex", ""))
    return bytes(out)


def canon(f):
    """A field value as the property compares it (what was encoded vs what was decoded)."""
    k = f["k"]
    if k == "u64":
        return (k, int(f.get("u", "0")))
    if k == "int":
        return (k, int(f.get("i", "0")))
    if k == "bytes":
        return (k, seg_bytes(f.get("b")))
    if f.get("nil") or int(f.get("i", "0")) == 0:
        return (k, None)                       # error code 0 is "no error" on the wire
    return (k, int(f.get("i", "0")), seg_bytes(f.get("b")))


def short(vals):
    out = []
    for v in vals:
        out.append(tuple((x[:12] + b"..(%d bytes)" % len(x)) if isinstance(x, bytes) and len(x) > 16 else x for x in v))
    return repr(out)[:300]


def same_fields(a, b):
    return [canon(f) for f in a or []] == [canon(f) for f in b or []]


def wrap_request(c):
    """(type code, request message, fields) that the call site must put on the wire for its arguments."""
    a = c["sent"]
    n = c["name"]
    if n == "hello":
        return 1, "helloRequest", [a[0]]
    if n == "write":
        return 3, "writeRequest", [a[0], a[1]]
    if n == "read":
        return 4, "readRequest", [a[0], a[1]]
    return 6, "closeRequest", [a[0]]


def wrap_oracle(c):
    o = c["obs"]
    typ, name, sent = wrap_request(c)
    if o.get("err") != "ok" or o.get("name") != name or o.get("typ") != typ or not same_fields(o.get("fields"), sent):
        return "call site %s: the request on the wire is %s %r, its arguments say %s %r" % (
            c["name"], o.get("name"), o.get("fields"), name, sent)
    rs = c["rsent"]
    e = canon(rs[-1]) if rs and rs[-1]["k"] == "err" else ("err", None)
    want_err = "ok" if e[1] is None else ("ioeof" if e[1] == 10 else "remote")
    n = c["name"]
    if n == "hello":
        if o.get("rerr") != "ok" or seg_bytes(o.get("rbytes")) != canon(rs[0])[1]:
            return "call site hello: returned %r (%s), the reply carries %r" % (seg_bytes(o.get("rbytes")), o.get("rerr"), canon(rs[0])[1])
        return None
    if n == "read":
        data = canon(rs[0])[1]
        buflen = int(c["sent"][1]["i"])
        if len(data) > buflen:
            want_err, want_n, data = "other", 0, b""
        else:
            want_n = len(data)
        if not o.get("rerr", "").startswith(want_err) or o.get("n") != want_n or seg_bytes(o.get("rbytes")) != data:
            return "call site read: returned n=%r err=%s, the reply carries %d bytes and error %r (buffer %d)" % (
                o.get("n"), o.get("rerr"), len(canon(rs[0])[1]), e[1:], buflen)
        return None
    want_n = canon(rs[0])[1] if n == "write" else 0
    if o.get("rerr") != want_err or o.get("n") != want_n:
        return "call site %s: returned n=%r err=%s, the reply says n=%r error %r" % (n, o.get("n"), o.get("rerr"), want_n, e[1:])
    return None


def impl_oracle(c):
    """Implementation-only reading of the property on one case: returns a
    description of the failure, or None."""
    o = c["obs"]
    if o.get("crash"):
        return "decoding crashed the process: %s" % o["crash"][:200]
    if c["op"] == "e2e":
        # a legal frame, however large its field: the value arrives, the tunnel stays up
        if o.get("rerr") != "ok" or o.get("n") != c["avail"] or o.get("err") != "ok":
            return ("big frame: %s of %d bytes between the real client and the real endpoint: result %s (%r bytes), "
                    "endpoint side %s" % (c["name"], c["avail"], o.get("rerr"), o.get("n"), o.get("err")))
        return None
    if c["op"] == "wrap":
        return wrap_oracle(c)
    if c["op"] == "hold":
        # every request still decodes to exactly the values that were encoded AFTER the later frames
        # have been decoded on the same endpoint
        for i, (name, sent) in enumerate(zip(c.get("fnames") or [], c.get("fsent") or [])):
            for when, obs in (("when decoded", o.get("held") or []), ("after %d later frame(s) were decoded" % (len(c["fnames"]) - 1 - i),
                                                                     o.get("after") or [])):
                h = obs[i] if i < len(obs) else {}
                if h.get("err") != "ok" or h.get("name") != name or not same_fields(h.get("fields"), sent):
                    got = [canon(f) for f in h.get("fields") or []]
                    return ("held request changed: request %d (%s) %s: its fields read %s, encoded were %s" % (
                        i, name, when, short(got), short([canon(f) for f in sent])))
        return None
    if c["op"] == "real":
        # every call kind through the real client transport and the real server entry
        if o.get("err") != "ok":
            return "request frame: the server entry rejected what the real client sent (%s)" % o.get("err")
        if c["name"] != "statusRequest" and (o.get("name") != c["name"] or not same_fields(o.get("fields"), c.get("sent"))):
            return "request frame: the server entry decoded other field values than the client encoded"
        want = "ok" if c["scen"] in ("ok", "tail") or (c["scen"] == "cut" and not c.get("cut")) else "eof"
        if o.get("rerr") != want:
            return "reply frame: scenario %s (%d bytes): the caller got %r, expected %r" % (c["scen"], c.get("cut", 0), o.get("rerr"), want)
        if want == "ok" and not same_fields(o.get("rfields"), c.get("rsent")):
            return "reply frame: the caller sees other field values than the peer encoded"
        return None
    if c["op"] == "dec" and c.get("sent") is not None and c["stream"] in ("roundtrip", "err-empty-message"):
        if o.get("err") != "ok":
            return "roundtrip: a well-formed body was rejected (%s)" % o.get("err")
        if not same_fields(o.get("fields"), c["sent"]):
            return "roundtrip: decoded field values differ from the encoded ones"
        if o.get("count") != seglen(c.get("input")):
            return "roundtrip: consumed %r bytes of the %d produced" % (o.get("count"), seglen(c.get("input")))
    inlen = seglen(c.get("input"))
    if c["op"] in ("dec", "start") and o.get("alloc", 0) > 8 * inlen + 1024 * 1024:
        return "decoding %d input bytes allocated %d bytes" % (inlen, o["alloc"])
    if c["op"] == "hread" and o.get("alloc", 0) > 8 * 1024 * 1024:
        return "read request with size %s allocated %d bytes" % (c["maxread"], o["alloc"])
    if c["op"] == "tread":
        if o.get("err") == "hang":
            return "tunnel.Read did not return within 10 s"
        if o.get("err") == "outside":
            return ("tunnel.Read into a %d-byte window (capacity reaching 48 KiB further) of a sentinel-filled page: the "
                    "reply of %d bytes changed memory outside the window" % (c["buflen"], c["replen"]))
        if o.get("err") == "ok" and o.get("n", 0) > c["buflen"]:
            return "tunnel.Read returned more bytes than the buffer holds: n=%d for a %d-byte buffer" % (o["n"], c["buflen"])
        return None
    if c["stream"] in ("prefix",) and o.get("err") == "ok":
        return "truncated frame decoded without error"
    if c["stream"] == "tail" and o.get("err") == "ok":
        return "trailing bytes not reported"
    if c["stream"] == "tail-accepted" and o.get("err") == "ok":
        return "trailing bytes accepted: a request frame of type %s followed by stray bytes was taken as a complete request" % o.get("typ")
    return None

def big_sizes():
    """Payload sizes of the big-frame stream: both sides of every integer the package names (the
    translator lists literals and constants >= 256: l-1, l, l+1, 2l+1), 1 MiB + 1 KiB +- 1, 3 MiB."""
    import re
    lits = []
    try:
        m = re.search(r"gen_sni_int_literals : list N := \[([^\]]*)\]",
                      open(os.path.join(vlib.COQ, "theories", "Gen", "WireSchema.v")).read())
        lits = [int(x.replace("%N", "")) for x in m.group(1).split(";") if x.strip()] if m else []
    except OSError:
        pass
    sizes = {(1 << 20) + 1023, (1 << 20) + 1024, (1 << 20) + 1025, 3 << 20}
    for l in lits:
        if l <= 2 << 20:
            sizes |= {l - 1, l, l + 1, 2 * l + 1}
    return sorted(sizes)


def explore(ck, binp, seed, ncases, model_ok, first):
    cases = []
    rc, out, err = vlib.sh2([binp, "-seed", str(seed), "-n", str(ncases), "-sizes", ",".join(map(str, big_sizes()))], timeout=1500)
    if rc != 0:
        ck.broken.append({"what": "harness run failed", "detail": err[-1500:]})
    for line in out.splitlines():
        if line.startswith("{"):
            cases.append(json.loads(line))

    # implementation-only oracle (also the search for a failing input)
    for c in cases:
        trivial = seglen(c.get("input")) == 0 and c["op"] in ("dec", "start")
        ck.count(c["stream"], key=(c["op"], c.get("name"), json.dumps(c.get("input")),
                                   json.dumps(c.get("fields")), c.get("cap"), c.get("maxread"), c.get("avail"),
                                   c.get("buflen"), c.get("replen"), c.get("shape"), c.get("scen"), json.dumps(c.get("sent")),
                                   json.dumps(c.get("rsent")), c.get("cut"), json.dumps(c.get("frames")),
                                   c.get("avail") if c["op"] == "e2e" else None),
                 trivial=trivial)
        why = impl_oracle(c)
        if why and c.get("shape"):
            why += " (reader behaviour: %s)" % c["shape"]
        if why:
            ck.violation("impl:tail-accepted" if c["stream"] == "tail-accepted" else
                         "impl:%s:%s" % (c["stream"], why.split(":")[0].split(" (reader")[0]), why,
                         {"case": c, "expected": "error value without crash, allocation proportional to input",
                          "observed": c["obs"]})
    if first:
        for c in cases[:2] + cases[80:82] + cases[-2:]:
            ck.sample({k: c[k] for k in c if k != "i"})

    # correspondence: model evaluated inside Coq on the same inputs
    if cases and model_ok:
        # ~15-50 s and 1-2 GB per 1 500 cases measured; small shards keep eight parallel
        # evaluations well inside memory and make a failing shard cheap to look at
        shard = 700 if len(cases) <= 4000 else 500
        mism = []
        mism_dep = []
        jobs = []
        for s in range(0, len(cases), shard):
            part = cases[s:s + shard]
            txt = ("From Coq Require Import List NArith ZArith String.\n"
                   "From Verif Require Import Lib.Bytes Sni.Wire Sni.WireChunks Sni.WireReader Sni.WireOwn Sni.WireCorr.\n"
                   "Import ListNotations.\nLocal Open Scope N_scope.\nLocal Open Scope string_scope.\n"
                   "Definition cases : list ccase := [\n  "
                   + ";\n  ".join(to_coq(c) for c in part) + "\n].\n"
                   "Definition M := Eval vm_compute in mismatches cases.\nPrint M.\n"
                   "Definition MD := Eval vm_compute in mismatches_deployed cases.\nPrint MD.\n")
            jobs.append((s, "cases_%d_%d" % (seed, s // shard), txt))
        from concurrent.futures import ThreadPoolExecutor
        with ThreadPoolExecutor(max_workers=8) as ex:
            results = list(ex.map(lambda j: (j[0],) + ck.coq_eval(j[1], j[2], timeout=600 + shard), jobs))
        for s, rc, out in results:
            got = vlib.parse_coq_list_of_nat(out, "M") if rc == 0 else None
            gotd = vlib.parse_coq_list_of_nat(out, "MD") if rc == 0 else None
            if got is None or gotd is None:
                # rc < 0: coqc was killed by that signal (-9: out of memory); 124: the timeout
                ck.broken.append({"what": "correspondence evaluation failed", "shard": "cases_%d_%d" % (seed, s // shard),
                                  "exit_status": rc, "cases": "%d..%d" % (s, min(s + shard, len(cases)) - 1),
                                  "detail": (out[-1500:] if out.strip() else
                                             "coqc produced no output (exit status %d%s)"
                                             % (rc, ": killed by signal %d, most likely out of memory" % -rc if rc < 0 else ""))})
                break
            mism += [s + i for i in got]
            mism_dep += [s + i for i in gotd]
        ck.coverage["correspondence_cases"] = ck.coverage.get("correspondence_cases", 0) + len(cases)
        ck.coverage["correspondence_mismatches"] = ck.coverage.get("correspondence_mismatches", 0) + len(mism)
        for i in mism[:50]:
            c = cases[i]
            ck.broken.append({"what": "correspondence: model and implementation disagree",
                              "stream": c["stream"], "case_index": i, "seed": seed})
            why = impl_oracle(c)
            if why is None:
                # the case itself is the replay: the implementation does not behave as the
                # proved model on it (e.g. a changed byte layout or a wrong field value)
                why = "implementation output differs from the proved model of the deployed codec"
                ck.violation("corr:%s:%s" % (c["stream"], c["op"]), why,
                             {"case": c, "model": "Sni/Wire.v evaluated by vm_compute disagrees",
                              "observed": c["obs"]})
        ck.coverage["deployed_protocol_mismatches"] = ck.coverage.get("deployed_protocol_mismatches", 0) + len(mism_dep)
        for i in [i for i in mism_dep if i not in set(mism)][:50]:
            c = cases[i]
            ck.broken.append({"what": "deployed protocol: the current code treats a deployed frame differently",
                              "stream": c["stream"], "case_index": i, "seed": seed})
            ck.violation("deployed:%s:%s" % (c["stream"], c["op"]),
                         "a frame of the deployed protocol is encoded/decoded differently by the current code",
                         {"case": c, "model": "Sni/Wire.v deployed_schemas/deployed_table disagree",
                          "observed": c["obs"]})
    elif cases and not model_ok:
        ck.broken.append({"what": "model does not compile; correspondence not evaluated"})


def run(ck):
    ncases = 3900 if not ck.thorough else 25300
    ck.gen()
    built = ck.coq_make(MODEL + PROOFS, clean=ck.thorough)
    ck.obligations = ck.count_statements(STATEMENT_FILES)
    proofs_ok = all(built.get(x) for x in PROOFS)
    if proofs_ok:
        if ck.audit("theories/Props/C13.v"):
            ck.discharged = list(ck.obligations)
    if ck.thorough and proofs_ok:
        ck.coqchk(["Verif.Props.C13"])
    code_tie.run(ck, "C13")

    binp = ck.build_harness("c13")
    model_ok = all(built.get(x) for x in MODEL)
    if binp:
        explore(ck, binp, ck.seed, ncases, model_ok, first=True)
        if ck.broken and not any(v["found_input"] for v in ck.violations):
            # something no longer checks but no concrete failing input yet: widen the search
            # capped: a run with a broken obligation ends within ~4 min (quick) / ~15 min (thorough)
            extra = 2 * ncases if not ck.thorough else 8000
            ck.log("searching for a failing input with a larger sample (%d cases)" % extra)
            explore(ck, binp, ck.seed + 7919, extra, model_ok, first=False)

    return ck.finish(
        level="proof",
        checker_cmd="bin/check C13 (gen -> make -C coq theories/Props/C13.vo -> Print Assumptions audit"
                    " -> harness c13 vs vm_compute of Sni/WireCorr.v)",
        trusted=["Coq 8.16.1 kernel + vm_compute", "translator gen/wire.go (field lists, codes, pairing, constants)",
                 "harness/cmd/c13 + checks/c13.py comparison", "sniproxy/verif_export.go, verif_readers.go, verif_rpc.go shims",
                 "modelled not verified: io.ReadFull/io.CopyN/bytes.Buffer growth, websocket framing"],
        rule="seeded generation (splitmix64) over {encode, roundtrip, prefix, tail, mutated-length, garbage, "
             "request-frame, reply-frame} plus fixed hostile-length and read-size frames, all 256 error codes, empty "
             "error messages, >64 KiB fields cut inside, tails around end()'s buffer sizes, every schema under six "
             "reader delivery shapes (one byte, half, <=7 bytes, zero-length reads, data together with io.EOF), and "
             "every call kind through the real client transport and the real server entry with well-formed / cut / "
             "tailed / error-byte replies; a case is non-trivial "
             "unless its input is empty; distinct = distinct (op, message, input, fields, cap)",
        assumptions=["64-bit int", "the writer given to the encoder does not fail",
                     "reply trailing bytes are discarded by design (transport.go TODO)"])
