"""C18 — content-addressed objects and checked streams never yield wrong bytes (DESIGN.md §7 C18)."""
import hashlib
import json
import os
import shutil
from concurrent.futures import ThreadPoolExecutor

import code_tie
import vlib

META = {
    "category": "proof",
    "text": "Coq theorems over executable models: (fs store) for any number of concurrent Create calls, every "
            "interleaving, every failing system call and every input-reader script (all chunkings, (n>0,EOF)/(0,EOF) "
            "endings, failure after any byte) - each object file hashes to its name, Open returns such bytes or "
            "not-found, a returned key is the hash of the whole input, a failed call never wrote an object, every "
            "temp file belongs to a call still running, no deadlock, no panic; (mem/mapped stores) the same under "
            "clients that overwrite every slice they hold; (CheckReader) EOF iff the underlying stream ended cleanly "
            "with the expected digest and declared length, for every chunking. The statement order of "
            "fsObjects.Create/commit, isValidKey's syntax and mem's copy-in/copy-out are regenerated from /repo on "
            "every run and the theorems are stated over those generated objects; the models are tied to the code by "
            "differential runs (fault enumeration, forced and free interleavings, every corruption/truncation/"
            "extension) evaluated inside Coq.  Round 3: what a generation of calls leaves is a well-formed directory for "
            "a store object opened later (restart), strings that are not keys are never found and a key is one plain file "
            "name, the mapped store over ANY user Store hands on a result only when the Store reported no error (all three "
            "result shapes); the harness also reopens stores, plants files that path-like keys would reach, injects "
            "staging-directory and write failures, drives Hash/HashStr/HashReader/HashFile and the JSON helpers over "
            "misbehaving user Objects, and check readers over sources that continue after errors.",
    "note": "Trusted: Coq kernel + vm_compute; translator gen/obj.go; harness; SHA-256 is a function parameter "
            "(table instance computed by Go); rename(2) atomicity, unique temp names, success of the deferred "
            "os.Remove, sync.RWMutex and the OS file system are modelled, not verified; no crash-durability claim "
            "(Create does not fsync); no axioms.",
    "technique": "Coq invariant proof over a go/ast-extracted statement skeleton + induction over reader scripts + "
                 "vm_compute correspondence with fault enumeration and forced schedules",
}

MODEL = ["theories/Obj/ObjText.vo"]
PROOFS = ["theories/Props/C18.vo"]
STATEMENT_FILES = ["theories/Props/C18.v", "theories/Obj/ObjGen.v"]
SEMANTIC_TIE = code_tie.functions("C18")   # Go bodies proved equal to the model (Props/C18Code.v)


def sha(b):
    return hashlib.sha256(b).hexdigest()


# ---------------------------------------------------------------- JSON -> bytes

def seg_bytes(ss):
    out = bytearray()
    for s in ss or []:
        if "rep" in s:
            out += bytes([s["rep"][0]]) * s["rep"][1]
        elif "gen" in s:
            seed, off, n = s["gen"]
            b0, step = seed & 255, ((seed >> 8) & 255) | 1
            out += bytes((b0 + (off + i) * step) & 255 for i in range(n))
        else:
            out += bytes.fromhex(s.get("hex", ""))
    return bytes(out)


def script_delivered(script):
    """bytes up to the first terminal status, status (1 eof / 2 fail), error code"""
    if not script:
        return b"", 1, 0
    content = seg_bytes(script.get("c"))
    pos = 0
    for n, st, e in script.get("k", []):
        pos += n
        if st != 0:
            return content[:pos], st, e
    return content[:pos], 1, 0


# ---------------------------------------------------------------- JSON -> text for Obj/ObjText.v
# numbers: decimal; bytes: x<hex>; lists: ( ... )

def tx_segs(ss):
    parts = []
    for s in ss or []:
        if "rep" in s:
            parts.append("(0 %d %d)" % (s["rep"][0], s["rep"][1]))
        elif "gen" in s:
            parts.append("(1 %d %d %d)" % tuple(s["gen"]))
        elif s.get("hex"):
            parts.append("x" + s["hex"])
    return "(" + " ".join(parts) + ")"


def tx_list(items):
    return "(" + " ".join(items) + ")"


def tx_script(script):
    if not script:
        return "()"
    return "(%s %s)" % (tx_segs(script.get("c")),
                        " ".join(("(%d %d %d)" % (n, st, e)) if st else str(n) for n, st, e in script.get("k", [])))


class Tab:
    """digest table of one case; keys that are the hex of a row's digest are written as (row)"""

    def __init__(self, rows):
        self.rows = rows or []
        self.index = {}
        for i, r in enumerate(self.rows):
            self.index.setdefault(r[1], i)

    def text(self):
        return tx_list("(%s x%s)" % (tx_segs(r[0]), r[1]) for r in self.rows)

    def key(self, k):
        if k in self.index:
            return "(%d)" % self.index[k]
        return "x" + k.encode("utf-8").hex()


OBS_TAG = {"erros": 2, "panic": 3, "notfound": 6, "unit": 8}


def tx_obs(tab, o):
    t = o["t"]
    if t == "key":
        return "(0 %s)" % tab.key(o["key"])
    if t == "errin":
        return "(1 %d)" % o.get("e", 0)
    if t == "found":
        return "(5 %s)" % tx_segs(o.get("b"))
    if t == "bool":
        return "(7 %d)" % (1 if o.get("v") else 0)
    return "(%d)" % OBS_TAG.get(t, 4)


FAULT_CODE = {"createtemp": 0, "rename": 1, "tmpisfile": 0, "tmpgone": 0, "tmpstillgone": 0, "teewrite": 2}
HARNESS_ONLY_OPS = ("newfs", "plant")      # no effect on the modelled directory state (NewFS = MkdirAll of tmp/)


def tx_fop(tab, op):
    if op["op"] == "create":
        if op.get("fault"):
            return "(1 %s %d)" % (tx_script(op.get("script")), FAULT_CODE[op["fault"]])
        return "(0 %s)" % tx_script(op.get("script"))
    return "(%d %s)" % (2 if op["op"] == "open" else 3, tab.key(op.get("key", "")))


HOP_KEYED = {"get": 4, "open": 5, "has": 6, "popen": 8, "phas": 9}


def tx_hop(tab, op):
    o = op["op"]
    if o == "alloc":
        return "(0 %s)" % tx_segs(op.get("b"))
    if o == "mutate":
        return "(1 %d %s)" % (op.get("h", 0), tx_segs(op.get("b")))
    if o == "put":
        return "(2 %d)" % op.get("h", 0)
    if o == "create":
        return "(3 %s)" % tx_script(op.get("script"))
    if o == "pcreate":
        return "(7 %s)" % tx_script(op.get("script"))
    if o == "ucreate":
        return "(10 %s %d %d)" % (tx_script(op.get("script")), op.get("h", 0), op.get("e", 0))
    if o in ("uopen", "uhas"):
        return "(%d %s %d %d)" % (11 if o == "uopen" else 12, tab.key(op.get("key", "")), op.get("h", 0), op.get("e", 0))
    return "(%d %s)" % (HOP_KEYED[o], tab.key(op.get("key", "")))


def tx_trace(tr):
    if not tr:
        return "()"
    return "(%s %s)" % (tx_segs(tr.get("c")),
                        " ".join(("(%d %d)" % (n, c)) if c else str(n) for n, c in tr.get("k", [])))


def tx_Z(n):
    return "%d %d" % (0 if n >= 0 else 1, abs(n))


def to_text(c):
    st = c["stream"]
    tab = Tab(c.get("tab"))
    if st == "hash":
        def xop(op):
            if op.get("fault"):
                return "(4)"
            if op["op"] == "hashreader":
                return "(2 %s)" % tx_script(op.get("script"))
            return "(0 %s)" % tx_segs(op.get("b"))
        return "(6 %s %s %s)" % (tab.text(), tx_list(xop(o) for o in c["ops"]), tx_list(tx_obs(tab, o) for o in c["obs"]))
    if st.startswith("fs-"):
        fin = c.get("final") or {}
        pairs = [(op, o) for op, o in zip(c["ops"], c["obs"]) if op["op"] not in HARNESS_ONLY_OPS]
        return "(0 %s %s %s %s %d)" % (
            tab.text(), tx_list(tx_fop(tab, op) for op, _ in pairs), tx_list(tx_obs(tab, o) for _, o in pairs),
            tx_list(tab.key(k) for k in fin.get("keys", [])), len(fin.get("tmps", [])))
    if st == "sched":
        steps = []
        for s in c["steps"]:
            ls = s["ls"]
            steps.append("(%d %s %s %s)" % (
                s["tid"], tx_list(tab.key(k) for k in ls.get("keys", [])),
                tx_list(tx_segs(t) for t in ls.get("tmps", [])),
                tx_list("(%s %s)" % (tab.key(p["key"]), tx_obs(tab, p["obs"])) for p in s.get("probes", []))))
        return "(1 %s %s %s %s %d)" % (tab.text(), tx_list(tx_script(s) for s in c["scripts"]), tx_list(steps),
                                       tx_list(tx_obs(tab, o) for o in c["results"]),
                                       1 if c.get("kind") == "fs2" else 0)
    if st == "free":
        fin = c.get("final") or {}
        return "(2 %s %s %s %s %d %s)" % (
            tab.text(), tx_list(tx_script(s) for s in c["scripts"]), tx_list(tx_obs(tab, o) for o in c["results"]),
            tx_list(tab.key(k) for k in fin.get("keys", [])), len(fin.get("tmps", [])),
            tx_list("(%s %s)" % (tab.key(p["key"]), tx_obs(tab, p["obs"])) for p in c.get("opens", [])))
    if st.startswith("mem-"):
        return "(3 %s %s %s)" % (tab.text(), tx_list(tx_hop(tab, o) for o in c["ops"]),
                                 tx_list(tx_obs(tab, o) for o in c["obs"]))
    if st.startswith("cr-"):
        if c.get("ctor") == "str":
            return "(5 %s x%s %s %d %s %s)" % (tab.text(), c.get("hstr", "").encode("utf-8").hex(), tx_Z(c["n"]),
                                              c.get("ctorcode", 0), tx_script(c.get("script")),
                                              tx_trace(c.get("trace")))
        return "(4 %s x%s %s %s %s)" % (tab.text(), c.get("want", ""), tx_Z(c["n"]),
                                        tx_script(c.get("script")), tx_trace(c.get("trace")))
    raise ValueError(st)


# ---------------------------------------------------------------- oracle
# Reads the property directly off what the implementation did.  Returns a list
# of (classification, description).

def check_ls(ls, expected, where, out):
    if ls is None:
        return
    if ls.get("badobjs"):
        out.append(("object-content-does-not-hash-to-its-name", "%s: %s" % (where, ls["badobjs"][:2])))
    if ls.get("tmps"):
        out.append(("temporary-file-left-behind", "%s: %d file(s) in tmp/" % (where, len(ls["tmps"]))))
    if ls.get("odd"):
        out.append(("foreign-entry-in-store-directory", "%s: %s" % (where, ls["odd"][:3])))
    if expected is not None and sorted(ls.get("keys", [])) != sorted(expected):
        extra = sorted(set(ls.get("keys", [])) - set(expected))
        missing = sorted(set(expected) - set(ls.get("keys", [])))
        if extra:
            out.append(("object-present-that-no-successful-create-produced", "%s: %s" % (where, extra[:2])))
        if missing:
            out.append(("object-of-a-successful-create-missing", "%s: %s" % (where, missing[:2])))


def oracle_create(o, script, fault, expected, where, out):
    """o: observation of a Create over `script`; updates expected (key -> content)."""
    content, st, e = script_delivered(script)
    if o["t"] == "timeout":
        out.append(("call-did-not-return", "%s: Create still running after 30 s" % where))
        return
    if st == 1 and not fault:
        if o["t"] != "key":
            out.append(("create-failed-on-a-good-input", "%s: %s %s" % (where, o["t"], o.get("msg", ""))))
        elif o["key"] != sha(content):
            out.append(("create-returned-a-key-that-is-not-the-sha256-of-the-content",
                        "%s: got %s want %s" % (where, o["key"], sha(content))))
        else:
            expected.setdefault(o["key"], content)
    elif st == 2:
        if o["t"] == "key":
            out.append(("create-succeeded-although-the-input-failed", "%s: input failed after %d bytes" % (where, len(content))))
        elif o["t"] == "panic":
            out.append(("create-panicked", "%s: %s" % (where, o.get("msg", ""))))
    else:
        if o["t"] == "key" and o["key"] != sha(content):
            out.append(("create-returned-a-key-that-is-not-the-sha256-of-the-content", where))
        elif o["t"] == "key":
            expected.setdefault(o["key"], content)
        elif o["t"] == "panic":
            out.append(("create-panicked", "%s: %s" % (where, o.get("msg", ""))))


def oracle_read(o, key, expected, where, out, strict_absent=True):
    if o["t"] == "timeout":
        out.append(("call-did-not-return", "%s: Open still running after 30 s" % where))
    elif o["t"] == "found":
        got = seg_bytes(o.get("b"))
        if sha(got) != key:
            out.append(("open-returned-bytes-that-do-not-hash-to-the-key",
                        "%s: key %s.. got %d bytes hashing to %s.." % (where, key[:12], len(got), sha(got)[:12])))
        elif key in expected and got != expected[key]:
            out.append(("open-returned-wrong-bytes", where))
        elif strict_absent and key not in expected:
            out.append(("open-found-an-object-nobody-created", where))
    elif o["t"] == "notfound":
        if strict_absent and key in expected:
            out.append(("created-object-not-found", "%s: key %s.." % (where, key[:12])))
    else:
        out.append(("open-failed", "%s: %s %s" % (where, o["t"], o.get("msg", ""))))


def oracle_shape(op, o, where, out):
    """a concrete reader type standing at offset k: Create read it from there to its end, as io.Copy would"""
    if not op.get("shape") or o.get("pos") is None:
        return
    total = len(seg_bytes(op.get("b")))
    if o["t"] == "key" and o["pos"] != total:
        out.append(("reader-not-left-where-a-sequential-read-to-the-end-leaves-it",
                    "%s: a %s reader of %d bytes handed in at offset %d stands at %d after Create"
                    % (where, op["shape"], total, op.get("k", 0), o["pos"])))


ERR_VALUES = {200: "io.ErrUnexpectedEOF", 201: "io.ErrClosedPipe", 202: "io.ErrShortBuffer", 203: "io.ErrNoProgress",
              204: "os.ErrDeadlineExceeded", 205: "context.Canceled", 206: 'fmt.Errorf("%w", io.EOF)',
              207: "an error whose Is(io.EOF) is true", 208: "io.ErrShortWrite",
              209: 'fmt.Errorf("%w", io.ErrUnexpectedEOF)', 210: 'errors.New("EOF")', 255: "a panic"}


def oracle_failed_input(op, o, expected, where, out):
    """a Create whose input failed (any read error but the bare io.EOF) returns an error and leaves nothing"""
    content, st_, e_ = script_delivered(op.get("script"))
    if st_ != 2:
        return
    ls = op.get("ls") or {}
    stray = sorted(set(ls.get("keys", [])) - set(expected))
    if o["t"] == "key" or stray or ls.get("tmps"):
        what = ("%s: the input failed with %s after %d byte(s)%s; Create returned %s; the store directory then holds "
                "object(s) %s (created by nobody) and %d temp file(s)"
                % (where, ERR_VALUES.get(e_, "a custom error value (code %d)" % e_), len(content),
                   " [a %s reader]" % op["shape"] if op.get("shape") else "",
                   "the key %s and a nil error" % o.get("key") if o["t"] == "key" else "an error (%s)" % o["t"],
                   [k[:16] + ".." for k in stray] or "none", len(ls.get("tmps") or [])))
        out.append(("fs-fault:created-from-failed-input", what))


def oracle_fs_hist(c):
    out = []
    expected = {}
    for i, (op, o) in enumerate(zip(c["ops"], c["obs"])):
        where = "op %d (%s)" % (i, op["op"])
        if op.get("shape"):
            where += " [%s reader handed in at offset %d of its %d bytes]" % (op["shape"], op.get("k", 0), len(seg_bytes(op.get("b"))))
        if op["op"] == "create":
            oracle_create(o, op.get("script"), op.get("fault"), expected, where, out)
            oracle_shape(op, o, where, out)
            oracle_failed_input(op, o, expected, where, out)
        elif op["op"] == "open":
            oracle_read(o, op.get("key", ""), expected, where, out)
        elif op["op"] == "has":
            if o["t"] != "bool" or bool(o.get("v")) != (op.get("key", "") in expected):
                out.append(("has-answered-wrongly", "%s: %s" % (where, o)))
        elif op["op"] == "newfs":
            if o["t"] != "unit":
                out.append(("store-could-not-be-opened-again-on-its-own-directory", "%s: %s %s" % (where, o["t"], o.get("msg", ""))))
        check_ls(op.get("ls"), list(expected), "after " + where, out)
    check_ls(c.get("final"), list(expected), "at the end", out)
    fds = c.get("fds") or [0, 0]
    if fds[0] >= 0 and fds[1] > fds[0]:
        out.append(("file-descriptor-left-open", "%d descriptors before the history, %d after" % (fds[0], fds[1])))
    if c.get("strays", "ok") != "ok":
        out.append(("foreign-file-touched", c["strays"]))
    return out


def oracle_mem_hist(c):
    out = []
    expected = {}
    handles = []
    for i, (op, o) in enumerate(zip(c["ops"], c["obs"])):
        where = "op %d (%s)" % (i, op["op"])
        if op.get("shape"):
            where += " [%s reader handed in at offset %d of its %d bytes]" % (op["shape"], op.get("k", 0), len(seg_bytes(op.get("b"))))
        k = op.get("key", "")
        name = op["op"]
        if name == "alloc":
            handles.append(seg_bytes(op.get("b")))
        elif name == "mutate":
            if op.get("h", 0) < len(handles):
                handles[op["h"]] = seg_bytes(op.get("b"))
        elif name == "put":
            if op.get("h", 0) < len(handles):
                content = handles[op["h"]]
                if o["t"] != "key" or o["key"] != sha(content):
                    out.append(("put-returned-a-key-that-is-not-the-sha256-of-the-content", where))
                else:
                    expected.setdefault(o["key"], content)
        elif name in ("create", "pcreate"):
            oracle_create(o, op.get("script"), None, expected, where, out)
            oracle_shape(op, o, where, out)
        elif name == "ucreate":
            shape = op.get("h", 0)
            content, st_, e_ = script_delivered(op.get("script"))
            if shape == 0 or st_ != 1:
                oracle_create(o, op.get("script"), None, expected, where, out)
            else:
                # the user's Store failed in Put (shape 2: after storing, returning the key WITH the error)
                if o["t"] == "key":
                    out.append(("mapped-create-returned-a-key-although-the-store-reported-an-error",
                                "%s: Put returned %s and error %d" % (where, "the key" if shape == 2 else "no key", op.get("e", 0))))
                elif o["t"] != "errin" or o.get("e") != op.get("e", 0):
                    out.append(("mapped-create-lost-the-store-error", "%s: %s" % (where, o)))
                if shape == 2:
                    expected.setdefault(sha(content), content)
        elif name in ("uopen", "uhas") and op.get("h", 0) != 0:
            # the user's Store failed (shape 2: handing out bytes / true TOGETHER with the error)
            if o["t"] in ("found", "bool", "notfound"):
                out.append(("mapped-%s-returned-a-result-although-the-store-reported-an-error" % name[1:],
                            "%s: Store returned %s and error %d; mapped store answered %s"
                            % (where, "a non-zero result" if op["h"] == 2 else "the zero result", op.get("e", 0), o["t"])))
            elif o["t"] != "errin" or o.get("e") != op.get("e", 0):
                out.append(("mapped-%s-lost-the-store-error" % name[1:], "%s: %s" % (where, o)))
        elif name == "get":
            if o["t"] == "found":
                got = seg_bytes(o.get("b"))
                handles.append(got)
                if sha(got) != k or (k in expected and got != expected[k]):
                    out.append(("stored-object-changed-after-a-client-wrote-into-a-slice-it-held",
                                "%s: Get(%s..) returned %d bytes hashing to %s.." % (where, k[:12], len(got), sha(got)[:12])))
            elif o["t"] == "notfound":
                if k in expected:
                    out.append(("created-object-not-found", where))
            else:
                out.append(("get-failed", "%s: %s" % (where, o)))
        elif name in ("open", "popen", "uopen"):
            if o["t"] == "found" and k in expected and seg_bytes(o.get("b")) != expected[k]:
                out.append(("stored-object-changed-after-a-client-wrote-into-a-slice-it-held",
                            "%s: %s(%s..) returned bytes hashing to %s.." % (where, name, k[:12], sha(seg_bytes(o.get("b")))[:12])))
            else:
                oracle_read(o, k, expected, where, out)
        elif name in ("has", "phas", "uhas"):
            if o["t"] != "bool" or bool(o.get("v")) != (k in expected):
                out.append(("has-answered-wrongly", "%s: %s" % (where, o)))
    return out


def oracle_sched(c):
    out = []
    contents = [script_delivered(s) for s in c["scripts"]]
    ok_keys = {}
    for t, (o, (content, st, e)) in enumerate(zip(c["results"], contents)):
        where = "thread %d" % t
        if o["t"] == "timeout":
            out.append(("create-did-not-return", where))
            continue
        oracle_create(o, c["scripts"][t], None, ok_keys, where, out)
    possible = {sha(content): content for content, st, e in contents if st == 1}
    for i, s in enumerate(c["steps"]):
        where = "after schedule step %d (thread %d)" % (i, s["tid"])
        check_ls(dict(s["ls"], tmps=[]), None, where, out)
        for k in s["ls"].get("keys", []):
            if k not in possible:
                out.append(("object-present-that-no-successful-create-produced", "%s: %s" % (where, k)))
        for p in s.get("probes", []):
            oracle_read(p["obs"], p["key"], possible, where + " probe", out, strict_absent=False)
    check_ls(c.get("final"), list(ok_keys), "after all calls returned", out)
    if c.get("strays", "ok") != "ok":
        out.append(("foreign-file-touched", c["strays"]))
    return out


def oracle_free(c):
    out = []
    ok_keys = {}
    if c.get("note") == "stuck":
        n = sum(1 for o in c["results"] if o["t"] == "timeout")
        return [("create-did-not-return", "%d of %d concurrent creates never returned" % (n, len(c["results"])))]
    for t, o in enumerate(c["results"]):
        oracle_create(o, c["scripts"][t], None, ok_keys, "goroutine %d" % t, out)
    possible = {}
    for s in c["scripts"]:
        content, st, e = script_delivered(s)
        if st == 1:
            possible[sha(content)] = content
    for p in c.get("opens", []):
        oracle_read(p["obs"], p["key"], possible, "concurrent open", out, strict_absent=False)
    # the last len(distinct keys) probes were taken after everything returned
    final_probe = {}
    for p in c.get("opens", []):
        final_probe[p["key"]] = p["obs"]
    for k in ok_keys:
        if final_probe.get(k, {}).get("t") != "found":
            out.append(("created-object-not-found", "after all goroutines returned: %s.." % k[:12]))
    check_ls(c.get("final"), list(ok_keys), "after all goroutines returned", out)
    return out


def oracle_cr(c):
    out = []
    genuine = seg_bytes(c.get("genuine"))
    n = c["n"]
    if c.get("ctor") == "str":
        h = c.get("hstr", "")
        good = h.startswith("sha256:")
        if good:
            try:
                good = len(bytes.fromhex(h[7:])) == 32 and " " not in h
            except ValueError:
                good = False
        if good != (c.get("ctorcode", 0) == 0):
            out.append(("constructor-accepted-or-rejected-wrongly", "%r -> %d" % (h, c.get("ctorcode", 0))))
        if c.get("ctorcode", 0) != 0:
            return out
        want = bytes.fromhex(h[7:])
    else:
        want = bytes.fromhex(c.get("want", ""))
    under, ust, ue = script_delivered(c.get("script"))
    tr = c.get("trace") or {"c": [], "k": []}
    tbytes = seg_bytes(tr.get("c"))
    codes = [k[1] for k in tr.get("k", [])]
    pos = 0
    final = 0
    for n_, code in tr.get("k", []):
        pos += n_
        if code != 0:
            final = code
            break
    got = tbytes[:pos]
    if c["stream"] == "cr-huge":
        if codes != [1]:
            out.append(("genuine-stream-rejected", "%s: code %s" % (c.get("note", ""), codes)))
        return out
    if c["stream"] == "cr-contract":
        # the underlying reader broke the io.Reader contract: anything but a certified end-of-stream is acceptable
        if 1 in codes:
            out.append(("end-of-stream-reported-over-a-reader-that-broke-the-contract", c.get("note", "")))
        return out
    if final == 0:
        if c.get("note") == "early":
            # the caller stopped before any verdict: it must not have been told end-of-stream (it was not)
            if bytes(tbytes) != under[:len(tbytes)]:
                out.append(("bytes-handed-on-differ-from-the-underlying-stream", "early stop"))
            return out
        out.append(("stream-never-ended", "no error after %d reads" % len(codes)))
        return out
    if bytes(got) != under:
        out.append(("bytes-handed-on-differ-from-the-underlying-stream", "%d vs %d bytes" % (len(got), len(under))))
    should_eof = (ust == 1 and hashlib.sha256(under).digest() == want and (n < 0 or len(under) == n))
    if final == 1 and not should_eof:
        what = "truncated" if len(under) < len(genuine) else ("extended" if len(under) > len(genuine) else "corrupted")
        if ust != 1:
            what = "failed"
        out.append(("end-of-stream-reported-for-a-%s-stream" % what,
                    "delivered %d bytes, genuine %d, declared %d" % (len(under), len(genuine), n)))
    if final != 1 and should_eof:
        out.append(("genuine-stream-rejected", "code %d" % final))
    if ust == 2 and final != 100 + ue:
        out.append(("underlying-error-not-passed-through", "code %d" % final))
    # later reads must not turn the verdict into end-of-stream
    seen_final = False
    for code in codes:
        if seen_final and code == 1 and final != 1:
            out.append(("end-of-stream-reported-after-an-error", ""))
        if code != 0:
            seen_final = True
    return out


def oracle_peek(c):
    out = []
    for i, (op, o) in enumerate(zip(c["ops"], c["results"])):
        if o["t"] != "key" or o["key"] != op["key"]:
            out.append(("create-failed-on-a-good-input", "large content %d: %s %s" % (i, o["t"], o.get("msg", ""))))
    last = {}
    for p in c.get("opens", []):
        o = p["obs"]
        last[p["key"]] = o
        if o["t"] == "found":
            n, _, digest = o.get("msg", "0:").partition(":")
            if digest != p["key"]:
                out.append(("open-returned-a-partially-written-object",
                            "an Open through a second store object (or a direct read) while the key was being "
                            "committed got %s bytes hashing to %s.., not the object %s.." % (n, digest[:12], p["key"][:12])))
        elif o["t"] != "notfound":
            out.append(("open-failed", "%s %s" % (o["t"], o.get("msg", ""))))
    for op in c["ops"]:
        if last.get(op["key"], {}).get("t") != "found":
            out.append(("created-object-not-found", op["key"][:12]))
    check_ls(c.get("final"), [op["key"] for op in c["ops"]], "at the end", out)
    return out


def oracle_json(c):
    out = []
    created = set()
    for i, (op, o) in enumerate(zip(c["ops"], c["obs"])):
        where = "op %d (%s, %s store)" % (i, op["op"], c.get("kind"))
        if op["op"] == "cjson":
            want = sha(seg_bytes(op.get("b")))
            if o["t"] != "key" or o["key"] != want:
                out.append(("createjson-returned-a-key-that-is-not-the-sha256-of-the-marshalled-value", where))
            else:
                created.add(want)
        elif op["op"] == "cjson-bad":  # a value json.Marshal refuses
            if o["t"] in ("key", "bool") or o.get("key"):
                out.append(("createjson-returned-a-key-for-a-value-that-cannot-be-marshalled", "%s: %s" % (where, o)))
        elif op.get("h") == 1:        # read back what CreateJSON stored
            if o["t"] != "bool" or not o.get("v"):
                out.append(("readjson-did-not-give-the-stored-value-back", "%s: %s" % (where, o)))
        elif op.get("h") == 0:        # absent key
            if o["t"] != "notfound":
                out.append(("readjson-of-an-absent-key-did-not-say-not-found", "%s: %s" % (where, o)))
        elif op.get("h") == 2:        # an object that is not JSON
            if o["t"] in ("bool", "notfound", "key"):
                out.append(("readjson-accepted-an-object-that-is-not-json", "%s: %s" % (where, o)))
        elif op.get("h") == 3:        # the first value is decoded, the rest of the object is ignored
            if o["t"] != "bool" or not o.get("v"):
                out.append(("readjson-did-not-decode-the-leading-value", "%s: %s" % (where, o)))
        elif op.get("h") == 4:        # the object holds a value of another type
            if o["t"] == "bool":
                out.append(("readjson-accepted-a-value-of-the-wrong-type", "%s: %s" % (where, o)))
        elif op.get("h") in (5, 7):   # the user's Objects: reader failing part-way / a reader together with an error
            if o["t"] == "bool":
                out.append(("readjson-decoded-although-open-or-read-failed", "%s: got %r" % (where, o.get("msg"))))
    if c.get("final") is not None:
        check_ls(c["final"], None, "at the end", out)
    fds = c.get("fds") or [0, 0]
    if c.get("kind") == "fs" and fds[0] >= 0 and fds[1] > fds[0]:
        out.append(("file-descriptor-left-open", "%d descriptors before, %d after" % (fds[0], fds[1])))
    return out


def oracle_hash(c):
    out = []
    for i, (op, o) in enumerate(zip(c["ops"], c["obs"])):
        where = "op %d (%s)" % (i, op["op"])
        if op.get("fault"):
            if o["t"] == "key":
                out.append(("hashfile-returned-a-digest-for-a-%s-file" % op["fault"], "%s: %s" % (where, o.get("key"))))
            continue
        if op["op"] == "hashreader":
            content, st_, e_ = script_delivered(op.get("script"))
            if st_ == 2:
                if o["t"] == "key":
                    out.append(("hashreader-returned-a-digest-although-the-reader-failed", "%s: after %d bytes" % (where, len(content))))
                elif o["t"] != "errin" or o.get("e") != e_:
                    out.append(("hashreader-lost-the-reader-error", "%s: %s" % (where, o)))
                continue
        else:
            content = seg_bytes(op.get("b"))
        if o["t"] != "key" or o.get("key") != sha(content):
            out.append(("%s-is-not-the-sha256-of-the-content" % op["op"],
                        "%s: %d bytes, got %s want %s" % (where, len(content), o.get("key") or o["t"], sha(content))))
    fds = c.get("fds") or [0, 0]
    if fds[0] >= 0 and fds[1] > fds[0]:
        out.append(("file-descriptor-left-open", "%d descriptors before, %d after" % (fds[0], fds[1])))
    return out


def oracle_ctor(c):
    out = []
    kind = c.get("kind")
    obs = c.get("obs") or [{"t": "?"}]
    if kind in ("dirisfile", "tmpisfile"):
        if obs[0]["t"] in ("unit", "key") or obs[0].get("v"):
            out.append(("newfs-accepted-a-directory-that-cannot-hold-a-store", "%s: %s" % (kind, obs[0])))
        return out
    if obs[0]["t"] != "unit":
        return [("newfs-failed-on-a-usable-directory", "%s: %s %s" % (kind, obs[0]["t"], obs[0].get("msg", "")))]
    key = c["ops"][1]["key"]
    if obs[1]["t"] != "key" or obs[1].get("key") != key:
        out.append(("create-failed-on-a-good-input", "%s: %s" % (kind, obs[1])))
    if obs[2]["t"] != "found" or sha(seg_bytes(obs[2].get("b"))) != key:
        out.append(("created-object-not-found", "%s: %s" % (kind, obs[2]["t"])))
    if obs[3]["t"] != "bool" or not obs[3].get("v"):
        out.append(("has-answered-wrongly", "%s: %s" % (kind, obs[3])))
    check_ls(c.get("final"), [key], "in the directory NewFS was given", out)
    if c.get("strays"):
        out.append(("foreign-file-touched", c["strays"]))
    return out


def oracle_cr_calls(c):
    """for underlying readers that go on after an error or an end-of-stream, and callers with empty buffers; read off
    positions in the byte stream, not call numbers (so a reader that answers an empty buffer itself is fine): a call
    reports end-of-stream only where the underlying reader reported one and everything delivered up to there has the
    expected digest and, if declared, length; if the underlying reader's last word is such an end-of-stream the
    caller's last word is end-of-stream; underlying errors are passed through in order; bytes are unchanged"""
    out = []
    want = bytes.fromhex(c.get("want", ""))
    n = c["n"]
    sc = c.get("script") or {"c": [], "k": []}
    tr = c.get("trace") or {"c": [], "k": []}
    sbytes, tbytes = seg_bytes(sc.get("c")), seg_bytes(tr.get("c"))
    if tbytes != sbytes[:len(tbytes)]:
        out.append(("bytes-handed-on-differ-from-the-underlying-stream", "%d bytes" % len(tbytes)))

    def good(acc):
        return hashlib.sha256(acc).digest() == want and (n < 0 or len(acc) == n)

    eof_at, fails, pos, last = set(), [], 0, None
    for sn, st_, e_ in sc.get("k", []):
        pos += sn
        if st_ == 1:
            eof_at.add(pos)
        if st_ == 2:
            fails.append(100 + e_)
        if st_ != 0 or sn:
            last = (pos, st_)
    pos, codes = 0, []
    for tn, code in tr.get("k", []):
        pos += tn
        if code:
            codes.append(code)
        if code == 1 and not (pos in eof_at and good(sbytes[:pos])):
            out.append(("end-of-stream-reported-although-what-was-delivered-is-not-the-expected-stream",
                        "%d bytes handed on so far; underlying reader reported end-of-stream at %s; declared %d"
                        % (pos, sorted(eof_at), n)))
    if last and last[1] == 1 and good(sbytes[:last[0]]) and len(tbytes) == len(sbytes) and (not codes or codes[-1] != 1):
        out.append(("genuine-stream-rejected", "last code %s" % (codes[-1:] or "none")))
    if [x for x in codes if x >= 100] != fails:
        out.append(("underlying-error-not-passed-through", "underlying %s, handed on %s" % (fails, [x for x in codes if x >= 100])))
    return out


def impl_oracle(c):
    st = c["stream"]
    if st == "json":
        return oracle_json(c)
    if st == "hash":
        return oracle_hash(c)
    if st == "ctor":
        return oracle_ctor(c)
    if st in ("cr-resume", "cr-zerobuf"):
        return oracle_cr_calls(c)
    if st == "fs-peek":
        return oracle_peek(c)
    if st.startswith("fs-"):
        return oracle_fs_hist(c)
    if st.startswith("mem-"):
        return oracle_mem_hist(c)
    if st == "sched":
        return oracle_sched(c)
    if st == "free":
        return oracle_free(c)
    if st.startswith("cr-"):
        return oracle_cr(c)
    return [("unknown-stream", st)]


def case_key(c):
    st = c["stream"]
    if st.startswith("cr-"):
        return (st, c.get("want"), c.get("hstr"), c["n"], json.dumps(c.get("script")),
                len((c.get("trace") or {}).get("k", [])))
    if st == "free":
        return (st, c.get("kind"), json.dumps(c.get("scripts")))
    if st == "sched":
        return (st, json.dumps(c.get("scripts")), [s["tid"] for s in c["steps"]])
    return (st, json.dumps([(o["op"], o.get("script"), o.get("key"), o.get("b"), o.get("h"), o.get("fault"), o.get("shape"), o.get("k"))
                            for o in c.get("ops", [])]))


def case_trivial(c):
    st = c["stream"]
    if st.startswith("cr-"):
        return not c.get("script")
    if st in ("free", "sched"):
        return len(c.get("scripts") or []) == 0
    return len(c.get("ops") or []) == 0


def slim(c):
    """a case without the bulky parts, for evidence samples"""
    d = {k: c[k] for k in ("stream", "kind", "n", "want", "hstr", "ctorcode", "note") if k in c}
    if "ops" in c:
        d["ops"] = [{k: o[k] for k in ("op", "key", "fault", "h") if k in o} for o in c["ops"]][:8]
        d["obs"] = [{k: (v if k != "b" else "...") for k, v in o.items()} for o in c.get("obs", [])][:8]
    if "results" in c:
        d["results"] = [{k: (v if k != "b" else "...") for k, v in o.items()} for o in c["results"]][:6]
    if c.get("trace"):
        d["trace_codes"] = [k[1] for k in c["trace"].get("k", [])][-6:]
    return d


HEADER = ("From Coq Require Import List NArith Uint63.\n"
          "From Verif Require Import Obj.ObjText.\n"
          "Import ListNotations.\nLocal Open Scope uint63_scope.\n")

SYM = {c: i for i, c in enumerate("0123456789abcdefx() ")}


def pack_text(t):
    """twelve 5-bit symbols per 63-bit integer, least significant first, padded with 31"""
    syms = [SYM[ch] for ch in t.replace("\n", " ")]
    out = []
    for k in range(0, len(syms), 12):
        grp = syms[k:k + 12]
        grp += [31] * (12 - len(grp))
        v = 0
        for i, sy in enumerate(grp):
            v |= sy << (5 * i)
        out.append(str(v))
    return out


def parse_mismatches(out, expect_cases):
    """`M = Some (n, [..])` / `M = None` printed by Coq; the count of decoded cases must be the count sent"""
    import re
    m = re.search(r"M\s*=\s*Some\s*\(\s*(\d+)(?:%nat)?\s*,\s*\[(.*?)\]\s*\)", out, re.S)
    if not m or int(m.group(1)) != expect_cases:
        return None
    body = m.group(2).strip()
    if not body:
        return []
    return [int(x.replace("%nat", "").strip()) for x in body.split(";")]


def run(ck):
    n = 300 if not ck.thorough else 10000
    big = 70000 if not ck.thorough else 200 * 1024
    ck.gen()
    built = ck.coq_make(MODEL + PROOFS, clean=ck.thorough)
    ck.obligations = ck.count_statements(STATEMENT_FILES)
    proofs_ok = all(built.get(x) for x in PROOFS) and not ck.broken
    if proofs_ok:
        if ck.audit("theories/Props/C18.v"):
            ck.discharged = list(ck.obligations)
    if ck.thorough and proofs_ok:
        ck.coqchk(["Verif.Props.C18"])
    code_tie.run(ck, "C18")

    binp = ck.build_harness("c18")
    cases = []
    scratch = os.environ.get("VERIF_SCRATCH") or os.path.join(vlib.BUILD, "scratch", "c18")
    if binp:
        shutil.rmtree(scratch, ignore_errors=True)
        rc, out, err = vlib.sh2([binp, "-seed", str(ck.seed), "-n", str(n), "-big", str(big), "-dir", scratch,
                                 "-deep", "2" if ck.thorough else "1"], timeout=1500)
        shutil.rmtree(scratch, ignore_errors=True)
        for line in out.splitlines():
            if line.startswith("{"):
                try:
                    cases.append(json.loads(line))
                except ValueError:
                    pass
        ck.timings["harness_cases"] = len(cases)
        if rc != 0:
            # the code under test took the harness down (fatal runtime error, deadlock): that is an
            # observation of the run, reproducible with the same seed
            head = [l for l in err.splitlines() if l.strip()][:1]
            first = head[0][:200] if head else "exit status %d" % rc
            ck.broken.append({"what": "harness run ended early", "detail": err[:1500]})
            if rc != 3 and (first.startswith("fatal error") or first.startswith("panic")):
                ck.violation("impl:crash:" + first.split(":")[0] + ":" + first.split(":")[-1].strip().replace(" ", "-"),
                             "the code under test crashed or hung the harness after case %d: %s" % (len(cases) - 1, first),
                             {"replay_harness": "c18 -seed %d -n %d -big %d" % (ck.seed, n, big),
                              "stderr": err[:3000], "cases_before": len(cases),
                              "expected": "every call returns", "observed": first})

    # thorough tier: the free-running and forced-interleaving streams once more under the race detector
    if ck.thorough and binp and shutil.which("gcc"):
        nb = len(ck.broken)
        binr = ck.build_harness("c18", race=True)
        if binr:
            rc, out, err = vlib.sh2([binr, "-seed", str(ck.seed), "-n", "600", "-big", "70000", "-dir", scratch,
                                     "-streams", "free,sched"], timeout=1500)
            shutil.rmtree(scratch, ignore_errors=True)
            nraces = err.count("WARNING: DATA RACE")
            ck.coverage["race_detector"] = {"cases": out.count("\n"), "races": nraces, "rc": rc}
            if nraces:
                i = err.index("WARNING: DATA RACE")
                ck.violation("impl:race:data-race", "the race detector reports a data race during concurrent creates",
                             {"report": err[i:i + 3000], "expected": "no data race", "observed": "%d reports" % nraces})
        else:
            del ck.broken[nb:]
            ck.notes.append("race-detector build not available")

    # implementation-only oracle (also the search for a failing input)
    found = {}     # violation key -> [count, smallest failing case, why]
    for c in cases:
        ck.count(c["stream"], key=case_key(c), trivial=case_trivial(c))
        size = None
        for cls, why in impl_oracle(c):
            key = "impl:%s:%s" % (c["stream"].split("-")[0], cls)
            if cls.startswith("fs-fault:"):
                key = "impl:" + cls
            if size is None:
                size = len(json.dumps(c))
            ent = found.setdefault(key, [0, None, None, None])
            ent[0] += 1
            if ent[1] is None or size < ent[3]:
                ent[1], ent[2], ent[3] = c, cls.replace("-", " ") + " - " + why, size
    for key, (cnt, c, why, _) in found.items():
        # the smallest failing case of each kind is the replay
        for _ in range(min(cnt, 50)):
            ck.violation(key, why, {"case": c, "expected": "the property read off the observed results",
                                    "observed": slim(c), "failing_cases_of_this_kind": cnt})
    for c in cases[:1] + cases[300:301] + cases[700:701] + cases[-2:]:
        ck.sample(slim(c))

    # correspondence: models evaluated inside Coq on the same inputs
    model_ok = all(built.get(x) for x in MODEL)
    if cases and model_ok:
        # a shard is one Coq file; its text is cut into literals short enough for Coq's stack
        # megabyte contents, contract-breaking readers, encoding/json: oracle only
        corr_cases = [c for c in cases if c["stream"] not in ("fs-peek", "cr-contract", "cr-huge", "json", "ctor")]
        texts = [to_text(c) for c in corr_cases]
        parts = []
        cur, cur_n, cur_start = [], 0, 0
        for idx, t in enumerate(texts):
            cur.append(t)
            cur_n += len(t)
            if cur_n > 70000:
                parts.append((cur_start, cur))
                cur, cur_n, cur_start = [], 0, idx + 1
        if cur:
            parts.append((cur_start, cur))
        ck.coverage["correspondence_text_bytes"] = sum(len(t) for t in texts)

        def ev(sp):
            s, ts = sp
            ints = pack_text(" ".join(ts))
            txt = (HEADER + "Definition M := Eval vm_compute in mismatches_ints [\n"
                   + ";\n".join(";".join(ints[k:k + 8]) for k in range(0, len(ints), 8)) + "\n].\nPrint M.\n")
            rc, out = ck.coq_eval("cases_%d" % s, txt)
            return s, (parse_mismatches(out, len(ts)) if rc == 0 else None), out

        mism = []
        with ThreadPoolExecutor(max_workers=12) as ex:
            for s, got, out in ex.map(ev, parts):
                if got is None:
                    ck.broken.append({"what": "correspondence evaluation failed", "shard": s, "detail": out[-1500:]})
                    continue
                mism += [s + i for i in got]
        ck.coverage["correspondence_cases"] = len(corr_cases)
        ck.coverage["correspondence_mismatches"] = len(mism)
        for i in mism[:50]:
            c = corr_cases[i]
            ck.broken.append({"what": "correspondence: model and implementation disagree",
                              "stream": c["stream"], "case_index": i})
            if not impl_oracle(c):
                ck.violation("corr:%s" % c["stream"],
                             "implementation behaves differently from the proved model of the deployed code",
                             {"case": c, "model": "Obj/ObjCorr.v evaluated by vm_compute disagrees",
                              "observed": slim(c)})
    elif cases and not model_ok:
        ck.broken.append({"what": "model does not compile; correspondence not evaluated"})

    return ck.finish(
        level="proof",
        checker_cmd="bin/check C18 (gen -> make -C coq theories/Props/C18.vo -> Print Assumptions audit -> "
                    "harness c18 vs vm_compute of Obj/ObjCorr.v)",
        trusted=["Coq 8.16.1 kernel + vm_compute",
                 "translator gen/obj.go (statement skeleton of Create/commit, key syntax, copy flags, shape of "
                 "createTemp, function texts)",
                 "harness/cmd/c18 + checks/c18.py comparison and oracle",
                 "SHA-256 as a function: table computed by Go's crypto/sha256 (streaming = one-shot is the stdlib's)",
                 "modelled not verified: rename(2) atomicity, unique temp names, deferred os.Remove succeeds, "
                 "sync.RWMutex, io.Copy/io.ReadAll/io.TeeReader loops"],
        rule="corpus (slice aliasing) + enumerations (input failing after every byte offset for fs/mem/mapped, every "
             "single-byte corruption x3 masks, every truncation point, appended bytes, with/without declared length, "
             "five read-size patterns, both EOF styles, staged OS faults, stray files) + seeded streams (splitmix64: "
             "histories, forced interleavings of 2-5 creates, free runs of 2-16 goroutines with concurrent Open/Has, "
             "random check-reader mixtures) + round-3 usage patterns (histories continued through new store objects on the "
             "same directory, NewFS while calls are in flight, NewFS on unusable directories, staging directory missing / a file "
             "/ gone until reopened, unwritable temp file via RLIMIT_FSIZE, keys with one character just outside the accepted "
             "ranges at three positions, 64-byte path-like keys pointing at planted files, the mapped store over a user Store "
             "returning zero or non-zero results together with errors, Hash/HashStr/HashReader/HashFile at block and copy-buffer "
             "sizes, JSON helpers over misbehaving user Objects, check readers over sources that continue after errors and "
             "end-of-stream, empty caller buffers); a case is non-trivial unless it has no operation/script; distinct = "
             "distinct (stream, operations with their recorded reader scripts, schedule)",
        assumptions=["64-bit int; fewer than 2^63 bytes per stream",
                     "temp names (32 random bytes) do not collide",
                     "the deferred os.Remove of the temp file succeeds",
                     "no other process writes into the store directory",
                     "SHA-256 collisions are named in the theorems where they matter (wrong-bytes-accepted => collision)"])
