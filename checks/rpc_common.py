"""Shared by the sniproxy RPC checks (c03, c04, c15): running a harness on a
script of cases, replaying a stored violation, greedy shrinking of a failing
step list."""
import json
import os

import vlib


def run_script(ck, binp, cases, extra=None, timeout=1200):
    """Run the harness on the given cases (dicts with stream/steps/...)."""
    d = os.path.join(vlib.BUILD, "cases", ck.pid)
    os.makedirs(d, exist_ok=True)
    path = os.path.join(d, "script.json")
    json.dump(cases, open(path, "w"))
    rc, out, err = vlib.sh2([binp, "-script", path, "-budget", "120"] + (extra or []), timeout=timeout)
    res = []
    for line in out.splitlines():
        if line.startswith("{"):
            res.append(json.loads(line))
    return res


def shrink(ck, binp, case, key, oracle, extra=None, budget=14, seconds=45):
    """Greedy removal of steps while the oracle still reports `key`.
    Returns the smallest failing case found (the observed one).  Stops after
    `budget` runs or `seconds` of wall clock (on a defective tree every run
    may cost observation bounds)."""
    import time
    best = case
    steps = list(case.get("steps") or [])
    if len(steps) <= 1:
        return best
    runs = 0
    t0 = time.time()
    i = len(steps) - 1
    while i >= 0 and runs < budget and len(steps) > 1 and time.time() - t0 < seconds:
        trial = steps[:i] + steps[i + 1:]
        got = run_script(ck, binp, [dict(case, steps=trial)], extra)
        runs += 1
        if got and any(k == key for k, _ in oracle(got[0])):
            steps = trial
            best = got[0]
        i -= 1
    return best


def replay_case(ck):
    """The case stored in a replay file given with --replay, or None."""
    if not ck.replay:
        return None
    body = json.load(open(ck.replay))
    c = body.get("case")
    if not isinstance(c, dict):
        return None
    return c
