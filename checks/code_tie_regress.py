#!/usr/bin/env python3
"""Regression list for the Go -> Gallina translator (gen/gotrans*.go) and checks/code_tie.py.

A "code:<f>" violation claims a concrete failing input of the REAL code, a
proved `gen_<f>_is_model` claims the real code equals the model.  Both are only
true if the generated definition means what the Go text means.  The places
where that is hardest are the ones where Go has reference semantics and the
generated definitions bind values.  Each case below rewrites one translated
function in a scratch worktree of the repository and runs only the code tie:

  harmless  the rewrite does not change what the function computes.  Allowed
            outcomes: the lemma still checks; or the definition is go_unknown
            (reason printed); or the proof script breaks and NO disagreeing
            candidate is found (plain broken obligation).
            NEVER a `code:` violation (that would be a fabricated input).
  changed   the rewrite changes what the function computes, in a way a
            value-binding translation could miss.  Allowed: a `code:`
            violation; go_unknown; a broken obligation (also when a found
            disagreement was downgraded because of NEEDS_REVIEW).
            NEVER a proved lemma.

Run (not part of any tier; about 3 minutes; no file of /verif or of the
repository's checkout is written - a detached git worktree of the repository
(git's own bookkeeping under .git/worktrees only) and a copy of this framework
are made under the scratch directory and removed afterwards):

    python3 checks/code_tie_regress.py [--scratch DIR] [--keep] [case names...]

Exit status 0 iff every case ends in an allowed outcome.
"""
import os
import re
import shutil
import subprocess
import sys

ROOT = os.path.dirname(os.path.dirname(os.path.abspath(__file__)))
REPO = os.environ.get("VERIF_REPO", "/repo")
GOENV = dict(os.environ, GOFLAGS="-mod=mod", GOPROXY="off", GOSUMDB="off", GOTOOLCHAIN="local")

DEC, ENC, SIG = "sniproxy/decoder.go", "sniproxy/encoder.go", "signer/signer.go"
U8 = "\tvar buf [1]byte\n\td.read(buf[:])\n\treturn buf[0]"
U64 = "\tvar buf [8]byte\n\td.read(buf[:])\n\tv := endian.Uint64(buf[:])"
E64 = "\tendian.PutUint64(bs[:], v)\n\te.write(bs[:])"
RD = "\tn, err := io.ReadFull(d.r, buf)"

CASES = [
    # name, property, file, old text (must occur once), new text, kind
    # -- the false alarm that started this list: b is a view of buf, the callee fills buf through b
    ("u8-slice-of-array-alias", "C13", DEC, U8,
     "\tvar buf [1]byte\n\tb := buf[:]\n\td.read(b)\n\treturn buf[0]", "harmless"),
    # -- arrays are values: c is a copy
    ("u64-array-copy-read-from-copy", "C13", DEC, U64,
     "\tvar buf [8]byte\n\td.read(buf[:])\n\tc := buf\n\tv := endian.Uint64(c[:])", "harmless"),
    ("u64-array-copied-then-copy-modified", "C13", DEC, U64,
     "\tvar buf [8]byte\n\td.read(buf[:])\n\tc := buf\n\tendian.PutUint64(c[:], 0)\n\tv := endian.Uint64(buf[:])", "harmless"),
    # -- ... and slices are not: the same text with c := buf[:] zeroes buf
    ("u64-slice-alias-then-modified", "C13", DEC, U64,
     "\tvar buf [8]byte\n\td.read(buf[:])\n\tc := buf[:]\n\tendian.PutUint64(c, 0)\n\tv := endian.Uint64(buf[:])", "changed"),
    ("u64-chain-of-slice-names", "C13", DEC, U64,
     "\tvar buf [8]byte\n\tb := buf[:]\n\tc := b\n\td.read(c)\n\tv := endian.Uint64(b)", "harmless"),
    # -- re-slice and append within capacity: writes the array under the other name
    ("enc-u64-reslice-append-within-capacity", "C13", ENC, E64,
     "\tendian.PutUint64(bs[:], v)\n\tb := bs[:4]\n\tb = append(b, bs[4:8]...)\n\te.write(b)", "harmless"),
    ("enc-u64-append-into-array-part", "C13", ENC, E64,
     "\tendian.PutUint64(bs[:], v)\n\tb := append(bs[:0], 9)\n\t_ = b\n\te.write(bs[:])", "changed"),
    ("check-append-into-param-part", "C16", SIG,
     "\thashWant := s.hash(dat)", "\t_ = append(bs[:0], 0)\n\thashWant := s.hash(dat)", "changed"),
    ("check-hashgot-copied", "C16", SIG,
     "\thashGot := bs[n-sha256.Size:]", "\thashGot := append([]byte(nil), bs[n-sha256.Size:]...)", "harmless"),
    # -- two names, one written / the source dead
    ("enc-u64-two-names-one-written", "C13", ENC, E64,
     "\tb := bs[:]\n\tendian.PutUint64(bs[:], v)\n\te.write(b)", "harmless"),
    ("enc-u64-slice-var-dead-source", "C13", ENC, E64,
     "\tb := bs[:]\n\tendian.PutUint64(b, v)\n\te.write(b)", "harmless"),
    # -- a parameter's storage belongs to the caller
    ("read-param-slice-copied-then-written", "C13", DEC, RD,
     "\tb2 := buf\n\tn, err := io.ReadFull(d.r, b2)", "harmless"),
    ("str-callee-writes-caller-buffer", "C13", DEC,
     "\treturn string(d.bytes(nil))",
     "\tvar tmp [4]byte\n\tbs := d.bytes(tmp[:])\n\tif len(bs) == 4 {\n\t\treturn string(tmp[:])\n\t}\n\treturn string(bs)",
     "harmless"),
    # -- closures, method values, pointers, named results, receiver copies
    ("isvalidkey-range-var-captured", "C18", "objects/fs.go",
     "\t\tif r >= 'a' && r <= 'z' {", "\t\tf := func() rune { return r }\n\t\tif f() >= 'a' && r <= 'z' {", "harmless"),
    ("u8-address-of-local", "C13", DEC, U8,
     "\tvar buf [1]byte\n\tp := &buf\n\td.read(p[:])\n\treturn buf[0]", "harmless"),
    ("u8-method-value", "C13", DEC, U8,
     "\tvar buf [1]byte\n\trd := d.read\n\trd(buf[:])\n\treturn buf[0]", "harmless"),
    ("u8-named-result", "C13", DEC, "func (d *decoder) u8() byte {\n" + U8,
     "func (d *decoder) u8() (b byte) {\n\tvar buf [1]byte\n\td.read(buf[:])\n\tb = buf[0]\n\treturn", "harmless"),
    ("u8-receiver-alias", "C13", DEC, U8,
     "\tvar buf [1]byte\n\te := d\n\te.read(buf[:])\n\treturn buf[0]", "harmless"),
    ("u8-struct-copy-through-pointer", "C13", DEC, U8,
     "\tvar buf [1]byte\n\td2 := *d\n\td2.read(buf[:])\n\td.read(buf[:])\n\treturn buf[0]", "changed"),
    ("read-interface-holding-reader", "C13", DEC, RD,
     "\tvar r io.Reader = d.r\n\tn, err := io.ReadFull(r, buf)", "harmless"),
    ("enc-u64-copy-builtin", "C13", ENC, E64,
     "\tvar t2 [8]byte\n\tendian.PutUint64(t2[:], v)\n\tcopy(bs[:], t2[:])\n\te.write(bs[:])", "harmless"),
    # -- effects inside a loop body / an if that is joined: what they write must be threaded through
    ("enc-u64-write-in-range-body-harmless", "C13", ENC, E64,
     "\tfor _, x := range \"a\" {\n\t\tendian.PutUint64(bs[:], v+uint64(x)-97)\n\t}\n\te.write(bs[:])", "harmless"),
    ("enc-u64-write-in-range-body-changed", "C13", ENC, E64,
     "\tendian.PutUint64(bs[:], v)\n\tfor _, x := range \"a\" {\n\t\tendian.PutUint64(bs[:], v+uint64(x))\n\t}\n\te.write(bs[:])",
     "changed"),
    ("enc-u64-range-over-slice-written-in-body", "C13", ENC, E64,
     "\tendian.PutUint64(bs[:], v)\n\tb := bs[:]\n\tfor i, x := range b {\n\t\tif i == 0 {\n\t\t\tendian.PutUint64(b, uint64(x))\n\t\t}\n\t}\n\te.write(b)",
     "changed"),
    ("read-effect-inside-if-join", "C13", DEC, RD,
     "\tvar n int\n\tvar err error\n\tif len(buf) > 0 {\n\t\tn, err = io.ReadFull(d.r, buf)\n\t}", "harmless"),
    ("read-effect-inside-if-join-changed", "C13", DEC, RD,
     "\tvar n int\n\tvar err error\n\tif len(buf) > 1 {\n\t\tn, err = io.ReadFull(d.r, buf)\n\t}", "changed"),
    # -- the review list: a changed function whose definition carries `alias-review` is not claimed as an input
    ("check-readonly-alias-semantic-change", "C16", SIG,
     "\tdat := bs[:n-sha256.Size]", "\tdat := bs[:n-sha256.Size+1]", "changed"),
    # -- and an ordinary change is still reported, with the generated definition in the text
    ("u8-semantic-change-no-alias", "C13", DEC, U8,
     "\tvar buf [1]byte\n\td.read(buf[:])\n\treturn buf[0] + 1", "changed"),
]

RUNNER = r'''
import sys, re, json
sys.path.insert(0, "lib"); sys.path.insert(0, "checks")
import vlib, code_tie
pid = sys.argv[1]
ck = vlib.Check(pid, [])
ck.gen()
ok = code_tie.run(ck, pid)
gen = code_tie.TIES[pid].get("gen", code_tie.TIES[pid]["area"])
src = open("coq/theories/Gen/Code%s.v" % gen).read()
print("@@" + json.dumps({
    "proved": ok,
    "violations": [v["key"] for v in ck.violations],
    "with_definition": all("Generated Gallina definition" in v["what"] and v["replay"].get("generated_definitions")
                           for v in ck.violations),
    "downgraded": [n[:160] for n in ck.notes if "NOT reported as a violation" in n],
    "unknown": re.findall(r"NOT TRANSLATED: ([^\n]*?) ?\*\)", src),
}))
'''


def sh(cmd, **kw):
    return subprocess.run(cmd, stdout=subprocess.PIPE, stderr=subprocess.STDOUT, text=True, **kw)


def main():
    args = sys.argv[1:]
    scratch, keep = "/tmp/code-tie-regress", False
    while args and args[0].startswith("--"):
        if args[0] == "--scratch":
            scratch = args[1]
            args = args[2:]
        elif args[0] == "--keep":
            keep = True
            args = args[1:]
        else:
            sys.exit(__doc__)
    wt, fw = os.path.join(scratch, "wt"), os.path.join(scratch, "verif")
    os.makedirs(scratch, exist_ok=True)
    if not os.path.isdir(wt):
        r = sh(["git", "-C", REPO, "worktree", "add", "--detach", wt, "HEAD"])
        if r.returncode != 0:
            sys.exit("cannot make a scratch worktree of %s: %s" % (REPO, r.stdout))
    r = sh(["rsync", "-a", "--delete", "--exclude", ".git", "--exclude", "evidence", ROOT + "/", fw + "/"])
    if r.returncode != 0:
        sys.exit("cannot copy the framework: " + r.stdout)
    os.makedirs(os.path.join(fw, "evidence"), exist_ok=True)
    bad = 0
    try:
        for name, pid, f, old, new, kind in CASES:
            if args and name not in args:
                continue
            sh(["git", "-C", wt, "checkout", "-q", "."])
            p = os.path.join(wt, f)
            s = open(p).read()
            if s.count(old) != 1:
                print("%-44s SKIPPED: the source text of the case occurs %d times in %s" % (name, s.count(old), f))
                bad += 1
                continue
            open(p, "w").write(s.replace(old, new))
            b = sh(["go", "build", "./" + os.path.dirname(f)], cwd=wt, env=GOENV)
            if b.returncode != 0:
                print("%-44s SKIPPED: the rewritten package does not build: %s" % (name, b.stdout[-300:]))
                bad += 1
                continue
            r = sh(["timeout", "1500", sys.executable, "-c", RUNNER, pid], cwd=fw, env=dict(GOENV, VERIF_REPO=wt))
            m = re.search(r"^@@(.*)$", r.stdout, re.M)
            if not m:
                print("%-44s NO RESULT: %s" % (name, r.stdout[-400:]))
                bad += 1
                continue
            import json
            o = json.loads(m.group(1))
            if o["proved"]:
                outcome = "lemma proved"
            elif o["violations"]:
                outcome = "violation " + ",".join(o["violations"])
            elif o["unknown"]:
                outcome = "go_unknown: " + o["unknown"][0][:150]
            elif o["downgraded"]:
                outcome = "broken obligation; %d disagreement(s) downgraded (needs review)" % len(o["downgraded"])
            else:
                outcome = "broken obligation, no disagreeing candidate"
            ok = (not o["violations"]) if kind == "harmless" else (not o["proved"])
            if o["violations"] and not o["with_definition"]:
                ok = False
                outcome += " [WITHOUT the generated definition]"
            print("%-44s %-8s %s  %s" % (name, kind, "ok  " if ok else "WRONG", outcome), flush=True)
            bad += 0 if ok else 1
    finally:
        sh(["git", "-C", wt, "checkout", "-q", "."])
        if not keep:
            sh(["git", "-C", REPO, "worktree", "remove", "--force", wt])
            shutil.rmtree(scratch, ignore_errors=True)
    print("%d case(s) with a wrong outcome" % bad)
    sys.exit(1 if bad else 0)


if __name__ == "__main__":
    main()
