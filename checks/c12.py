"""C12 — caco3: names and patterns resolve exactly and inside the workspace (DESIGN.md §7 C12)."""
import concurrent.futures
import json
import os
import shutil

import code_tie
import vlib
from vlib import coq_str

META = {
    "category": "proof",
    "text": "Coq theorems over an executable model of Go's path.Clean/Join/filepath.Join and of caco3's "
            "makeRelPath/makePath/env.src/env.out/newFileSet: for ALL strings p, f the resolved name is "
            "exactly rooted-clean(p) followed by rooted-clean(f) (no '', '.', '..' elements, inside the package, "
            "inside srcDir/outDir after env.src/env.out, also with the output suffixes); a file set is exactly "
            "explicit + (selected minus ignored), sorted and duplicate-free, and a directory ignore is the "
            "segment-wise strictly-beneath relation; ignore entries are independent of one another (a name is ignored "
            "iff one entry alone ignores it: no other entry - a directory sorting between an ignored directory and "
            "its files, a nested one, another order - changes the verdict; a sorted predecessor lookup is refuted); Go's path.Match and filepath.Match are modelled in full "
            "(classes, escapes, multi-byte runes, ErrBadPattern; total, sound for the declarative reading, '*'/'?' "
            "never match '/', '?' takes one rune; complete for class-free patterns on names of single-byte runes, "
            "with the two real incompleteness cases - a class taking the '/', '??' taking a wide rune - as "
            "refutations confirmed against the toolchain's path.Match), filepath.Glob level by level with its error paths, and source "
            "trees with symbolic links (the recursive listing never follows one; its members are characterised entry "
            "by entry, and a non-directory entry of any name - a '.git' file or link - never prunes its siblings; several file sets of one build file made with one "
            "env list each what it lists alone, in every declaration order: real builds of three file sets per build "
            "file, and a shared listing filtered in place is refuted).  The model is tied to the code by exhaustive small-string "
            "and generated differential runs evaluated inside Coq, and by translator obligations on the "
            "source text of the resolution functions, the exclusion lists and the table of resolver calls.",
    "note": "Trusted: Coq kernel + vm_compute; translator gen/caco_names.go; harness and caco3/verif_names.go shim; "
            "path.Match/filepath.Match/filepath.Glob modelled after the Go 1.23 sources (completeness of the greedy "
            "chunk loop is proved for patterns without classes on single-byte-rune names and refuted in general); file system walk order not modelled; docker-backed rules (which "
            "follow file symlinks when streaming inputs) not run; open finding: selections pass through linked "
            "directories; no axioms.",
    "technique": "Coq proof (stack invariant of Clean, induction over segments) + go/ast translation of constants "
                 "and call table + vm_compute correspondence",
}

MODEL = ["theories/Caco/NamesCorr.vo"]
PROOFS = ["theories/Props/C12.vo"]
STATEMENT_FILES = ["theories/Props/C12.v", "theories/Caco/NamesGen.v"]
SEMANTIC_TIE = code_tie.functions("C12")   # Go bodies proved equal to the model (Props/C12Code.v)

ERR = {"": 0, "nofiles": 1, "listerr": 2, "badpat": 3}
KIND = {"f": "TFile", "d": "TDir", "lf": "TLinkFile", "ld": "TLinkDir", "lb": "TLinkBad"}


def kind(e):
    return e.get("k") or ("d" if e["d"] else "f")


def ctree(tree):
    return "[" + "; ".join("{| t_path := %s; t_kind := %s |}" % (cb(e["p"]), KIND[kind(e)]) for e in tree) + "]"


def chex(h):
    return "[" + ";".join(str(b) for b in bytes.fromhex(h)) + "]"
SKIP_FILES = {".gitignore", "COPYING", "tags", ".DS_Store"}


def cb(s):
    return "[" + ";".join(str(b) for b in s.encode("utf-8")) + "]"


def cbl(ss):
    return "[" + "; ".join(cb(s) for s in ss or []) + "]"


def cbool(b):
    return "true" if b else "false"


def to_coq(c):
    op = c["op"]
    if op == "clean":
        return "CClean %s %s" % (cb(c["s"]), cb(c["out"]))
    if op == "pjoin":
        return "CPJoin %s %s" % (cbl(c["elems"]), cb(c["out"]))
    if op == "match":
        enc = chex if c.get("hex") else cb
        return "CMatch %s %s %s %s %s %s" % (enc(c.get("pat", "")), enc(c["s"]), cbool(c["bool"]),
                                             cbool(c.get("err") == "badpat"), cbool(c.get("fbool", False)),
                                             cbool(c.get("ferr") == "badpat"))
    if op == "rel":
        return "CRel %s %s %s" % (cb(c["p"]), cb(c["f"]), cb(c["out"]))
    if op == "abs":
        return "CAbs %s %s %s" % (cb(c["p"]), cb(c["f"]), cb(c["out"]))
    if op == "src":
        return "CSrc %s %s %s" % (cb(c.get("dir", "")), cbl(c.get("elems")), cb(c["out"]))
    if op == "suffix":
        return "CSuffix %s %s" % (cb(c["s"]), cbl(c.get("outs")))
    if op == "fileset":
        tree = ctree(c["tree"])
        r = c["rule"]
        rule = "{| r_name := %s; r_files := %s; r_select := %s; r_ignore := %s |}" % (
            cb(r["name"]), cbl(r["files"]), cbl(r["select"]), cbl(r["ignore"]))
        return "CFileSet %s %s %s %s %d %s %s" % (
            cb("src"), tree, cb(c["p"]), rule, ERR.get(c.get("err", ""), 9), cb(c["out"]), cbl(c.get("outs")))
    if op in ("buildkey", "download"):
        return None
    if op == "build":
        if c.get("err"):
            return None
        tree = ctree(c["tree"])
        r = c["rule"]
        rule = "{| r_name := %s; r_files := %s; r_select := %s; r_ignore := %s |}" % (
            cb(r["name"]), cbl(r["files"]), cbl(r["select"]), cbl(r["ignore"]))
        return "CFileSet %s %s %s %s 0 %s %s" % (cb("src"), tree, cb(c["p"]), rule, cb(c["out"]), cbl(c.get("outs")))
    if op == "rule":
        k = {"bundle": "RBundle", "download": "RDownload", "docker_run": "RDockerRun",
             "sub_builds": "RSubBuilds"}[c["kind"]]
        return "CRule %s %s %s %s %s %s %s %s" % (
            k, cb(c["p"]), cb(c["fields"][0]), cb(c["fields"][1]), cbool(bool(c.get("err"))),
            cb(c["out"]), cbl(c.get("deps")), cbl(c.get("outs")))
    raise ValueError(op)


# ---- implementation-only oracle: the property read off the observed results ----

def segs_clean(name):
    """a clean slash-separated relative path: '' or real elements only"""
    if name == "":
        return True
    return all(s not in ("", ".", "..") for s in name.split("/"))


def py_clean_segs(path):
    """reference rooted cleaning: where a string leads from a root"""
    st = []
    for s in path.split("/"):
        if s in ("", "."):
            continue
        if s == "..":
            if st:
                st.pop()
            continue
        st.append(s)
    return st


def glob_match(pat, s):
    """'*' and '?' never match '/'"""
    if pat == "":
        return s == ""
    c = pat[0]
    if c == "*":
        if glob_match(pat[1:], s):
            return True
        return s != "" and s[0] != "/" and glob_match(pat, s[1:])
    if s == "":
        return False
    if c == "?":
        return s[0] != "/" and glob_match(pat[1:], s[1:])
    return c == s[0] and glob_match(pat[1:], s[1:])


def simple(p):
    return "[" not in p and "\\" not in p


def ign_simple(p):
    """an ignore pattern the oracle reads itself: literals, '*', '?' and ESCAPED characters (a backslash
    makes the next character a literal; '[' only when escaped)"""
    i = 0
    while i < len(p):
        if p[i] == "\\":
            i += 2
            continue
        if p[i] == "[":
            return False
        i += 1
    return True


def esc_items(pat):
    """pattern -> list of ('lit', c) | ('star',) | ('any',); None for ErrBadPattern (trailing backslash)"""
    items = []
    i = 0
    while i < len(pat):
        c = pat[i]
        if c == "\\":
            if i + 1 >= len(pat):
                return None
            items.append(("lit", pat[i + 1]))
            i += 2
            continue
        items.append(("star",) if c == "*" else ("any",) if c == "?" else ("lit", c))
        i += 1
    return items


def glob_match_esc(pat, s):
    """path.Match for patterns without classes, with escapes; a malformed pattern matches nothing"""
    items = esc_items(pat)
    if items is None:
        return False

    def go(i, j):
        if i == len(items):
            return j == len(s)
        it = items[i]
        if it[0] == "star":
            return go(i + 1, j) or (j < len(s) and s[j] != "/" and go(i, j + 1))
        if j >= len(s):
            return False
        if it[0] == "any":
            return s[j] != "/" and go(i + 1, j + 1)
        return it[1] == s[j] and go(i + 1, j + 1)
    return go(0, 0)


def resolve_rel(p, f):
    return "/".join(py_clean_segs(p) + py_clean_segs(f))


def resolve_any(p, f):
    return "/".join(py_clean_segs(f)) if f.startswith("/") else resolve_rel(p, f)


def beneath(name, d):
    return d == "" or name.startswith(d + "/")


def oracle_fileset(c):
    """Expected listing by the property's own wording; returns (key, why) or None."""
    if c.get("err") not in (None, "", "nofiles"):
        return None
    r, p = c["rule"], c["p"]
    if not all(simple(x) for x in r["select"]) or not all(ign_simple(x) for x in r["ignore"]):
        return None     # classes (and escapes in selections): the correspondence with the proved model decides
    recursive_only = all(sel == "**" or sel.endswith("/**") for sel in r["select"])
    if any(kind(e) not in ("f", "d") for e in c["tree"]) and not recursive_only:
        return None     # filepath.Glob passes through linked directories (open finding): correspondence decides
    # what a recursive listing can list: everything that is not a real directory (regular files and
    # symbolic links of any kind, by name; nothing is read through a link)
    files = [e["p"] for e in c["tree"] if kind(e) != "d"]
    entries = [e["p"] for e in c["tree"]]
    kinds = {e["p"]: kind(e) == "d" for e in c["tree"]}      # path -> is a real directory
    idirs = [resolve_rel(p, i) for i in r["ignore"] if i.endswith("/")]
    ipats = [resolve_rel(p, i) for i in r["ignore"] if not i.endswith("/")]

    def ignored(m):
        return any(beneath(m, d) for d in idirs) or any(glob_match_esc(i, m) for i in ipats)

    def walked(q):
        """the walk descends q: a real directory not named .git (a link is an entry, never followed)"""
        return kinds.get(q) is True and q.split("/")[-1] != ".git"

    expected = set(resolve_any(p, f) for f in r["files"])
    empty_select = None
    for sel in r["select"]:
        if sel == "**" or sel.endswith("/**"):
            root = "/".join(py_clean_segs(p)) if sel == "**" else resolve_rel(p, sel[:-3])
            if root != "" and root not in kinds:
                return None     # the listing fails (no such directory): "list all files"
            if root != "" and root in kinds and not kinds[root]:
                ms = [root] if file_ok(root.split("/")[-1]) else []
            else:
                rootname = root.split("/")[-1] if root else "src"
                ms = []
                if rootname != ".git":
                    for f in files:
                        if not beneath(f, root):
                            continue
                        rest = f[len(root) + 1:] if root else f
                        parts = rest.split("/")
                        between = [(root + "/" if root else "") + "/".join(parts[:k]) for k in range(1, len(parts))]
                        if not all(walked(q) for q in between) or not file_ok(parts[-1]):
                            continue
                        ms.append(f)
        else:
            pat = resolve_rel(p, sel)
            ms = ["."] if pat == "" else [e for e in entries if glob_match(pat, e)]
        if not ms and empty_select is None:
            empty_select = sel
        expected |= set(m for m in ms if not ignored(m))
    if c.get("err") == "nofiles":
        if empty_select is None:
            return ("impl:fileset:missing",
                    "a selection was reported to select no files although every selection of %r matches files "
                    "(e.g. %r)" % (r["select"], sorted(expected)[:4]))
        return None
    if empty_select is not None:
        return None     # the code must report "select no files": the correspondence decides
    got = c.get("outs") or []
    if got != sorted(set(got)):
        return ("impl:fileset:unsorted", "file list not sorted/duplicate-free: %r" % got)
    missing = sorted(expected - set(got))
    extra = sorted(set(got) - expected)
    if missing:
        # a file dropped although it is not beneath any ignored directory and matches no pattern
        pref = [m for m in missing if any(m.startswith(d) and not beneath(m, d) for d in idirs if d)]
        if pref:
            return ("impl:fileset:dir-ignore-covers-sibling",
                    "directory ignore %r also dropped %r, which is not beneath that directory"
                    % ([i for i in r["ignore"] if i.endswith("/")], pref))
        return ("impl:fileset:missing", "selected and not ignored but not listed: %r" % missing)
    if extra:
        return ("impl:fileset:extra", "listed but neither explicit nor selected-and-kept: %r" % extra)
    return None


def outside_mechanism(c, n):
    """How a name that physically lies outside the source tree got listed: 'explicit' (named in Files),
    'glob' (a glob selection went through the link), 'walk-root' (the directory of a recursive selection
    itself passes the link) or 'walk-descended' (a recursive listing descended a link: never on the
    modelled code)."""
    r, p = c["rule"], c["p"]
    links = set(e["p"] for e in c["tree"] if kind(e) in ("lf", "ld", "lb"))
    if n in set(resolve_any(p, f) for f in r["files"]):
        return "explicit"
    for sel in r["select"]:
        if sel == "**" or sel.endswith("/**"):
            root = "/".join(py_clean_segs(p)) if sel == "**" else resolve_rel(p, sel[:-3])
            if beneath(n, root) or n == root:
                parts = root.split("/") if root else []
                if any("/".join(parts[:i + 1]) in links for i in range(len(parts))):
                    return "walk-root"
                return "walk-descended"
    return "glob"


def file_ok(name):
    return name not in SKIP_FILES and not name.endswith(".caco3")


def impl_oracle(c):
    if c.get("crash"):
        return ("impl:crash", "panic: %s" % c["crash"][:200])
    if c.get("arg_mod"):
        return ("impl:arguments-modified", "an argument passed by reference was changed by the call: %s"
                % c["arg_mod"][:300])
    op = c["op"]
    if op in ("fileset", "build") and c.get("outside"):
        how = sorted(set(outside_mechanism(c, n) for n in c["outside"]))
        return ("impl:symlink:outside:" + "+".join(how),
                "file set lists %r, which physically lie outside the source tree: reached through a symbolic "
                "link to a directory (%s)" % (c["outside"][:4], ", ".join(how)))
    if op in ("rel", "abs"):
        out = c["out"]
        if not segs_clean(out) or out.startswith("/"):
            return ("impl:name:unclean", "resolved name %r has an empty, '.' or '..' element" % out)
        if op == "rel" or not c["f"].startswith("/"):
            pk = py_clean_segs(c["p"])
            if out.split("/")[:len(pk)] != pk and pk:
                return ("impl:name:outside-package", "resolved name %r is not inside package %r" % (out, c["p"]))
    if op == "src" and len(c.get("elems") or []) == 1 and segs_clean(c["elems"][0]):
        d, name, out = c.get("dir", ""), c["elems"][0], c["out"]
        want = py_dir_segs(d) + [s for s in name.split("/") if s]
        if py_dir_segs(out) != want or (d.startswith("/") != out.startswith("/") and d != ""):
            return ("impl:src:outside-root", "env.src(%r) under %r gave %r" % (name, d, out))
    if op == "suffix":
        for o in c.get("outs") or []:
            if not segs_clean(o):
                return ("impl:suffix:unclean", "output name %r" % o)
    if op == "rule" and not c.get("err"):
        for o in [c["out"]] + (c.get("deps") or []) + (c.get("outs") or []):
            if not segs_clean(o) or o.startswith("/"):
                return ("impl:rule:unclean", "rule %s resolved a name to %r" % (c["kind"], o))
    if op == "download":
        stray = (c.get("stray") or []) + [d for d in (c.get("during") or []) if d not in (c.get("stray") or [])]
        if stray:
            return ("impl:write-outside-workspace:download",
                    "building a download rule (%s) created %r outside <root>/out and <root>/src (TMPDIR = <base>/tmp, "
                    "working directory = <base>/cwd, workspace = <base>/ws); seen while the body was sent: %r"
                    % (c.get("kind"), c.get("stray") or [], c.get("during") or []))
        for o in c.get("outs") or []:
            if not segs_clean(o):
                return ("impl:build:unclean", "download wrote %r under out/" % o)
        if c.get("kind") in ("match", "empty") and c.get("err"):
            return ("impl:download:failed", "a download with the right checksum failed: %s" % c.get("err"))
        if c.get("kind") in ("mismatch", "truncated", "notfound") and not c.get("err"):
            return ("impl:download:accepted", "a %s download was accepted" % c.get("kind"))
        return None
    if op == "buildkey":
        bad = [p for p in c.get("changed") or [] if not (p == "deep/ws/out" or p.startswith("deep/ws/out/"))]
        if bad:
            return ("impl:build:outside-out", "a build changed %r, outside the workspace's output tree" % bad[:4])
        if c.get("loaded") and c.get("pkgoutside"):
            return ("impl:build:package-outside-src",
                    "repo-map key %r: the build file and sources of the package were read from outside the "
                    "workspace's source tree (file set lists %r)" % (c["p"], (c.get("outs") or [])[:3]))
        if c.get("loaded"):
            for o in [c["out"]] + (c.get("outs") or []):
                if not segs_clean(o):
                    return ("impl:build:unclean", "built file set lists %r" % o)
        return None
    if op == "build":
        bad = [p for p in c.get("changed") or [] if not (p == "ws/out" or p.startswith("ws/out/"))]
        if bad:
            return ("impl:build:outside-out", "a build changed %r, outside the workspace's output tree" % bad[:4])
        if not c.get("err"):
            for o in [c["out"]] + (c.get("outs") or []):
                if not segs_clean(o):
                    return ("impl:build:unclean", "built file set lists %r" % o)
            return oracle_fileset(c)
        return None
    if op == "fileset":
        if not c.get("err") and not segs_clean(c["out"]):
            return ("impl:fileset:name", "file set name %r" % c["out"])
        return oracle_fileset(c)
    return None


def py_dir_segs(d):
    """clean elements of a directory path, keeping a leading run of '..' when relative"""
    rooted = d.startswith("/")
    st = []
    for s in d.split("/"):
        if s in ("", "."):
            continue
        if s == "..":
            if st and st[-1] != "..":
                st.pop()
            elif not rooted:
                st.append("..")
            continue
        st.append(s)
    return st


def trivial(c):
    op = c["op"]
    if op == "clean":
        return c["s"] == ""
    if op in ("rel", "abs"):
        return c["f"] == "" and c["p"] == ""
    if op == "match":
        return c.get("pat", "") == "" and c["s"] == ""
    if op == "pjoin":
        return all(e == "" for e in c["elems"])
    return False


def run(ck):
    nrand = 1000 if not ck.thorough else 8000
    ck.gen()
    built = ck.coq_make(MODEL + PROOFS, clean=ck.thorough)
    ck.obligations = ck.count_statements(STATEMENT_FILES)
    proofs_ok = all(built.get(x) for x in PROOFS)
    if proofs_ok and ck.audit("theories/Props/C12.v"):
        ck.discharged = list(ck.obligations)
    if ck.thorough and proofs_ok:
        ck.coqchk(["Verif.Props.C12"])
    code_tie.run(ck, "C12")

    scratch = os.environ.get("VERIF_SCRATCH") or os.path.join(vlib.BUILD, "scratch")
    scratch = os.path.join(scratch, "c12")
    binp = ck.build_harness("c12")
    cases = []
    if binp:
        args = [binp, "-seed", str(ck.seed), "-n", str(nrand), "-scratch", scratch]
        if ck.thorough:
            args.append("-thorough")
        rc, out, err = vlib.sh2(args, timeout=1500)
        shutil.rmtree(scratch, ignore_errors=True)
        if rc != 0:
            ck.broken.append({"what": "harness run failed", "detail": err[-1500:]})
        for line in out.splitlines():
            if line.startswith("{"):
                cases.append(json.loads(line))

    # several file sets built by one Builder in one call: one case per rule, each judged on its own
    # (a file set's listing is a function of the tree and its own patterns only)
    expanded = []
    for c in cases:
        if c["op"] != "buildmany":
            expanded.append(c)
            continue
        order = [r["name"] for r in c.get("rules") or []]
        many = c.get("many") or []
        for k, r in enumerate(c.get("rules") or []):
            m = many[k] if k < len(many) else {"out": "", "outs": [], "err": c.get("err") or "other:not built"}
            expanded.append(dict(c, op="build", rule=r, out=m.get("out", ""), outs=m.get("outs") or [],
                                 err=m.get("err") or c.get("err") or "", changed=[],
                                 declared_in_one_build_file=order))
    cases = expanded

    ops = {}
    for c in cases:
        ops[c["op"]] = ops.get(c["op"], 0) + 1
        ck.count(c["stream"], key=(c["op"], c.get("s"), c.get("pat"), c.get("p"), c.get("f"), c.get("dir"),
                                   json.dumps(c.get("elems")), json.dumps(c.get("tree")),
                                   json.dumps(c.get("rule")), c.get("kind"), json.dumps(c.get("fields"))),
                 trivial=trivial(c))
        why = impl_oracle(c)
        if why:
            ck.violation(why[0], why[1], {"case": c, "expected": "clean name inside package/workspace; file set = "
                                          "explicit + selected - ignored, directory ignores cover only files beneath",
                                          "observed": {k: c.get(k) for k in ("out", "outs", "deps", "err")}})
    ck.coverage["ops"] = ops
    ck.coverage["exhaustive"] = False
    for i in (0, 3, 30, 6000, 12000, len(cases) - 1):
        if 0 <= i < len(cases):
            ck.sample({k: cases[i][k] for k in cases[i] if k != "i"})

    model_ok = all(built.get(x) for x in MODEL)
    if cases and model_ok:
        shard = 2000
        mism = []
        head = ("From Coq Require Import List NArith Bool String.\n"
                "From Verif Require Import Lib.Path Caco.Names Caco.FileSet Caco.NamesCorr.\n"
                "Import ListNotations.\nLocal Open Scope N_scope.\n"
                "Definition cases : list ccase := [\n  ")

        def ev(s):
            part = cases[s:s + shard]
            txt = (head + ";\n  ".join(to_coq(c) or "CClean [] [46]" for c in part) + "\n].\n"
                   "Definition M := Eval vm_compute in mismatches cases.\nPrint M.\n")
            rc, out = ck.coq_eval("cases_%d" % (s // shard), txt)
            return s, (vlib.parse_coq_list_of_nat(out, "M") if rc == 0 else None), out

        with concurrent.futures.ThreadPoolExecutor(max_workers=12) as ex:
            for s, got, out in ex.map(ev, range(0, len(cases), shard)):
                if got is None:
                    ck.broken.append({"what": "correspondence evaluation failed", "detail": out[-1500:]})
                    continue
                mism += [s + i for i in got]
        mism.sort()
        ck.coverage["correspondence_cases"] = len(cases)
        ck.coverage["correspondence_mismatches"] = len(mism)
        for i in mism[:50]:
            c = cases[i]
            ck.broken.append({"what": "correspondence: model and implementation disagree",
                              "stream": c["stream"], "op": c["op"], "case_index": i})
            if impl_oracle(c) is None:
                ck.violation("corr:%s:%s" % (c["stream"], c["op"]),
                             "implementation output differs from the proved model",
                             {"case": c, "model": "Caco/NamesCorr.v check_case evaluated by vm_compute disagrees",
                              "observed": {k: c.get(k) for k in ("out", "outs", "deps", "bool", "err")}})
    elif cases and not model_ok:
        ck.broken.append({"what": "model does not compile; correspondence not evaluated"})

    return ck.finish(
        level="proof",
        checker_cmd="bin/check C12 (gen -> make -C coq theories/Props/C12.vo -> Print Assumptions audit"
                    " -> harness c12 vs vm_compute of Caco/NamesCorr.v)",
        trusted=["Coq 8.16.1 kernel + vm_compute",
                 "translator gen/caco_names.go (exclusion lists, suffixes, source text, resolver-call table)",
                 "harness/cmd/c12 + checks/c12.py comparison and oracle", "caco3/verif_names.go shim",
                 "modelled not verified: path.Match, filepath.Match, filepath.Glob, filepath.WalkDir, "
                 "utf8.DecodeRuneInString, filepath.Rel under srcDir, the OS file system"],
        rule="exhaustive: path.Clean on every string over {a,b,.,/} up to length 6 and a seed-chosen quarter of length 7 (all up to 9 thorough); path.Join on all "
             "pairs/triples of short strings; makeRelPath/makePath on every name of <=4 segments from "
             "{a,.,..,''} x 7 package paths; env.src/out; path.Match AND filepath.Match on patterns over {a,*,?,/} "
             "and over {a,b,[,],^,-,\\,*,?} up to length 3 plus a seed-chosen 1/16 of length 4, a class/escape "
             "corpus, multi-byte and invalid UTF-8 (hex); file sets over trees with five kinds of symbolic link; "
             "end-to-end builds with unclean repo-map keys and with linked packages; rule "
             "constructors with hostile strings; seeded random longer names; file sets on random consistent "
             "trees of <=5 files from a pool with shared prefixes x random select/ignore/files. A case is "
             "trivial when all its input strings are empty; distinct = distinct inputs",
        assumptions=["package paths handed to constructors are what the loader produces (makeRelPath results, now "
                     "also for repo-map keys); hostile package paths are still covered by the name theorems",
                     "symbolic links in the source tree are listed by name and lstat'ed, never opened, by the code "
                     "run here; a link to a directory is passed by glob selections, by the root of a recursive "
                     "selection and by explicit names (open finding)",
                     "glob selects list matched directories as well as files (as the code does)"])
