"""C09 — jsonx: accepted input is converted to valid JSON with the same
meaning (DESIGN.md §7 C09)."""
import vlib
import jsonx_common as J

META = {
    "category": "proof",
    "text": "Coq theorems over the executable model of the JSONx lexer, parser and encoder: every accepted input is "
            "emitted as a text that the RFC 8259 reference parser reads, and that denotes the input's value (integers "
            "exactly under Go literal rules, strings as the unquoted Go string read back through JSON, floats under the "
            "shortest-round-trip law of strconv), with bare keys, trailing commas, comments, raw/escaped strings, signs "
            "and dotted identifier lists covered by induction on the syntax tree; every document of the documented syntax, "
            "with every surface choice at token level (bare or quoted keys, trailing commas, signs, Go-style literals, "
            "dotted lists), is accepted and emitted with its documented value; Unmarshal reports trailing tokens; the "
            "bytes ToJSON returns are owned by the caller (origin of every []byte result extracted from the source). "
            "Tied to the code by a translator of constants and by differential runs (ToJSON/Unmarshal outputs, "
            "strconv.Unquote, json.Marshal of strings, big.Int literals, encoding/json as reference reader) evaluated in Coq.",
    "note": "Trusted: Coq kernel + vm_compute; translator gen/jsonx.go; harness + shim; strconv/encoding/json/math/big "
            "are modelled and compared on every run, not verified; float parsing/printing is abstract with explicit "
            "laws; a Go string with bytes that are not UTF-8 denotes its U+FFFD-sanitised form (what JSON can carry).",
    "technique": "Coq proof (induction on the AST, printer/parser round trip against a reference JSON parser) + "
                 "go/ast translation of constants + vm_compute correspondence",
}

PROOFS = ["theories/Props/C09.vo"]
STATEMENT_FILES = ["theories/Props/C09.v", "theories/Jsonx/ConstsGen.v"]


def same_values(want, got):
    w = want.split("#") if want else []
    g = got.split("#") if got else []
    return len(w) == len(g) and all(J.same_value(a, b) for a, b in zip(w, g))


def impl_oracle(c):
    o = c["obs"]
    kind = J.crash_kind(o)
    if kind:
        return kind, "%s: %s" % (c["op"], o["crash"][:160])
    op = c["op"]
    if op == "file":
        return J.file_oracle(c)
    if op in ("script", "rstream", "rseries", "reuse", "targets", "lexfn", "bigfile"):
        return J.usage_oracle(c)
    if op in ("tojson", "unmarshal") and not o.get("ok") and c.get("want") and "E(" not in c["want"] \
            and c["stream"] in ("numlex", "words", "escapes", "big"):
        return "rejected", "a document of the documented syntax denoting %s was rejected (%s)" % (
            c["want"], o.get("errs") or o.get("first") or o.get("res"))
    if op == "tojson" and c.get("reject") and o.get("ok"):
        return "accepted-invalid", "accepted %s, which has no value in the documented syntax; emitted %s" % (
            c.get("src"), o.get("text"))
    if op in ("tojson", "unmarshal", "series") and c.get("order"):
        bad = J.order_oracle(c)
        if bad:
            return bad
    if op in ("tojson", "unmarshal") and o.get("ok"):
        if o.get("valid") is False:
            return "invalid-json", "accepted, but the emitted text %s is not valid JSON" % o.get("text")
        if c.get("want") and "E(" not in c["want"] and not J.same_value(c["want"], o.get("got")):
            return "meaning", "accepted, but the emitted JSON %s denotes %s, the input denotes %s" % (
                o.get("text"), o.get("got"), c["want"])
        if c.get("reject"):
            return "trailing-accepted", "Unmarshal accepted a document with content after the value"
    if c.get("plain") and op in ("tojson", "unmarshal"):
        rs = c.get("reasons") or []
        accepted = bool(o.get("ok"))
        if not accepted and not rs:
            return "plain-json-rejected", ("valid RFC 8259 text rejected for no documented reason (errors %s)"
                                           % (o.get("errs") or o.get("first")))
        if accepted and rs:
            return "plain-json-accepted-despite", "accepted although %s" % ",".join(rs)
    if op == "stream":
        if o.get("note"):
            return "stream", o["note"]
        if o.get("fin") == 2:
            return "invalid-json", "parsed without error, but json.Unmarshal rejected the emitted text"
        if c.get("multi"):
            if not o.get("ok"):
                return "stream-rejected", "a sequence of valid values was rejected: %s" % o.get("errs")
            if "E(" not in c.get("want", "") and not same_values(c.get("want", ""), o.get("got", "")):
                return "meaning", "the values decoded one after the other denote %s, the input denotes %s" % (
                    o.get("got"), c.get("want"))
    if op == "tseries":
        if o.get("note"):
            return "typed", o["note"]
        items = c.get("wantitems")
        if items is not None:
            want_errs = ["jsonx.unknownType" if it["kind"] == "unknowntype" else "jsonx.marshalJSON"
                         for it in items if it["kind"] != "ok"]
            if (o.get("errs") or []) != want_errs:
                return "typed-errors", "entries %s: expected errors %s, got %s" % (
                    [it["name"] + ":" + it["kind"] for it in items], want_errs, o.get("errs"))
            if not want_errs and len(o.get("items") or []) != len(items):
                return "typed", "expected %d entries, got %d" % (len(items), len(o.get("items") or []))
    if op == "unmarshal" and o.get("res") == "json":
        return "invalid-json", "parsed without error, but json.Unmarshal rejected the emitted text: %s" % o.get("note")
    return None


def run(ck):
    n = 5000 if not ck.thorough else 50000
    ck.gen()
    built = ck.coq_make(J.MODEL + PROOFS, clean=ck.thorough)
    ck.obligations = ck.count_statements(STATEMENT_FILES)
    proofs_ok = all(built.get(x) for x in PROOFS)
    if proofs_ok and ck.audit("theories/Props/C09.v"):
        ck.discharged = list(ck.obligations)
    if ck.thorough and proofs_ok:
        ck.coqchk(["Verif.Props.C09"])

    cases = J.run_harness(ck, "c09", n)
    accepted = 0
    shrunk = set()
    for k, c in enumerate(cases):
        if c["op"] == "hold":
            ck.coverage["results_held_across_later_cases"] = ck.coverage.get("results_held_across_later_cases", 0) + (c["obs"].get("n") or 0)
            if not J.crash_kind(c["obs"]):
                J.hold_oracle(ck, cases, k)
                continue
        o = c["obs"]
        trivial = len(bytes.fromhex(c["in"])) == 0 or (c["op"] in ("tojson", "unmarshal") and not o.get("ok")
                                                       and not c.get("reject"))
        if c["op"] in ("tojson", "unmarshal") and o.get("ok"):
            accepted += 1
        ck.count(c["stream"] + ":" + c["op"], key=(c["op"], c["in"], c.get("script"), c.get("cut")), trivial=trivial)
        bad = impl_oracle(c)
        if bad:
            key = "impl:%s:%s" % (bad[0], c["stream"])
            rep = {"case": J.slim(c), "expected": c.get("want") or "valid JSON / rejection", "observed": o}
            if key not in shrunk and bad[0] == "invalid-json":
                shrunk.add(key)
                small = J.shrink(ck, c, lambda c2: (impl_oracle(c2) or (None,))[0] == "invalid-json", budget=60)
                if small is not c:
                    rep["minimized_case"] = J.slim(small)
            ck.violation(key, bad[1], rep)
    ck.coverage["accepted_documents"] = accepted
    for c in cases[:1] + cases[200:202] + cases[900:901] + cases[-2:]:
        ck.sample(J.slim(c))

    model_ok = all(built.get(x) for x in J.MODEL)
    if cases and model_ok:
        mism = J.correspondence(ck, cases)
        for i in (mism or [])[:60]:
            c = cases[i]
            ck.broken.append({"what": "correspondence: model and implementation disagree",
                              "stream": c["stream"], "op": c["op"], "case_index": i, "input": c.get("src")})
            if impl_oracle(c) is None:
                ck.violation("corr:%s" % c["op"],
                             "implementation output differs from the proved model of jsonx",
                             {"case": J.slim(c), "model": "Jsonx/Corr.v check_case = false", "observed": c["obs"]})
    elif cases:
        ck.broken.append({"what": "model does not compile; correspondence not evaluated"})

    return ck.finish(
        level="proof",
        checker_cmd="bin/check C09 (gen -> make -C coq theories/Props/C09.vo -> Print Assumptions audit -> "
                    "harness jsonx -mode c09 vs vm_compute of Jsonx/Corr.v)",
        trusted=J.TRUSTED,
        rule="fixed number spellings first; seeded (splitmix64) JSON values rendered with random JSONx surface choices "
             "(key quoting, comments, white space and line ends, raw / escaped strings, sign, hex / octal / decimal, "
             "exponent forms, trailing commas, dotted identifier lists); number and string streams; random RFC 8259 "
             "texts whose meaning is what encoding/json reads; sequences of values read one after the other from one "
             "Decoder; typed series rendered from Go struct values (tags, omitempty, nested pointer, map, untagged "
             "fields matched case-insensitively, interface{}) with seeded defects (unknown field, type mismatch, integer "
             "overflow, unknown type) decoded by DecodeSeries into the real struct types and compared with "
             "reflect.DeepEqual; documents with trailing content; standard-library "
             "correspondence inputs. Usage patterns (round 3): every string up to length 3 over 0179xeE.-+af and "
             "up to 4 over 01x.e- as a document (a number literal of the documented syntax must be emitted with its "
             "value, a number token without value rejected); keyword prefixes and near-keywords as value, bare key, "
             "quoted key, list element, dotted list and type name; digit counts and value bounds of every escape "
             "kind (octal, \\x, \\u, \\U, surrogates) against strconv.Unquote; tokens across byte 4096 and longer "
             "than bufio's buffer, nesting 1000 deep; ONE Decoder driven by a script of More / Decode / DecodeSeries "
             "calls with intended values; jsonx.Unmarshal into 13 target types against json.Unmarshal of ToJSON's "
             "output, and into nil / non-pointer / nil-pointer targets; documents through the entry points one after "
             "the other and from 8 goroutines; the file-level entry points (ReadFile, ReadFileMaybeJSON, "
             "ReadSeriesFile) on documents with trailing content; objects of 13..40 members with repeated keys (the same "
             "key bare and quoted), in JSONx and in plain JSON: of a repeated key the occurrence that is last in the source (the "
             "one that wins) must be last in the emitted JSON, which must denote what encoding/json reads (a "
             "re-ordering of distinct keys keeps the meaning and is not flagged). Files of l-1, l, l+1, 2l+1 bytes for "
             "every integer l the source names and of 1 MiB-1, 1 MiB, 1 MiB+1 (3 MiB once) through ReadFile / "
             "ReadFileMaybeJSON / ReadSeriesFile: a value, spaces or comment lines, a second value at the very end; a "
             "number straddling byte l; a value followed by spaces only - the answer must be what Unmarshal / "
             "DecodeSeries say about the bytes on disk. A case is trivial if its input is empty or it was rejected; distinct = distinct "
             "(operation, input bytes).",
        assumptions=["strconv.ParseFloat / json.Marshal(float64) satisfy the shortest-round-trip law",
                     "a Go string that is not valid UTF-8 denotes its U+FFFD-sanitised form"])
