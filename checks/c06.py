"""C06 — pisces: read-modify-write operations are atomic under concurrency (DESIGN.md §7 C06)."""
import json
import re
from concurrent.futures import ThreadPoolExecutor

import vlib

META = {
    "category": "proof",
    "text": "Coq theorems over all interleavings of any number of goroutines running any programs: (memory) every "
            "memKV method is a sequence of micro-steps under the lock the source takes, and the reduction theorem "
            "for sync.RWMutex (Lib/Sched.v) shows results and map equal the sequential run of the returned calls in "
            "return order; (sqlite) statements are atomic, mutate is a transaction under SQLite's lock ladder "
            "with arbitrary SQLITE_BUSY refusals, and results and committed database equal the sequential run of "
            "the calls that did not report BUSY, in commit order; corollaries: n successful increments add n, Adds "
            "of one key succeed at most once, Removes of one key exactly once, Emplace keeps the first value, every "
            "Append lands exactly once; the function of a Mutate is shown the value of that attempt only (every backend "
            "invokes it at most once per call, or the decode target is fresh per invocation - extracted from the source). "
            "Lock/transaction skeletons are re-extracted from mem_kv.go / sqlite3_kv.go / psql_kv.go on every run; "
            "recorded concurrent histories of the real backends are decided by a Coq linearizability checker "
            "(proved sound) and by accounting checks.",
    "note": "Partial: runtime. Trusted/modelled, not verified: sync.RWMutex semantics (exclusive vs shared holders), "
            "SQLite's locking (RESERVED exclusive among writers, commit only when no other connection holds SHARED, "
            "a refused request = SQLITE_BUSY without effect), database/sql connection pooling; the schedules of the "
            "recorded runs are whatever the Go scheduler produced plus one forced schedule (reader inside its walk "
            "while a Mutate commits). Nothing is claimed for psqlKV under concurrency: PostgreSQL cannot run here and "
            "its isolation levels are not modelled (psqlKV.mutate is SELECT then UPDATE without FOR UPDATE, which under "
            "READ COMMITTED would lose updates - suspected, not reproducible here). Harness also built with -race. "
            "No axioms.",
    "technique": "Coq proof (invariant over an interleaving semantics, forward simulation with return-order "
                 "linearization) + go/ast extraction of lock/transaction skeletons + recorded histories decided by "
                 "vm_compute (linearizability search, accounting)",
}

MODEL = ["theories/Kv/AtomicCorr.vo"]
PROOFS = ["theories/Props/C06.vo"]
STATEMENT_FILES = ["theories/Props/C06.v", "theories/Kv/AtomicGen.v"]

ERR = {"not_found": "ENotFound", "exists": "EExists", "key_too_long": "EKeyTooLong", "decode": "EDecode",
       "user": "EUser", "busy": "EBusy", "other": "EOther", "panic": "EPanic",
       "upanic": "EPanic"}   # upanic: the panic value of the user's own function came back out of Mutate
MUT = {"incr": "mf_incr", "incr-fail": "mf_err", "incr-cancel": "mf_cancel", "incr-panic": "mf_panic"}
SETOPS = ("madd", "mdel", "sadd", "sdel")   # Mutates of a set-valued entry through a map / a struct target


def lit(hexs):
    bs = bytes.fromhex(hexs or "")
    return "[" + ";".join(str(b) for b in bs) + "]"


def uop(o):
    k = lit(o.get("k"))
    v = lit(o.get("v"))
    t = o["op"]
    if t == "count":
        return "UCount"
    if t in MUT:
        return "UMutate %s %s" % (k, MUT[t])
    if t in SETOPS:
        return "UMutate %s (%s %d)" % (k, "mf_sadd" if t[1:] == "add" else "mf_sdel", bytes.fromhex(o["v"])[0])
    return {"append": "UAppendBytes %s %s" % (k, v),
            "add": "UAdd %s %s" % (k, v), "emplace": "UEmplace %s %s" % (k, v),
            "replace": "UReplace %s %s" % (k, v), "remove": "URemove %s" % k,
            "get": "UGet %s" % k, "getbytes": "UGetBytes %s" % k}[t]


def res(c):
    if c["e"] == "ok":
        if c["op"]["op"] == "count":
            return "RCount %d" % c["n"]
        return "RBytes %s" % lit(c["b"]) if "b" in c else "RUnit"
    return "RErr %s" % ERR.get(c["e"], "EOther")


def opt(f):
    return "(Some %s)" % lit(f["b"]) if f.get("b") is not None else "None"


def truth(run):
    """The final contents to account against: the committed database for
    sqlite (read after reopening the file), the map for memory."""
    return run.get("durable") if run["backend"] == "sqlite" else run["final"]


# ---- python reference (implementation-only oracle for short histories) ----

def json_ok(b):
    try:
        s = b.decode()
        json.loads(s, parse_constant=lambda x: (_ for _ in ()).throw(ValueError(x)))
        return True
    except Exception:
        return False


def ref_step(m, o):
    """m: dict key->bytes (classes are irrelevant here). Returns (m', e, b)."""
    k = o.get("k", "")
    v = bytes.fromhex(o.get("v", ""))
    t = o["op"]
    if t == "count":
        return m, "ok", len(m)
    cur = m.get(k)
    if t in SETOPS:
        if cur is None:
            return m, "not_found", None
        try:
            d = json.loads(cur.decode())
            assert isinstance(d, dict)
        except Exception:
            return m, "other", None
        x = v.decode()
        if t[1:] == "add":
            d[x] = 1
        else:
            d.pop(x, None)
        nv = json.dumps(d, sort_keys=True, separators=(",", ":")).encode()
        return dict(m, **{k: nv}), "ok", None
    if t in MUT:
        if cur is None:
            return m, "not_found", None
        if not json_ok(cur):
            return m, "decode", None
        # a Mutate whose function fails, cancels or panics changes nothing,
        # whatever the function did to its argument before
        if t == "incr-fail":
            return m, "user", None
        if t == "incr-cancel":
            return m, "ok", None
        if t == "incr-panic":
            return m, "upanic", None
        if not (cur.isdigit() and len(cur) > 0):
            return m, "user", None
        return dict(m, **{k: inc_dec(cur)}), "ok", None
    if t == "append":
        return dict(m, **{k: (cur or b"") + v}), "ok", None
    if t == "add":
        if cur is not None:
            return m, "exists", None
        return dict(m, **{k: v}), "ok", None
    if t == "emplace":
        if cur is not None:
            return m, "ok", None
        return dict(m, **{k: v}), "ok", None
    if t == "replace":
        return dict(m, **{k: v}), "ok", None
    if t == "remove":
        if cur is None:
            return m, "not_found", None
        m2 = dict(m)
        del m2[k]
        return m2, "ok", None
    if t == "get":
        if cur is None:
            return m, "not_found", None
        if not json_ok(cur):
            return m, "decode", None
        return m, "ok", cur
    if t == "getbytes":
        if cur is None:
            return m, "not_found", None
        return m, "ok", cur
    raise ValueError(t)


def inc_dec(cur):
    ds = list(cur)
    i = len(ds) - 1
    while i >= 0:
        if ds[i] == 0x39:
            ds[i] = 0x30
            i -= 1
            continue
        ds[i] += 1
        return bytes(ds)
    return b"1" + bytes(ds)


def linearizable(run):
    m = {}
    for o in run.get("init") or []:
        m, _, _ = ref_step(m, o)
    calls = [c for c in run["calls"] if c["e"] != "busy"]
    final = {f["k"]: (bytes.fromhex(f["b"]) if f.get("b") is not None else None) for f in truth(run)}
    budget = [400000]

    def search(pending, m):
        budget[0] -= 1
        if budget[0] < 0:
            return True   # undecided within the budget: left to the Coq checker
        if not pending:
            return all(m.get(k) == v for k, v in final.items())
        for i, c in enumerate(pending):
            if any(d["ret"] < c["inv"] for j, d in enumerate(pending) if j != i):
                continue
            m2, e, b = ref_step(m, c["op"])
            if e != c["e"]:
                continue
            if e == "ok" and c["op"]["op"] == "count":
                if c.get("n") != b:
                    continue
            elif e == "ok" and "b" in c and bytes.fromhex(c["b"]) != b:
                continue
            if search(pending[:i] + pending[i + 1:], m2):
                return True
        return False

    return search(calls, m)


def dstr(hexs):
    return bytes.fromhex(hexs).decode("latin1") if hexs is not None else None


def impl_oracle(run):
    """Implementation-only reading of the property on one recorded run."""
    out = []
    be, st = run["backend"], run["stream"]
    calls = run["calls"]
    brief = [{"t": c["t"], "inv": c["inv"], "ret": c["ret"], "op": c["op"]["op"], "k": dstr(c["op"]["k"]),
              "v": dstr(c["op"].get("v")), "e": c["e"], "b": dstr(c.get("b")), "n": c.get("n"), "msg": c.get("msg")}
             for c in calls]

    def rep(extra):
        d = {"backend": be, "stream": st, "schedule": run.get("name"), "threads": run["threads"],
             "init": [{"op": o["op"], "k": dstr(o["k"]), "v": dstr(o.get("v"))} for o in run.get("init") or []],
             "calls": brief if len(brief) <= 40 else brief[:20] + [{"...": len(brief) - 40}] + brief[-20:],
             "final_through_store": [{"k": dstr(f["k"]), "b": dstr(f.get("b")), "e": f.get("e")} for f in run["final"]],
             "committed_after_reopen": [{"k": dstr(f["k"]), "b": dstr(f.get("b")), "e": f.get("e")}
                                        for f in run.get("durable") or []]}
        d.update(extra)
        return d

    hung = [c for c in calls if c["e"] == "hang"]
    if hung:
        c = hung[0]
        out.append(("impl:hang:%s:%s" % (run.get("name", st), be),
                    "%s did not return: %s" % (c["op"]["op"], c.get("msg")),
                    rep({"expected": "every call returns once the call holding the lock / transaction has returned"})))
        return out
    if st == "forced":
        idle = [c for c in calls if c["t"] == 3 and c["e"] == "busy"]
        if idle:
            c = idle[0]
            out.append(("impl:busy-when-idle:%s:%s" % (run.get("name", st), be),
                        "%s reported BUSY although every other call had returned: something of an earlier call "
                        "(a lock, an open transaction) was left behind" % c["op"]["op"],
                        rep({"expected": "a call made while no other call is in progress is not refused"})))
    bad = [c for c in calls if c["e"] in ("other", "panic") or (c["e"] == "upanic" and c["op"]["op"] != "incr-panic")]
    if bad:
        c = bad[0]
        out.append(("impl:%s:%s:%s" % (c["e"], c["op"]["op"], be),
                    "%s on %s returned an error outside the statement's vocabulary: %s" % (c["op"]["op"], be, c.get("msg")),
                    rep({"expected": "ok, or one of exists/not_found/decode/busy", "count": len(bad)})))
    if be == "sqlite":
        for f, d in zip(run["final"], run["durable"]):
            if f.get("e") != "busy" and (f.get("b"), f.get("e")) != (d.get("b"), d.get("e")):
                out.append(("impl:visible!=committed:" + st,
                            "after all calls returned, key %r reads %r through the store but %r is what was committed"
                            % (dstr(f["k"]), dstr(f.get("b")), dstr(d.get("b"))),
                            rep({"expected": "contents = sequential run of the successful calls"})))
                break
    hold = run.get("hold")
    if hold:
        for c in calls:
            excluded = hold["writer"] or c["op"]["op"] not in ("get", "getbytes")
            # (the holder still has the lock at stamp "out", taken on leaving its callback)
            if hold["mid"] < c["inv"] < hold["out"] and excluded and not c["ret"] > hold["out"]:
                out.append(("impl:not-blocked:%s:%s" % (run.get("name", st), be),
                            "%s was invoked while a %s was inside its critical section and returned before it "
                            "left: the lock did not exclude it" % (c["op"]["op"], "Mutate" if hold["writer"] else "Walk"),
                            rep({"hold": hold, "expected": "the call blocks until the holder returns"})))
                break
    fin = {f["k"]: f for f in truth(run)}
    if st in ("lin", "linset", "forced"):
        if not linearizable(run):
            out.append(("impl:not-linearizable:%s:%s" % (run.get("name", st), be),
                        "no order of the calls that did not report BUSY, consistent with real time, reproduces the "
                        "returned results and the final contents",
                        rep({"expected": "final contents and results = some sequential order of the successful calls"})))
    elif st == "counter":
        for k, f in fin.items():
            ok = sum(1 for c in calls if c["op"]["k"] == k and c["e"] == "ok")
            got = dstr(f.get("b"))
            if got != str(ok):
                out.append(("impl:lost-update:counter:" + be,
                            "%d increments of %r reported success but the counter holds %r" % (ok, dstr(k), got),
                            rep({"expected": str(ok)})))
    elif st == "append":
        f = list(fin.values())[0]
        got = bytes.fromhex(f.get("b") or "").decode("latin-1")   # any bytes: a store may hold what nobody appended
        toks = [got[i:i + 8] for i in range(0, len(got), 8)]
        oks = [dstr(c["op"]["v"]) for c in calls if c["e"] == "ok"]
        if sorted(toks) != sorted(oks):
            lost = sorted(set(oks) - set(toks))[:5]
            extra = sorted(set(toks) - set(oks))[:5]
            out.append(("impl:append-accounting:" + be,
                        "appended value does not hold every successful token exactly once (missing %s, unexpected %s)"
                        % (lost, extra), rep({"expected": "each successful token exactly once"})))
        else:
            pos = {t: i for i, t in enumerate(toks)}
            for t in range(run["threads"]):
                mine = [pos[dstr(c["op"]["v"])] for c in calls if c["t"] == t and c["e"] == "ok"]
                if mine != sorted(mine):
                    out.append(("impl:append-order:" + be, "tokens of goroutine %d are not in program order" % t,
                                rep({"expected": "per-goroutine order preserved"})))
                    break
    elif st == "appendfresh":
        lost = []
        for k, f in fin.items():
            got = bytes.fromhex(f.get("b") or "").decode("latin1")
            toks = [got[i:i + 8] for i in range(0, len(got), 8)]
            oks = [dstr(c["op"]["v"]) for c in calls if c["op"]["k"] == k and c["e"] == "ok"]
            if sorted(toks) != sorted(oks):
                lost.append((dstr(k), sorted(set(oks) - set(toks)), sorted(set(toks) - set(oks)), len(oks), len(toks)))
        if lost:
            k, miss, extra, no, nt_ = lost[0]
            sub = [c for c in calls if dstr(c["op"]["k"]) == k]
            out.append(("impl:acked-append-missing:%s:%s" % (run.get("name"), be) if miss else
                        "impl:unacked-append-present:%s:%s" % (run.get("name"), be),
                        "AppendBytes of %d goroutines to the absent key %r, released together: %d calls returned nil, the key "
                        "holds %d tokens (acknowledged but missing %s, present but not acknowledged %s); %d of %d keys of "
                        "the run are affected" % (run["threads"], k, no, nt_, miss, extra, len(lost), len(fin)),
                        {"backend": be, "dsn": run.get("name"), "key": k,
                         "calls_on_this_key": [{"t": c["t"], "inv": c["inv"], "ret": c["ret"], "token": dstr(c["op"]["v"]),
                                                "e": c["e"]} for c in sub],
                         "final_value": dstr(fin[[kk for kk in fin if dstr(kk) == k][0]].get("b")),
                         "expected": "a permutation of exactly the tokens whose call returned nil"}))
    elif st == "ownset":
        f = list(fin.values())[0]
        try:
            got = set(json.loads(bytes.fromhex(f.get("b") or "").decode()).keys())
        except Exception:
            got = None
        want = set()
        for t in range(run["threads"]):
            oks = [c for c in calls if c["t"] == t and c["e"] == "ok"]
            if oks and oks[-1]["op"]["op"][1:] == "add":
                want.add(dstr(oks[-1]["op"]["v"]))
        if got != want:
            out.append(("impl:set-accounting:" + be,
                        "every goroutine adds and removes only its own letter of one set: the set holds %s in the end, "
                        "the last successful Mutates say %s" % (sorted(got) if got is not None else f.get("b"), sorted(want)),
                        rep({"expected": "a letter is in the set iff its goroutine's last successful Mutate added it"})))
    elif st == "removerace":
        for k, f in fin.items():
            cs = [c for c in calls if c["op"]["k"] == k]
            oks = [c for c in cs if c["e"] == "ok"]
            nfs = [c for c in cs if c["e"] == "not_found"]
            got = f.get("b")
            good = (len(oks) == 1 and got is None) or (len(oks) == 0 and got is not None and not nfs)
            if not good or any(c["e"] not in ("ok", "not_found", "busy") for c in cs):
                out.append(("impl:remove-once:" + be,
                            "Removes of the existing key %r: %d reported success, %d not-found, key then holds %r"
                            % (dstr(k), len(oks), len(nfs), dstr(got)),
                            rep({"expected": "exactly one success, all others not-found (or busy), key absent"})))
                break
    elif st in ("addrace", "emplacerace"):
        for k, f in fin.items():
            cs = [c for c in calls if c["op"]["k"] == k]
            oks = [c for c in cs if c["e"] == "ok"]
            got = f.get("b")
            if st == "addrace":
                exists = [c for c in cs if c["e"] == "exists"]
                good = (len(oks) == 1 and got == oks[0]["op"]["v"]) or \
                       (len(oks) == 0 and got is None and not exists)
                if not good:
                    out.append(("impl:add-once:" + be,
                                "Adds of %r: %d reported success, key holds %r" % (dstr(k), len(oks), dstr(got)),
                                rep({"expected": "exactly one success whose value the key holds"})))
                    break
            else:
                reads = [c for c in cs if c["op"]["op"] == "getbytes" and c["e"] == "ok"]
                oks = [c for c in oks if c["op"]["op"] == "emplace"]
                if any(c["b"] != got for c in reads):
                    c = next(c for c in reads if c["b"] != got)
                    out.append(("impl:emplace-overwritten:" + be,
                                "key %r read %r after an Emplace of it had returned, and holds %r in the end: a later "
                                "Emplace overwrote the value" % (dstr(k), dstr(c["b"]), dstr(got)),
                                rep({"expected": "once an Emplace has returned the value never changes (nothing else writes the key)"})))
                    break
                cand = [c for c in oks if not any(d["ret"] < c["inv"] for d in oks if d is not c)]
                good = (got is None and not oks) or any(c["op"]["v"] == got for c in cand)
                if not good:
                    out.append(("impl:emplace-first:" + be,
                                "Emplaces of %r: key holds %r, not the value of a first successful Emplace"
                                % (dstr(k), dstr(got)), rep({"expected": "value of the first successful Emplace"})))
                    break
    return out


def acases(run):
    """Coq cases for one run."""
    st = run["stream"]
    calls = run["calls"]
    if any(c["e"] == "hang" for c in calls):
        return []     # reported by the oracle; there are no final contents to compare
    fin = truth(run)
    if st in ("lin", "linset", "forced"):
        init = "[" + "; ".join(uop(o) for o in run.get("init") or []) + "]"
        hs = "[" + "; ".join("mkH %d %d (%s) (%s)" % (c["inv"], c["ret"], uop(c["op"]), res(c)) for c in calls) + "]"
        final = "[" + "; ".join("(%s, %s)" % (lit(f["k"]), opt(f)) for f in fin) + "]"
        out = ["CLin %s %s %s" % (init, hs, final)]
        if run.get("hold"):
            hd = run["hold"]
            out.append("CBlocked %s %d %d %s" % ("true" if hd["writer"] else "false", hd["mid"], hd["out"], hs))
        return out
    if st == "counter":
        return ["CCounter %d %s" % (sum(1 for c in calls if c["op"]["k"] == f["k"] and c["e"] == "ok"), opt(f))
                for f in fin]
    if st == "append":
        oks = "[" + "; ".join(lit(c["op"]["v"]) for c in calls if c["e"] == "ok") + "]"
        return ["CAppend 8 %s %s" % (oks, lit(fin[0].get("b") or ""))]
    code = {"ok": 0, "exists": 1, "busy": 2}
    out = []
    if st == "appendfresh":
        res_ = []
        for f in fin:
            oks = "[" + "; ".join(lit(c["op"]["v"]) for c in calls if c["op"]["k"] == f["k"] and c["e"] == "ok") + "]"
            res_.append("CAppend 8 %s %s" % (oks, lit(f.get("b") or "")))
        return res_
    if st == "ownset":
        lasts = []
        for t in range(run["threads"]):
            mine = [c for c in calls if c["t"] == t]
            oks = [c for c in mine if c["e"] == "ok"]
            letter = bytes.fromhex(mine[0]["op"]["v"])[0]
            lasts.append("(%d, %s)" % (letter, "true" if oks and oks[-1]["op"]["op"][1:] == "add" else "false"))
        return ["COwnSet [%s] %s" % ("; ".join(lasts), opt(fin[0]))]
    if st == "removerace":
        rcode = {"ok": 0, "not_found": 1, "busy": 2}
        for f in fin:
            cs = [c for c in calls if c["op"]["k"] == f["k"]]
            at = "[" + "; ".join("%d" % rcode.get(c["e"], 3) for c in cs) + "]"
            init = next(o["v"] for o in run["init"] if o["k"] == f["k"])
            out.append("CRemoveRace %s %s %s" % (at, lit(init), opt(f)))
        return out
    for f in fin:
        cs = [c for c in calls if c["op"]["k"] == f["k"]]
        if st == "addrace":
            at = "[" + "; ".join("(%s, %d)" % (lit(c["op"]["v"]), code.get(c["e"], 3)) for c in cs) + "]"
            out.append("CAddRace %s %s" % (at, opt(f)))
        else:
            em = [c for c in cs if c["op"]["op"] == "emplace"]
            at = "[" + "; ".join("(%s, %s)" % (lit(c["op"]["v"]), "false" if c["e"] == "ok" else "true") for c in em) + "]"
            out.append("CEmplaceRace %s %s" % (at, opt(f)))
            rd = "[" + "; ".join(lit(c["b"]) for c in cs if c["op"]["op"] == "getbytes" and c["e"] == "ok") + "]"
            out.append("CReadsFinal %s %s" % (rd, opt(f)))
    return out


def run(ck):
    if ck.thorough:
        args = ["-lin", "1500", "-acc", "12", "-threads", "16", "-per", "120"]
        rargs = ["-lin", "150", "-acc", "2", "-threads", "8", "-per", "40"]
    else:
        args = ["-lin", "150", "-acc", "3", "-threads", "8", "-per", "60"]
        rargs = ["-lin", "30", "-acc", "1", "-threads", "6", "-per", "20"]
    ck.gen()
    built = ck.coq_make(MODEL + PROOFS, clean=ck.thorough)
    ck.obligations = ck.count_statements(STATEMENT_FILES)
    # a stale .vo of an earlier run must not count: any compile error in the cone spoils the proofs
    proofs_ok = all(built.get(x) for x in PROOFS) and not any(
        b.get("what") in ("proof obligation no longer checks", "coq build failed") for b in ck.broken)
    if proofs_ok and ck.audit("theories/Props/C06.v"):
        ck.discharged = list(ck.obligations)
    if ck.thorough and proofs_ok:
        ck.coqchk(["Verif.Props.C06"])

    # psqlKV.mutate cannot be run (no PostgreSQL here): its shape is read off the source
    try:
        gsrc = open(vlib.os.path.join(vlib.COQ, "theories", "Gen", "KvSql.v")).read()
        begin = re.search(r'gen_psql_mutate_begin : string := "(.*)"\.', gsrc).group(1)
        sel = re.search(r'gen_psql_mutate_select : string := "(.*)"\.', gsrc).group(1)
        locks = re.search(r"gen_psql_mutate_select_locks_row : bool := (\w+)\.", gsrc).group(1) == "true"
        ck.coverage["psql_mutate_shape"] = {"begin": begin, "select": sel, "select_locks_row": locks}
        if begin.endswith(".Begin()") and not locks:
            ck.violation(
                "shape:psql-mutate:read-committed-lost-update",
                "psqlKV.mutate begins a transaction with default options (PostgreSQL: READ COMMITTED), reads the "
                "value with a SELECT that takes no row lock and writes back a value computed from it: two "
                "concurrent Mutates of one key can both succeed and apply only one update",
                {"code_shape": {"begin": begin, "select": sel, "update": "update %s set v=$1 where k=$2"},
                 "schedule": ["T1: BEGIN; SELECT v -> 0", "T2: BEGIN; SELECT v -> 0",
                              "T1: f(0)=1; UPDATE v=1; COMMIT -> ok", "T2: f(0)=1; UPDATE v=1; COMMIT -> ok"],
                 "expected": "counter 2 after two successful increments", "model_result": "counter 1",
                 "basis": "PostgreSQL documentation 13.2.1 Read Committed Isolation Level; model and schedule: "
                          "Kv/AtomicPg.v pg_rc_lost_update (Props/C06.v C06_psql_read_committed_lost_update); "
                          "not executed: PostgreSQL cannot run in this environment",
                 "repair": "SELECT ... FOR UPDATE (C06_psql_for_update_serializable), or REPEATABLE READ / "
                           "SERIALIZABLE with a retry on serialization failure"})
    except (OSError, AttributeError) as e:
        ck.broken.append({"what": "psql mutate shape not found in Gen/KvSql.v", "detail": str(e)})

    runs = []
    binp = ck.build_harness("c06")
    if binp:
        rc, out, err = vlib.sh2([binp, "-seed", str(ck.seed)] + args, timeout=3000)
        if rc != 0:
            m = re.search(r"^(fatal error: .*|panic: .*)$", err, re.M)
            if m:
                # the code under test brought the process down: an observation
                ck.violation("impl:crash:" + m.group(1)[:60],
                             "the workload crashed the process: " + m.group(1),
                             {"stderr_head": err[:3000], "args": args})
            else:
                ck.broken.append({"what": "harness run failed", "detail": err[-1500:]})
        runs += [json.loads(l) for l in out.splitlines() if l.startswith("{")]
    # the same workloads under the race detector
    race = ck.build_harness("c06", race=True)
    ck.coverage["race_detector"] = "not built"
    if race:
        rc, out, err = vlib.sh2([race, "-seed", str(ck.seed + 1)] + rargs, timeout=3000)
        rr = [json.loads(l) for l in out.splitlines() if l.startswith("{")]
        for r in rr:
            r["stream_tag"] = "race"
        runs += rr
        ck.coverage["race_detector"] = {"runs": len(rr), "reports": err.count("WARNING: DATA RACE")}
        if "WARNING: DATA RACE" in err:
            m = re.search(r"WARNING: DATA RACE\n(?:.*\n){0,40}", err)
            mine = "shanhu.io/g/pisces" in err
            ck.violation("impl:data-race:" + ("pisces" if mine else "other"),
                         "the race detector reported a data race while the workloads ran",
                         {"report": (m.group(0) if m else err)[:4000], "args": rargs})
        elif rc != 0:
            ck.broken.append({"what": "harness run under -race failed", "detail": err[-1500:]})
    else:
        ck.broken = [b for b in ck.broken if "harness does not build" not in b.get("what", "")] \
            if binp else ck.broken
        ck.notes.append("race detector unavailable (CGO): workloads ran without -race")

    for i, r in enumerate(runs):
        r["i"] = i
        r["final"] = r.get("final") or []
        if r["backend"] == "sqlite":
            r["durable"] = r.get("durable") or []
    ncalls = 0
    for r in runs:
        ncalls += len(r["calls"])
        applied = [c for c in r["calls"] if c["e"] == "ok"]
        conc = any(a["inv"] < b["ret"] and b["inv"] < a["ret"] and a["t"] != b["t"]
                   for a in r["calls"][:200] for b in r["calls"][:200])
        ck.count("%s/%s%s" % (r["stream"], r["backend"], "/race" if r.get("stream_tag") else ""),
                 key=json.dumps([r["backend"], r["stream"], r.get("init"),
                                 [(c["t"], c["inv"], c["ret"], c["op"], c["e"], c.get("b")) for c in r["calls"]]]),
                 trivial=(r["stream"] != "forced") and (not applied or not conc))
        for key, what, replay in impl_oracle(r):
            ck.violation(key, what, replay)
    for r in runs[:2] + runs[10:11]:
        ck.sample({"stream": r["stream"], "backend": r["backend"], "threads": r["threads"],
                   "calls": [{"t": c["t"], "inv": c["inv"], "ret": c["ret"], "op": c["op"]["op"], "e": c["e"]}
                             for c in r["calls"][:8]]})
    # how often one call invoked the user's function (a backend that retries invokes it more than once;
    # by itself that is no violation of the statement - recorded)
    cbh = {}
    for r in runs:
        for c in r["calls"]:
            if c.get("cb"):
                k = "%s:%s:%d" % (r["backend"], c["op"]["op"], c["cb"])
                cbh[k] = cbh.get(k, 0) + 1
    ck.coverage["callback_invocations_per_call"] = cbh
    multi = sorted(k for k in cbh if not k.endswith(":1"))
    if multi:
        ck.notes.append("a Mutate invoked the user's function more than once in one call: " + ", ".join(multi))
    ck.coverage["runs"] = len(runs)
    ck.coverage["calls"] = ncalls
    hist = {}
    for r in runs:
        for c in r["calls"]:
            k = "%s:%s:%s" % (r["backend"], c["op"]["op"], c["e"])
            hist[k] = hist.get(k, 0) + 1
    ck.coverage["results_by_backend_op"] = hist

    model_ok = all(built.get(x) for x in MODEL)
    if runs and model_ok:
        cases = []
        owner = []
        for r in runs:
            for a in acases(r):
                cases.append(a)
                owner.append(r["i"])
        shard = 60
        jobs = [(s, cases[s:s + shard]) for s in range(0, len(cases), shard)]

        def ev(job):
            s, part = job
            txt = ("From Coq Require Import List NArith Bool.\n"
                   "From Verif Require Import Kv.KeyOrd Kv.Spec Kv.KvCorr Kv.AtomicCorr.\n"
                   "Import ListNotations.\nLocal Open Scope N_scope.\n"
                   "Definition cases : list acase := [\n  " + ";\n  ".join(part) + "\n].\n"
                   "Definition M := Eval vm_compute in amismatches cases.\nPrint M.\n")
            rc, out = ck.coq_eval("cases_%d" % (s // shard), txt)
            return s, (vlib.parse_coq_list_of_nat(out, "M") if rc == 0 else None), out

        mism = []
        with ThreadPoolExecutor(max_workers=8) as ex:
            for s, got, out in ex.map(ev, jobs):
                if got is None:
                    ck.broken.append({"what": "correspondence evaluation failed", "detail": out[-1500:]})
                    continue
                mism += [s + i for i in got]
        ck.coverage["correspondence_cases"] = len(cases)
        ck.coverage["correspondence_mismatches"] = len(mism)
        flagged = set()
        for v in ck.violations:
            flagged.add(json.dumps(v["replay"].get("calls"), sort_keys=True) if isinstance(v["replay"], dict) else "")
        seen = set()
        for ci in mism[:60]:
            r = runs[owner[ci]]
            if r["i"] in seen:
                continue
            seen.add(r["i"])
            ck.broken.append({"what": "correspondence: recorded history rejected by the Coq checker",
                              "stream": r["stream"], "backend": r["backend"], "run": r["i"]})
            if not impl_oracle(r) and proofs_ok:
                ck.violation("corr:%s:%s" % (r["stream"], r["backend"]),
                             "the recorded history is not accepted by the Coq decision procedure "
                             "(no sequential order of the successful calls explains it)",
                             {"backend": r["backend"], "stream": r["stream"], "init": r.get("init"),
                              "calls": r["calls"][:60], "final": truth(r), "coq_case": cases[ci][:3000]})
    elif runs and not model_ok:
        ck.broken.append({"what": "model does not compile; correspondence not evaluated"})

    return ck.finish(
        level="proof",
        checker_cmd="bin/check C06 (gen -> make -C coq theories/Props/C06.vo -> Print Assumptions audit -> "
                    "harness c06 (also -race) on mem+sqlite vs vm_compute of Kv/AtomicCorr.v)",
        trusted=["Coq 8.16.1 kernel + vm_compute",
                 "translator gen/kv.go (lock/map/entry/callback skeleton of memKV; statement, handle and "
                 "transaction events of the SQL backends; how mutate commits)",
                 "harness/cmd/c06 (global invocation/return stamps) + checks/c06.py",
                 "modelled not verified: sync.RWMutex, SQLite lock ladder and SQLITE_BUSY, database/sql pooling",
                 "psql_kv.go only through its generated statement table (PostgreSQL cannot run here)"],
        rule="forced schedules first (23 per backend: a Walk or a Mutate held inside its callback while every kind "
             "of writer and reader arrives; holders whose callback fails, cancels or panics; writers afterwards); then per backend: short mixed histories (2-3 goroutines x 1-3 calls of incr/append/add/emplace/"
             "replace/remove/get on 2 keys, all goroutines released by a spin barrier) decided by linearizability "
             "search; accounting runs with 2..16 goroutines (counters, unique-token appends; add, emplace and "
             "remove races released by a barrier per key, each Emplace followed by a read that must show the final "
             "value); set-valued Mutates through map and struct targets (forced, linset, ownset); "
             "appends to a fresh absent key per round, default DSN and busy-timeout DSN (appendfresh); "
             "every third run on the key-hashing kind of store; the same under the race detector. A run is non-trivial if some call succeeded and two calls of "
             "different goroutines overlapped in time; distinct = distinct recorded history",
        assumptions=["BUSY / decode / not-found / exists results mean 'not applied'",
                     "for sqlite the final contents are what is read after closing and reopening the database"])
