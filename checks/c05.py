"""C05 — pisces: every KV backend implements the same abstract map (DESIGN.md §7 C05)."""
import hashlib
import json
import os
from concurrent.futures import ThreadPoolExecutor

import code_tie
import vlib

META = {
    "category": "proof",
    "text": "Coq refinement theorems: for every finite history of KVOps calls (all keys, classes, values, mutate "
            "callbacks; offsets/limits < 2^63) the memory backend model and the SQL backend model running the "
            "statement sequences regenerated from sqlite3_kv.go / psql_kv.go return the results of a strictly "
            "key-sorted reference map and stay equal to it under 'sort rows by key'; the same through the KV "
            "wrapper (key mapping, JSON decoding, ErrCancel, ErrUnordered); every clause of the statement is a "
            "theorem about the reference map. Byte ownership: the memory backend over a heap of buffers, the "
            "caller overwriting between any two calls every buffer it passed in or was given - contents and results "
            "depend on the history of calls alone, for the copy points extracted from mem_entry.go. Several handles "
            "over the tables of one database (pisces.Tables) with the table life cycle refine per-table reference "
            "maps; calls leave other tables alone; a table used through several handles is one store; a walk releases "
            "its result set however it ends. Models are "
            "tied to the code by statement tables, the table scheme and the copy-point skeleton re-extracted from the "
            "Go source on every run and by differential histories on the real memory and sqlite backends "
            "evaluated inside Coq.",
    "note": "Trusted: Coq kernel + vm_compute; translator gen/kv.go (SQL text -> statement shapes, bound arguments, "
            "event order); harness c05 and the comparison in checks/c05.py; SQLite statement semantics, BINARY "
            "collation = bytewise order and the NOT NULL/UNIQUE scheme are modelled (Kv/Sql.v), not verified. "
            "PostgreSQL cannot run here: psql_kv.go is covered only by its generated statement table being equal "
            "to the deployed one. encoding/json validity and SHA-256 are parameters of the theorems (executable "
            "instances / tables from the real code in the correspondence). No axioms.",
    "technique": "Coq proof (simulation via sorted-list extensionality, induction over histories) + go/ast "
                 "translation of SQL statement tables + vm_compute correspondence on real mem/sqlite histories",
}

MODEL = ["theories/Kv/KvCorr.vo"]
PROOFS = ["theories/Props/C05.vo"]
STATEMENT_FILES = ["theories/Props/C05.v", "theories/Kv/KvGen.v"]
SEMANTIC_TIE = code_tie.functions("C05")   # Go bodies proved equal to the model (Props/C05Code.v)

ERR = {"not_found": "ENotFound", "exists": "EExists", "key_too_long": "EKeyTooLong", "decode": "EDecode",
       "user": "EUser", "unordered": "EUnordered", "cancel": "ECancel", "other": "EOther", "panic": "EPanic",
       "upanic": "EPanic",   # upanic: the user callback's own panic value came back out of the call
       "busy": "EBusy"}      # nothing else is in progress in these histories: never a legitimate answer
BAD = ("other", "panic", "hang", "partial-modified", "caller-memory-written", "busy")
LIFE = ("create", "createmissing", "destroy", "tcreate", "tcreatemissing", "tdestroy")

# long byte strings of a case: "hh*n" pieces joined by '+' in arguments, "@len:sha256" in observations
DIGESTS = {}


def bx(s):
    if not s:
        return b""
    if s[0] == "@":
        return DIGESTS.get(s, b"?")
    if "*" not in s and "+" not in s:
        return bytes.fromhex(s)
    out = bytearray()
    for piece in s.split("+"):
        if "*" in piece:
            hh, n = piece.split("*")
            out += bytes.fromhex(hh) * int(n)
        else:
            out += bytes.fromhex(piece)
    return bytes(out)


def enc(b):
    """The way the harness prints a byte string."""
    if len(b) > 20000:
        d = "@%d:%s" % (len(b), hashlib.sha256(b).hexdigest())
        DIGESTS[d] = b
        return d
    return b.hex()
STORES = [("mo", "StMem", "true"), ("mu", "StMem", "false"), ("so", "StSql", "true"), ("su", "StSql", "false")]
WALKS = ("walk", "walkclass", "walkpartial", "walkpartialclass")


class Pool:
    """Names long byte strings once per Coq file."""

    def __init__(self):
        self.names = {}
        self.defs = []

    def lit(self, bs):
        parts = []
        i = 0
        lit = []
        while i < len(bs):
            j = i
            while j < len(bs) and bs[j] == bs[i]:
                j += 1
            if j - i >= 12:
                if lit:
                    parts.append("[" + ";".join(map(str, lit)) + "]")
                    lit = []
                parts.append("rep %d %d" % (bs[i], j - i))
            else:
                lit += list(bs[i:j])
            i = j
        if lit or not parts:
            parts.append("[" + ";".join(map(str, lit)) + "]")
        if len(parts) == 1:
            return parts[0]
        return "(" + " ++ ".join(parts) + ")%list"

    def b(self, hexs):
        bs = bx(hexs or "")
        if len(bs) <= 6:
            return self.lit(bs)
        if bs not in self.names:
            name = "b%d" % len(self.names)
            self.names[bs] = name
            self.defs.append("Definition %s : bytes := %s." % (name, self.lit(bs)))
        return self.names[bs]


def op_to_coq(o, P):
    k, c, v = P.b(o.get("k")), P.b(o.get("c")), P.b(o.get("v"))
    t = o["op"]
    win = "%d %d %s" % (o.get("off", 0), o.get("n", 0), "true" if o.get("desc") else "false")
    if t == "add":
        return "UAdd %s %s" % (k, v)
    if t == "addclass":
        return "UAddClass %s %s %s" % (k, c, v)
    if t == "setclass":
        return "USetClass %s %s" % (k, c)
    if t == "remove":
        return "URemove %s" % k
    if t == "get":
        return "UGet %s" % k
    if t == "getbytes":
        return "UGetBytes %s" % k
    if t == "has":
        return "UHas %s" % k
    if t == "emplace":
        return "UEmplace %s %s" % (k, v)
    if t == "replace":
        return "UReplace %s %s" % (k, v)
    if t == "append":
        return "UAppendBytes %s %s" % (k, v)
    if t == "setbytes":
        return "USetBytes %s %s" % (k, v)
    if t == "set":
        return "USet %s %s" % (k, v)
    if t == "mutate":
        f = {"ok": "(mf_ok %s)" % v, "error": "mf_err", "cancel": "mf_cancel", "incr": "mf_incr",
             "seterr": "mf_err", "setcancel": "mf_cancel", "bad": "mf_bad", "panic": "mf_panic"}[o["m"]]
        return "UMutate %s %s" % (k, f)
    if t == "count":
        return "UCount"
    if t == "clear":
        return "UClear"
    d = "WAll"
    if o.get("stop") is not None:
        d = "(WStopAt %s %s)" % (P.b(o["stop"]), {"cancel": "ECancel", "user": "EUser", "panic": "EPanic"}[o["stoperr"]])
    if t == "walk":
        return "UWalk %s" % d
    if t == "walkclass":
        return "UWalkClass %s %s" % (c, d)
    if t == "walkpartial":
        return "UWalkPartial %s %s" % (win, d)
    if t == "walkpartialclass":
        return "UWalkPartialClass %s %s %s" % (c, win, d)
    raise ValueError(t)


def res_to_coq(o, r, P):
    e = r["e"]
    if o["op"] in WALKS and e not in ("unordered",) + BAD:
        items = "[" + "; ".join("(%s, %s)" % (P.b(c), P.b(v)) for c, v in r.get("w") or []) + "]"
        return "RWalk %s %s" % (items, "None" if e == "ok" else "(Some %s)" % ERR[e])
    if e != "ok":
        return "RErr %s" % ERR.get(e, "EOther")
    if "b" in r:
        return "RBytes %s" % P.b(r["b"])
    if "has" in r:
        return "RBool %s" % ("true" if r["has"] else "false")
    if "n" in r:
        return "RCount %d" % r["n"]
    return "RUnit"



# ---- reference map in Python: the implementation-only oracle reads the
# ---- statement directly off the observed results of each store

def _jint(s, i):
    if i < len(s) and s[i] == 0x30:
        return i + 1
    if i < len(s) and 0x31 <= s[i] <= 0x39:
        i += 1
        while i < len(s) and 0x30 <= s[i] <= 0x39:
            i += 1
        return i
    return None


def _jstr(s, i):
    while i < len(s):
        c = s[i]
        if c == 0x22:
            return i + 1
        if c < 0x20 or c == 0x5c:
            return None
        i += 1
    return None


def _jval(s, i, depth=0):
    if depth > 200 or i >= len(s):
        return None
    c = s[i]
    if c == 0x22:
        return _jstr(s, i + 1)
    for lit in (b"true", b"false", b"null"):
        if s[i:i + len(lit)] == lit:
            return i + len(lit)
    if c == 0x5b:
        if s[i + 1:i + 2] == b"]":
            return i + 2
        i += 1
        while True:
            i = _jval(s, i, depth + 1)
            if i is None or i >= len(s):
                return None
            if s[i] == 0x2c:
                i += 1
                continue
            return i + 1 if s[i] == 0x5d else None
    if c == 0x7b:
        if s[i + 1:i + 2] == b"}":
            return i + 2
        i += 1
        while True:
            if i >= len(s) or s[i] != 0x22:
                return None
            i = _jstr(s, i + 1)
            if i is None or i >= len(s) or s[i] != 0x3a:
                return None
            i = _jval(s, i + 1, depth + 1)
            if i is None or i >= len(s):
                return None
            if s[i] == 0x2c:
                i += 1
                continue
            return i + 1 if s[i] == 0x7d else None
    if c == 0x2d:
        return _jint(s, i + 1)
    return _jint(s, i)


def json_ok(b):
    return _jval(b, 0) == len(b)


def _incr(cur):
    if not cur or not cur.isdigit():
        return None
    ds = list(cur)
    i = len(ds) - 1
    while i >= 0:
        if ds[i] == 0x39:
            ds[i] = 0x30
            i -= 1
            continue
        ds[i] += 1
        return bytes(ds)
    return b"1" + bytes(ds)


class Ref:
    """The reference map of the statement: key -> (class, value)."""

    def __init__(self):
        self.m = {}

    def step(self, o, ordered, hk):
        """Expected projected result of one call; updates the map."""
        m = self.m
        t = o["op"]
        k = bx(o.get("k", ""))
        c = bx(o.get("c", ""))
        v = bx(o.get("v", ""))
        keyed = t not in ("count", "clear") + WALKS
        if keyed:
            if ordered:
                if len(k) > 255:
                    return {"e": "key_too_long"}
                mk = k
            else:
                mk = bytes.fromhex(hk[o.get("k", "")])
        cur = m.get(mk) if keyed else None
        r = {"e": "ok"}
        if t in ("add", "addclass"):
            if cur is not None:
                r = {"e": "exists"}
            else:
                m[mk] = (c if t == "addclass" else b"", v)
        elif t == "setclass":
            if cur is None:
                r = {"e": "not_found"}
            else:
                m[mk] = (c, cur[1])
        elif t == "remove":
            if cur is None:
                r = {"e": "not_found"}
            else:
                del m[mk]
        elif t == "getbytes":
            r = {"e": "not_found"} if cur is None else {"e": "ok", "b": enc(cur[1])}
        elif t == "get":
            if cur is None:
                r = {"e": "not_found"}
            elif not json_ok(cur[1]):
                r = {"e": "decode"}
            else:
                r = {"e": "ok", "b": enc(cur[1])}
        elif t == "has":
            r = {"e": "ok", "has": cur is not None}
        elif t == "emplace":
            if cur is None:
                m[mk] = (b"", v)
        elif t == "replace":
            m[mk] = (cur[0] if cur is not None else b"", v)
        elif t == "append":
            m[mk] = (cur[0], cur[1] + v) if cur is not None else (b"", v)
        elif t in ("setbytes", "set"):
            if cur is None:
                r = {"e": "not_found"}
            else:
                m[mk] = (cur[0], v)
        elif t == "mutate":
            # a Mutate that does not succeed changes nothing, whatever its function did to its argument
            if cur is None:
                r = {"e": "not_found"}
            elif not json_ok(cur[1]):
                r = {"e": "decode"}
            elif o["m"] == "ok":
                m[mk] = (cur[0], v)
            elif o["m"] in ("error", "seterr"):
                r = {"e": "user"}
            elif o["m"] == "bad":
                r = {"e": "decode"}
            elif o["m"] == "panic":
                r = {"e": "upanic"}
            elif o["m"] == "incr":
                nv = _incr(cur[1])
                if nv is None:
                    r = {"e": "user"}
                else:
                    m[mk] = (cur[0], nv)
        elif t == "count":
            r = {"e": "ok", "n": len(m)}
        elif t == "clear":
            m.clear()
        elif t in WALKS:
            if t in ("walkpartial", "walkpartialclass") and not ordered:
                return {"e": "unordered"}
            items = sorted(m.items())
            if t in ("walkclass", "walkpartialclass"):
                items = [it for it in items if it[1][0] == c]
            if t in ("walkpartial", "walkpartialclass"):
                if o.get("desc"):
                    items.reverse()
                off, n = o.get("off", 0), o.get("n", 0)
                items = items[off:off + n]
            w = []
            e = "ok"
            for _, (cl, val) in items:
                if not json_ok(val):
                    e = "decode"
                    break
                if o.get("stop") is not None and val == bx(o["stop"]):
                    e = {"cancel": "ok", "user": "user", "panic": "upanic"}[o["stoperr"]]
                    break
                w.append([enc(cl), enc(val)])
            r = {"e": e}
            if w:
                r["w"] = w
        return r


def reference(ops, ordered, hk):
    """Expected projected results of a history on one store."""
    ref = Ref()
    return [ref.step(o, ordered, hk) for o in ops]


def reference_multi(c, backend):
    """Expected results of a multi-handle history. Memory: one private map per
    handle, the life cycle calls do nothing. SQL: one map per table name; a
    table exists between a successful create and the next successful destroy,
    and every call on a table that does not exist reports an error (after the
    wrapper's own key / ordered checks)."""
    hs = c["handles"]
    mem = backend == "m"
    slots = {}
    slot_of = [(i if mem else h["t"]) for i, h in enumerate(hs)]
    if mem:
        slots = {i: Ref() for i in range(len(hs))}

    def one(slot, kind):
        if mem:
            return "ok"
        ex = slots.get(slot) is not None
        if kind == "create":
            if ex:
                return "other"
            slots[slot] = Ref()
        elif kind == "createmissing":
            if not ex:
                slots[slot] = Ref()
        else:
            if not ex:
                return "other"
            slots[slot] = None
        return "ok"

    out = []
    for o in c["ops"]:
        t = o["op"]
        if t in ("tcreate", "tcreatemissing", "tdestroy"):
            e = "ok" if hs else "other"
            for sl in slot_of:
                e = one(sl, t[1:])
                if e != "ok":
                    break
            out.append({"e": e})
            continue
        hh = o.get("h", 0)
        if t in LIFE:
            out.append({"e": one(slot_of[hh], t)})
            continue
        ref = slots.get(slot_of[hh])
        ordered = hs[hh]["ord"]
        if ref is None:
            keyed = t not in ("count", "clear") + WALKS
            if keyed and ordered and len(bx(o.get("k", ""))) > 255:
                out.append({"e": "key_too_long"})
            elif t in ("walkpartial", "walkpartialclass") and not ordered:
                out.append({"e": "unordered"})
            else:
                out.append({"e": "other"})
            continue
        out.append(ref.step(o, ordered, c["hk"]))
    return out


def norm(r):
    d = {k: v for k, v in r.items() if k != "msg"}
    if "w" in d:
        d["w"] = [list(x) for x in d["w"]]
        if not d["w"]:
            del d["w"]
    return d


def strip(rs):
    return [{k: v for k, v in r.items() if k != "msg"} for r in rs]


def history_key(ops):
    names = [o["op"] + (":" + o["m"] if o["op"] == "mutate" else "") + ("(nil)" if o.get("nil") else "")
             for o in ops]
    if len(names) > 5:
        names = names[:2] + ["..%d.." % (len(names) - 4)] + names[-2:]
    return ">".join(names)


def impl_oracle_multi(c):
    """Several handles of one table set: every backend against its reference
    (per-table maps, life cycle as documented), and nothing crashes or hangs."""
    out = []
    for b in ("m", "s"):
        exp = reference_multi(c, b)
        got = [norm(r) for r in c["obs"][b]]
        j = next((i for i in range(len(exp)) if norm(exp[i]) != got[i]), None)
        if j is not None:
            o = c["ops"][j]
            out.append(("impl:%s:%s!=reference:%s:%s/%s" % (c["stream"], {"m": "mem", "s": "sqlite"}[b], o["op"],
                                                           got[j]["e"], exp[j]["e"]),
                        "call %d (%s on handle %d) of a history over %d handles returned %s on %s; the per-table "
                        "reference maps say %s" % (j, o["op"], o.get("h", 0), len(c["handles"]), json.dumps(got[j]),
                                                   {"m": "memory", "s": "sqlite"}[b], json.dumps(exp[j])),
                        {"handles": c["handles"], "history": c["ops"][:j + 1], "backend": b,
                         "observed": c["obs"][b][:j + 1], "expected": exp[:j + 1]}))
        for i, r in enumerate(c["obs"][b]):
            if r["e"] in BAD[1:]:
                o = c["ops"][i]
                out.append(("impl:%s:%s:%s" % (r["e"], o["op"], b),
                            "%s on handle %d (%s) did not complete normally: %s" % (o["op"], o.get("h", 0), b, r.get("msg", r["e"])),
                            {"handles": c["handles"], "history": c["ops"][:i + 1], "backend": b,
                             "observed": c["obs"][b][:i + 1]}))
                break
    return out


def impl_oracle(c):
    """Implementation-only reading of the property on one history: list of
    (key, what, replay) for each way the real backends depart from it."""
    if c.get("multi"):
        return impl_oracle_multi(c)
    out = []
    obs = c["obs"]
    if c["stream"] == "overflow":
        # offsets / limits of 2^63 and more are outside the statement; these
        # observations are compared with the models only
        return out
    for a, b in (("mo", "so"), ("mu", "su")):
        if strip(obs[a]) != strip(obs[b]):
            ops = c.get("min") or c["ops"]
            o2 = c.get("min_obs") or obs
            j = next((i for i in range(len(ops)) if strip(o2[a])[i] != strip(o2[b])[i]), None)
            if j is None:
                # the shrunk history differs on the other store pair
                a2, b2 = ("mu", "su") if a == "mo" else ("mo", "so")
                j = next((i for i in range(len(ops)) if strip(o2[a2])[i] != strip(o2[b2])[i]), len(ops) - 1)
                a, b = a2, b2
            out.append(("impl:mem!=sqlite:" + history_key(ops),
                        "memory and sqlite backends disagree on call %d (%s) of the history: memory %s, sqlite %s"
                        % (j, ops[j]["op"], json.dumps(o2[a][j]), json.dumps(o2[b][j])),
                        {"history": ops, "first_differing_call": j,
                         "expected": "same results on every backend (those of the reference map)",
                         "observed": {s: o2[s] for s in ("mo", "mu", "so", "su")},
                         "full_history": c["ops"] if c.get("min") else None}))
            break
    if not out:
        # against the reference map (catches what both backends share: the KV wrapper)
        for s in ("mo", "mu", "so", "su"):
            exp = reference(c["ops"], s[1] == "o", c["hk"])
            got = [norm(r) for r in obs[s]]
            j = next((i for i in range(len(exp)) if norm(exp[i]) != got[i]), None)
            if j is not None:
                o = c["ops"][j]
                out.append(("impl:%s!=reference:%s%s:%s/%s" % ({"m": "mem", "s": "sqlite"}[s[0]], o["op"],
                                                              ":" + o["m"] if o["op"] == "mutate" else "",
                                                              got[j]["e"], exp[j]["e"]),
                            "call %d (%s) on store %s returned %s; the reference map says %s"
                            % (j, o["op"], s, json.dumps(got[j]), json.dumps(exp[j])),
                            {"history": c["ops"][:j + 1], "store": s, "observed": obs[s][:j + 1],
                             "expected": exp[:j + 1]}))
                break
    for s in ("mo", "mu", "so", "su"):
        for i, r in enumerate(obs[s]):
            if r["e"] in BAD:
                o = c["ops"][i]
                out.append(("impl:%s:%s%s:%s" % (r["e"], o["op"], "(nil)" if o.get("nil") else "", s[0]),
                            "%s on store %s returned an error the statement does not allow: %s"
                            % (o["op"], s, r.get("msg", r["e"])),
                            {"history": c["ops"][:i + 1], "store": s, "observed": obs[s][:i + 1],
                             "expected": "one of ok / exists / not_found / key_too_long / decode as the reference map says"}))
                break
    return out


def lop_to_coq(o, P):
    t = o["op"]
    kinds = {"create": "KCreate", "createmissing": "KMissing", "destroy": "KDestroy"}
    if t in ("tcreate", "tcreatemissing", "tdestroy"):
        return "LAll %s" % kinds[t[1:]]
    if t in kinds:
        return "LLife %d %s" % (o.get("h", 0), kinds[t])
    return "LOp %d (%s)" % (o.get("h", 0), op_to_coq(o, P))


def run(ck):
    nhist = 400 if not ck.thorough else 6000
    nmulti = 40 if not ck.thorough else 1500
    maxlen = 60
    ck.gen()
    built = ck.coq_make(MODEL + PROOFS, clean=ck.thorough)
    ck.obligations = ck.count_statements(STATEMENT_FILES)
    # a stale .vo of an earlier run must not count: any compile error in the cone spoils the proofs
    proofs_ok = all(built.get(x) for x in PROOFS) and not any(
        b.get("what") in ("proof obligation no longer checks", "coq build failed") for b in ck.broken)
    if proofs_ok and ck.audit("theories/Props/C05.v"):
        ck.discharged = list(ck.obligations)
    if ck.thorough and proofs_ok:
        ck.coqchk(["Verif.Props.C05"])
    code_tie.run(ck, "C05")

    binp = ck.build_harness("c05")
    cases = []
    if binp:
        rc, out, err = vlib.sh2([binp, "-seed", str(ck.seed), "-n", str(nhist), "-maxlen", str(maxlen),
                                 "-multi", str(nmulti)], timeout=3000)
        if rc != 0:
            ck.broken.append({"what": "harness run failed", "detail": err[-1500:]})
        for line in out.splitlines():
            if line.startswith("{"):
                cases.append(json.loads(line))
                if cases[-1].get("multi"):
                    cases[-1].setdefault("handles", [])

    # implementation-only oracle = the search for a failing input
    failing = set()
    opkinds = {}
    for c in cases:
        for s in sorted(c["obs"]):
            trivial = not any(r["e"] == "ok" for r in c["obs"][s])
            ck.count(c["stream"] + "/" + s, key=(s, json.dumps([c.get("handles"), c["ops"]], sort_keys=True)),
                     trivial=trivial)
        for o in c["ops"]:
            opkinds[o["op"]] = opkinds.get(o["op"], 0) + 1
            if o["op"] == "mutate":
                opkinds["mutate:" + o["m"]] = opkinds.get("mutate:" + o["m"], 0) + 1
            if o.get("stoperr"):
                opkinds["walk-stop:" + o["stoperr"]] = opkinds.get("walk-stop:" + o["stoperr"], 0) + 1
        for key, what, replay in impl_oracle(c):
            failing.add(c["i"])
            ck.violation(key, what, replay)
        if c.get("setup_err"):
            prev = cases[cases.index(c) - 1] if cases.index(c) > 0 else c
            ck.violation("impl:locked-after-history:" + c["setup_err"].split(":")[0],
                         "a table could not be dropped / created on the sqlite database after a history had ended "
                         "(%s): a call of that history left a lock or a transaction behind" % c["setup_err"],
                         {"history_before": prev["ops"], "this_history": c["ops"],
                          "expected": "when every call has returned nothing of it remains"})
    single = [c for c in cases if not c.get("multi")]
    for c in single[:1] + single[20:22]:
        ck.sample({"stream": c["stream"], "ops": c["ops"][:6], "obs_mem_ordered": c["obs"]["mo"][:6],
                   "obs_sqlite_ordered": c["obs"]["so"][:6]})
    for c in [c for c in cases if c.get("multi")][:1]:
        ck.sample({"stream": c["stream"], "handles": c["handles"], "ops": c["ops"][:8], "obs_sqlite": c["obs"]["s"][:8]})
    ck.coverage["op_kinds"] = opkinds
    ck.coverage["histories"] = len(cases)
    ck.coverage["calls"] = sum(len(c["ops"]) * len(c["obs"]) for c in cases)

    # correspondence: both models evaluated inside Coq on the same histories
    # (the huge stream, values of 1 MiB and more, is compared with the reference map only)
    model_ok = all(built.get(x) for x in MODEL)
    ccases = [c for c in cases if c["stream"] != "huge"]
    if ccases and model_ok:
        shard = 60
        jobs = []
        for s in range(0, len(ccases), shard):
            part = ccases[s:s + shard]
            P = Pool()
            lines = []
            for c in part:
                if c.get("multi"):
                    ops = "[" + "; ".join(lop_to_coq(o, P) for o in c["ops"]) + "]"
                    typ = "lop"
                else:
                    ops = "[" + "; ".join(op_to_coq(o, P) for o in c["ops"]) + "]"
                    typ = "uop"
                hk = "[" + "; ".join("(%s, %s)" % (P.b(k), P.b(h)) for k, h in sorted(c["hk"].items())) + "]"
                lines.append("Definition ops_%d : list %s := %s.\nDefinition hk_%d : list (key * key) := %s."
                             % (c["i"], typ, ops, c["i"], hk))
            cs = []
            owners = []
            for c in part:
                if c.get("multi"):
                    hs = c["handles"]
                    for b, st in (("m", "StMem"), ("s", "StSql")):
                        # memory: one private store per handle; SQL: one per table name
                        slot = [(i if b == "m" else h["t"]) for i, h in enumerate(hs)]
                        hl = "[" + "; ".join("(%d%%nat, %s)" % (sl, "true" if h["ord"] else "false")
                                             for sl, h in zip(slot, hs)) + "]"
                        exp = "[" + "; ".join(res_to_coq(o, r, P) for o, r in zip(c["ops"], c["obs"][b])) + "]"
                        cs.append("CMulti %s %s %d hk_%d ops_%d %s" % (st, hl, max(slot + [-1]) + 1, c["i"], c["i"], exp))
                        owners.append((c["i"], b))
                    continue
                for s_, st, ordd in STORES:
                    exp = "[" + "; ".join(res_to_coq(o, r, P) for o, r in zip(c["ops"], c["obs"][s_])) + "]"
                    cs.append("%s %s %s hk_%d ops_%d %s" % ("CModel" if c["stream"] == "overflow" else "CHist",
                                                           st, ordd, c["i"], c["i"], exp))
                    owners.append((c["i"], s_))
            txt = ("From Coq Require Import List NArith Bool.\n"
                   "From Verif Require Import Kv.KeyOrd Kv.Spec Kv.Tables Kv.KvCorr.\n"
                   "Import ListNotations.\nLocal Open Scope N_scope.\n"
                   + "\n".join(P.defs) + "\n" + "\n".join(lines) + "\n"
                   "Definition cases : list ccase := [\n  " + ";\n  ".join(cs) + "\n].\n"
                   "Definition M := Eval vm_compute in mismatches cases.\nPrint M.\n")
            jobs.append((s, txt, owners))

        def ev(job):
            s, txt, owners = job
            rc, out = ck.coq_eval("cases_%d" % (s // shard), txt)
            return owners, (vlib.parse_coq_list_of_nat(out, "M") if rc == 0 else None), out

        byi = {c["i"]: c for c in cases}
        mism = []
        ncorr = 0
        with ThreadPoolExecutor(max_workers=8) as ex:
            for owners, got, out in ex.map(ev, jobs):
                ncorr += len(owners)
                if got is None:
                    ck.broken.append({"what": "correspondence evaluation failed", "detail": out[-1500:]})
                    continue
                mism += [owners[i] for i in got]
        ck.coverage["correspondence_cases"] = ncorr
        ck.coverage["correspondence_mismatches"] = len(mism)
        by_stream = {}
        for ci, sname in mism:
            k = byi[ci]["stream"] + "/" + sname
            by_stream[k] = by_stream.get(k, 0) + 1
        ck.coverage["correspondence_mismatches_by_stream"] = by_stream
        for ci, sname in mism[:60]:
            c = byi[ci]
            ck.broken.append({"what": "correspondence: model and implementation disagree",
                              "stream": c["stream"], "history_index": ci, "store": sname})
            # with the proofs intact the model is the proved one: a history on which
            # the implementation departs from it is a failing input even if the
            # Python reference did not notice; with a broken obligation the model
            # describes other source, and only the oracle's findings count
            # (the overflow stream lies outside the statement: a mismatch there breaks the
            # exactness of the model, it is not a failing input of the property)
            if c["i"] not in failing and proofs_ok and c["stream"] != "overflow":
                ck.violation("corr:%s:%s" % (sname, c["stream"]),
                             "the %s backend does not behave as the proved model / reference map on this history"
                             % {"m": "memory", "s": "sqlite"}[sname[0]],
                             {"handles": c.get("handles"), "history": c["ops"], "store": sname,
                              "observed": c["obs"][sname],
                              "model": "Kv/KvCorr.v check_case evaluated by vm_compute disagrees"})
    elif cases and not model_ok:
        ck.broken.append({"what": "model does not compile; correspondence not evaluated"})

    return ck.finish(
        level="proof",
        checker_cmd="bin/check C05 (gen -> make -C coq theories/Props/C05.vo -> Print Assumptions audit -> "
                    "harness c05 on mem+sqlite vs vm_compute of Kv/KvCorr.v)",
        trusted=["Coq 8.16.1 kernel + vm_compute",
                 "translator gen/kv.go, gen/kvown.go (SQL text -> statement shape, Sprintf and bound arguments, event "
                 "order, KVOps binding, table scheme, copy points of mem_entry.go)",
                 "harness/cmd/c05 + checks/c05.py projection and comparison",
                 "modelled not verified: SQLite statement semantics, BINARY collation, NOT NULL / UNIQUE; Go map and sort; "
                 "bytes.Buffer (Write copies, NewBuffer adopts) and the sqlite driver copying bound and scanned []byte",
                 "psql_kv.go only through its generated statement table (PostgreSQL cannot run here)"],
        rule="fixed corpora first (known disagreements, window edges, classes/values/key limits, callback shapes, walks "
             "that end early followed by every writer, all "
             "ordered pairs of 13 writers x 20 readers, value sizes around 64 B / 256 B / 4 KiB / 64 KiB / 1 MiB / 3 MiB, "
             "multi-handle life cycle), then generated multi-handle histories (2-4 handles over 1-4 tables of one "
             "file or of memory table sets, life cycle calls sprinkled in) and "
             "seeded histories (splitmix64) of 1..60 calls over the 19 KV methods on a key pool with shared prefixes, "
             "random keys of 0..300 bytes, 4 classes, JSON scalars/objects/arrays, raw/empty/nil byte values, "
             "window edges {0,1,..,2^62,2^63-1}; every 8th history from a malformed stream; fixed corpus first; "
             "each history runs on mem-ordered, mem-unordered, sqlite-ordered, sqlite-unordered; a case (history x "
             "store) is non-trivial if some call returned ok; distinct = distinct (store, history)",
        assumptions=["keys are valid UTF-8 without NUL (bytewise order = collation order)",
                     "offsets and limits < 2^63",
                     "callbacks do not call back into the store they are called from",
                     "values passed to Add/Set/Emplace/Replace/Mutate are JSON that json.Marshal leaves unchanged"])
