"""C03 — sniproxy RPC: every call gets its own reply, at most once (DESIGN.md §7 C03)."""
import json

import rpc_common
import vlib
from vlib import coq_str

META = {
    "category": "proof",
    "text": "Coq theorems over an executable model of the RPC client transport (serve loop, reader, id counter, "
            "pending table) for every history of calls, send failures and reply frames in any order: each call "
            "completes at most once and no done() runs twice; a successful result is the decoded body of a later "
            "frame carrying the call's own id and type; short, unknown-id, duplicate, mistyped and truncated frames "
            "touch no other call and never end the transport; an answered call completes with exactly the peer's "
            "fields; a caller's context may end at any point of its call's life (before the exchange is queued, in the "
            "queue, taken, sent, pending, answered): the transport does not change, every other call gets what it "
            "got before, the caller gets the context's error, and the whole development applies to histories with "
            "such give-ups erased -- what the source does on ctx.Done() is read off transport.call / asyncCall "
            "(nothing but return; only the reader makes a pendingFetch; only serve writes an exchange's id), and an "
            "abandon that names its call by the id field before serve has assigned it is kept as a refuted "
            "counter-model (ids are compared in full: replies at every power-of-two and every small distance from an "
            "outstanding id, and calls answered after up to 1023 younger ones, are part of the histories). The model is tied to /repo on every run by statement skeletons regenerated from transport.go "
            "(ownership of the pending table, order of the type check, fetch-removes, error assignment before "
            "done) and by scripted adversarial-peer histories run against the real transport and replayed inside "
            "Coq. How the bytes of a reply are cut into reads does not matter: handleMessage makes no read of its own "
            "on the frame reader and every read of the decoder is a full read (read off the source), delivery with a "
            "full read of the header is a function of the frame's bytes alone, and a header fetched with a single "
            "Read is kept as a refuted counter-model; in the histories the peer sends replies in one websocket frame "
            "or in two fragments (first fragment 1, 5, 9, 10, 11 bytes) and the transport's connection delivers "
            "everything or at most 1, 7, 9, 10, 11, 64 bytes per Read.",
    "note": "Trusted: Coq kernel + vm_compute; translator gen/sni_rpc.go; harness/cmd/c03 + sniproxy/verif_rpc.go; "
            "goroutine interleavings are abstracted to the wire order of requests and replies (justified by the "
            "ownership obligations on the skeleton, exercised by concurrent callers); gorilla/websocket framing and "
            "Go channel semantics are modelled, not verified; id wrap-around (2^64 calls) is proved but cannot be run.",
    "technique": "Coq proof (trace induction, invariants) + go/ast skeleton translation + vm_compute correspondence "
                 "of scripted-peer histories",
}

MODEL = ["theories/Sni/RpcCorr.vo"]
PROOFS = ["theories/Props/C03.vo"]
STATEMENT_FILES = ["theories/Props/C03.v", "theories/Sni/RpcGen.v"]

CODE = {"alreadyshutdown": 1, "send": 2, "eof": 3, "toolong": 4, "lenoverflow": 5, "ctx": 6}


def segs(ss):
    parts = []
    for s in ss or []:
        if "rep" in s:
            parts.append("rep %d %d" % (s["rep"][0], s["rep"][1]))
        else:
            bs = bytes.fromhex(s.get("hex", ""))
            if bs:
                parts.append("[" + ";".join(str(b) for b in bs) + "]")
    if not parts:
        return "[]"
    return "(" + " ++ ".join(parts) + ")%list"


def value(f):
    k = f["k"]
    if k == "u64":
        return "VU64 %s" % f.get("u", "0")
    if k == "int":
        return "VInt (%s)" % f.get("i", "0")
    if k == "bytes":
        return "VBytes %s" % segs(f.get("b"))
    if k == "err":
        if f.get("nil"):
            return "VErr None"
        return "VErr (Some ((%s)%%Z, %s))" % (f.get("i", "0"), segs(f.get("b")))
    raise ValueError(k)


def values(fs):
    return "[" + "; ".join(value(f) for f in fs or []) + "]"


def event(e):
    t = e["e"]
    if t == "signal":
        return "CvSignal"
    if t == "refused":
        return "CvRefused %d" % e.get("k", 0)
    if t == "call":
        return "CvCall %d %d %s %d %s" % (e.get("k", 0), e.get("typ", 0), coq_str(e.get("resp", "")),
                                         e.get("cap", 0), "true" if e.get("sendok") else "false")
    if t == "reply":
        return "CvReply %s" % segs(e.get("frame"))
    if t == "text":
        return "CvText"
    if t == "readerr":
        return "CvReadErr"
    if t == "cancel":
        return "CvCancel %d" % e.get("k", 0)
    raise ValueError(t)


def obs(c):
    r = c["res"]
    if r == "ok":
        return "ObsOk %s" % values(c.get("fields"))
    if r == "none":
        return "ObsNone"
    return "ObsErr %d" % CODE.get(r, 9)


def to_coq(c):
    return "mkCase [%s] [%s] %s" % (
        "; ".join(event(e) for e in c["events"]),
        "; ".join("(%d%%N, %s)" % (x["k"], obs(x)) for x in c["callers"]),
        "true" if c.get("exited") else "false")


def frame_len(e):
    n = 0
    for s in e.get("frame") or []:
        n += s["rep"][1] if "rep" in s else len(s.get("hex", "")) // 2
    return n


def frame_head(e):
    """(id, typ, ec) of a reply event with a complete header, else None."""
    bs = b""
    for s in e.get("frame") or []:
        bs += bytes([s["rep"][0]]) * s["rep"][1] if "rep" in s else bytes.fromhex(s.get("hex", ""))
        if len(bs) >= 10:
            break
    if len(bs) < 10:
        return None
    return int.from_bytes(bs[:8], "little"), bs[8], bs[9]


def impl_oracle(c):
    """Reads the property directly off what the callers observed and what the
    scripted peer sent; no model involved.  Returns [(key, description)]."""
    out = []
    if c.get("crash"):
        what = "the process crashed: %s" % c["crash"][:200]
        if c["stream"] == "behind":
            what += " -- calls that had passed the shutdown check were queued behind the shutdown request"
        if c["stream"] == "page":
            what += " -- tunnel reads into windows of one scratch page"
        if c["stream"] == "stress":
            what += " -- 64 goroutines calling Hello in a loop while the transport was shut down under them"
        return [("crash", what)]
    if c.get("hang"):
        out.append(("hang", "no response within 10 s: %s" % c["hang"]))
    if c["stream"] == "page":
        for o in c.get("page", []):
            if o.get("bad"):
                out.append(("reply-wrote-outside-callers-buffer",
                            "tunnel reads into neighbouring windows of one scratch page (offset, len, cap) %s, replies "
                            "of %s bytes answered in the order %s: %s"
                            % (o["windows"], o["replies"], o["order"], o["bad"])))
                break
        return out
    if c["stream"] == "stress":
        for k, nk in sorted((c.get("stress") or {}).items()):
            if k not in ("ok", "alreadyshutdown", "eof"):
                out.append(("stress-unexpected-result", "%d calls racing the shutdown returned %s" % (nk, k)))
        return out
    for x in c["callers"]:
        if x.get("rejected_but_sent"):
            out.append(("rejected-call-sent",
                        "call %d was taken by serve after the shutdown request and completed with %s, but its "
                        "request reached the peer all the same" % (x["k"], x["res"])))
    frames = c.get("frames", [])
    events = c.get("events", [])
    call_ev = {}
    shutdown_ids = set()
    for i, e in enumerate(events):
        if e["e"] == "call":
            call_ev.setdefault(e.get("k", 0), i)
            if e.get("typ", 0) == 0 and e.get("sendok") and "id" in e:
                shutdown_ids.add(int(e["id"]))

    def fatal_before(idx):
        """an event before idx after which the transport is gone by design"""
        for e in events[:idx]:
            if e["e"] == "readerr" or (e["e"] == "call" and not e.get("sendok")):
                return True
            if e["e"] == "reply":
                h = frame_head(e)
                if h and (h[2] != 0 or (h[1] == 0 and h[0] in shutdown_ids)):
                    return True
        return False

    for x in c["callers"]:
        k = x["k"]
        if x["res"] == "ok":
            if not x.get("sent"):
                # the only thing that can have completed it is a reply the peer sent to some other call
                others = {y.get("id"): y["k"] for y in c["callers"] if y["k"] != k and y.get("id") is not None}
                src = [f for f in frames if f.get("whole") and f.get("id") in others]
                if src:
                    out.append(("foreign-reply",
                                "call %d returned success although its request never reached the peer: it was "
                                "completed by the reply the peer sent to call %d (id %s), a result that belongs "
                                "to another caller" % (k, others[src[0]["id"]], src[0]["id"])))
                else:
                    out.append(("success-without-reply",
                                "call %d returned success although its request never reached the peer "
                                "and no reply was sent for it" % k))
                continue
            mine = [f for f in frames if f.get("whole") and f["id"] == x.get("id") and f["typ"] == x["typ"]
                    and f["ec"] == 0 and (f.get("fields") or []) == (x.get("fields") or [])]
            if not mine:
                out.append(("foreign-reply",
                            "call %d (id %s) returned a result that the peer never sent for that id and type"
                            % (k, x.get("id"))))
        if x.get("cancelled") and x["res"] != "ctx":
            out.append(("gave-up-not-ctx",
                        "the context of call %d ended (%s) before the call had completed, but the call returned %s "
                        "instead of the context's error" % (k, x.get("when", "?"), x["res"])))
        if x.get("sent") and not x.get("cancelled"):
            # the first frame addressed to this call's id after its request
            first = None
            for f in frames:
                if f["at"] > call_ev.get(k, -1) and f["id"] == x.get("id") and f["kind"] not in ("text", "hint") \
                        and f.get("len", 0) >= 10 and f["typ"] != 7:
                    first = f
                    break
            if first is not None and first.get("whole") and first["typ"] == x["typ"] and first["ec"] == 0 \
                    and first["kind"] in ("good", "tail", "dup") and not fatal_before(first["at"]):
                if x["res"] != "ok" or (x.get("fields") or []) != (first.get("fields") or []):
                    out.append(("answered-not-completed",
                                "call %d was answered by the peer (frame %s, %d bytes, sent as %s; the transport's "
                                "connection delivers %s per Read) while the transport was up, but returned %s"
                                % (k, first["kind"], first.get("len", 0),
                                   {"": "one websocket frame"}.get(first.get("shape", ""),
                                       "two fragments, the first of %s bytes" % first.get("shape", "")[5:]),
                                   "at most %d bytes" % c["chunk"] if c.get("chunk") else "whatever has arrived",
                                   x["res"])))
    if (c.get("hang") or "").startswith("hint"):
        # the hang of a shutdown hint: name the call the hint took out of the pending table, if any
        for f in frames:
            if f["kind"] != "hint":
                continue
            for x in c["callers"]:
                if x.get("sent") and x.get("id") == f["id"] and x["res"] == "none" \
                        and call_ev.get(x["k"], 1 << 30) < f["at"]:
                    out.append(("hint-removed-pending-call",
                                "a shutdown hint carrying id %s arrived while call %d (id %s) was outstanding; "
                                "afterwards no shutdown request was sent (%s) and call %d never completed: the hint "
                                "was looked up in the pending table like a reply and removed the call"
                                % (f["id"], x["k"], x.get("id"), c["hang"], x["k"])))
    return out


def run(ck):
    n = 480 if not ck.thorough else 5000
    ck.gen()
    built = ck.coq_make(MODEL + PROOFS, clean=ck.thorough)
    ck.obligations = ck.count_statements(STATEMENT_FILES)
    proofs_ok = all(built.get(x) for x in PROOFS)
    if proofs_ok and ck.audit("theories/Props/C03.v"):
        ck.discharged = list(ck.obligations)
    if ck.thorough and proofs_ok:
        ck.coqchk(["Verif.Props.C03"])

    ck.log("built the proofs")
    binp = ck.build_harness("c03")
    cases = []
    replayed = rpc_common.replay_case(ck)
    if binp and replayed is not None:
        cases = rpc_common.run_script(ck, binp, [replayed])
        ck.log("replaying %s: %d case(s)" % (ck.replay, len(cases)))
    elif binp:
        # (on a defective tree every hang costs observation bounds: a stream is cut short after 4 hangs and
        #  no case is started after the wall-clock budget; what was observed until then is reported)
        budget = 150 if not ck.thorough else 900
        rc, out, err = vlib.sh2([binp, "-seed", str(ck.seed), "-n", str(n), "-stress", "1" if not ck.thorough else "10",
                                 "-budget", str(budget)], timeout=budget + 240)
        if rc != 0:
            ck.broken.append({"what": "harness run failed", "detail": err[-1500:]})
        for line in out.splitlines():
            if line.startswith("{"):
                cases.append(json.loads(line))
    ck.log("harness run done: %d cases" % len(cases))
    if binp and replayed is None:
        # histories under the race detector (ownership of the pending table and of a fetched exchange;
        # cancelled callers whose reply arrives late; forced early replies): child mode, so that the
        # detector's report on stderr is ours
        rb = ck.build_harness("c03", race=True)
        if rb:
            nr = 40 if not ck.thorough else 400
            rc, out, err = vlib.sh2([rb, "-seed", str(ck.seed + 1), "-n", str(nr), "-child",
                                     "-budget", "60" if not ck.thorough else "600"], timeout=900)
            races = err.count("WARNING: DATA RACE")
            ck.coverage["race_detector_runs"] = nr
            ck.coverage["data_races"] = races
            if races:
                ck.violation("impl:data-race", "the race detector reports a data race in the transport",
                             {"race_report": err[err.find("WARNING: DATA RACE"):][:3000]})

    ck.log("race-detector run done")
    kinds = {}
    shrunk = set()
    skipped = [c for c in cases if c.get("skipped")]
    cases = [c for c in cases if not c.get("skipped")]
    if skipped:
        by = {}
        for c in skipped:
            k = "%s: %s" % (c["stream"], {"hangs": "stream cut short after 4 hangs",
                                          "budget": "wall-clock budget of the harness run used up"}.get(c["skipped"], c["skipped"]))
            by[k] = by.get(k, 0) + 1
        ck.coverage["cases_not_run"] = by
        ck.log("cases not run: %s" % by)
    for c in cases:
        nframes = len(c.get("frames", []))
        trivial = len(c.get("callers", [])) <= 1 and nframes <= 1 and c["stream"] not in ("stress", "page")
        # (the key does not depend on the order in which concurrent callers reached the wire)
        sh = ck.coverage.setdefault("reply_transport_shapes", {})
        for f in c.get("frames", []):
            if f.get("kind") != "text":
                kk = "%s / reads of %s" % (f.get("shape") or "one frame", c.get("chunk") or "any size")
                sh[kk] = sh.get(kk, 0) + 1
        ck.count(c["stream"], key=json.dumps([c["steps"], c.get("chunk"), [(x["k"], x["res"]) for x in c["callers"]]],
                                             sort_keys=True), trivial=trivial)
        for f in c.get("frames", []):
            kinds[f["kind"]] = kinds.get(f["kind"], 0) + 1
        for key, why in impl_oracle(c):
            small = c
            if binp and replayed is None and key not in shrunk and len(shrunk) < 3 and key != "hang" \
                    and not c.get("hang"):        # (a history that hangs costs bounds at every trial)
                shrunk.add(key)
                small = rpc_common.shrink(ck, binp, c, key, impl_oracle)
            ck.violation("impl:%s" % key, why,
                         {"case": small, "original_case": c if small is not c else None,
                          "expected": "each call completes at most once with the reply sent for it; "
                                      "malformed frames touch no other call",
                          "observed": small["callers"]})
    ck.coverage["frame_kinds"] = kinds
    ck.coverage["callers_total"] = sum(len(c.get("callers", [])) for c in cases)
    for c in cases[:1] + cases[4:5] + cases[9:10]:      # (5..8 are the long fixed histories)
        ck.sample({"stream": c["stream"], "steps": c["steps"],
                   "callers": [(x["k"], x["kind"], x["res"]) for x in c["callers"]]})

    ck.log("oracle and shrinking done")
    model_ok = all(built.get(x) for x in MODEL)
    ck.coverage["stress_calls"] = {k: sum((c.get("stress") or {}).get(k, 0) for c in cases if c["stream"] == "stress")
                                   for k in ("ok", "alreadyshutdown", "eof")}
    ck.coverage["page_rounds"] = sum(len(c.get("page") or []) for c in cases if c["stream"] == "page")
    cases = [c for c in cases if c["stream"] not in ("stress", "page")]       # (no history to replay)
    if cases and model_ok:
        from concurrent.futures import ThreadPoolExecutor
        shard = 60 if not ck.thorough else 250
        mism = []
        hist = ck.coverage.setdefault("model_completions", {})
        names = {0: "ok", 11: "alreadyshutdown", 12: "send-failed", 13: "eof", 14: "toolong", 15: "lenoverflow"}

        nsh = max(1, (len(cases) + shard - 1) // shard)     # interleaved shards: the long histories spread out

        def eval_shard(k):
            part = cases[k::nsh]
            txt = ("From Coq Require Import List NArith ZArith String.\n"
                   "From Verif Require Import Lib.Bytes Sni.Wire Sni.WireCorr Sni.Rpc Sni.RpcCorr.\n"
                   "Import ListNotations.\nLocal Open Scope N_scope.\nLocal Open Scope string_scope.\n"
                   "Definition cases : list ccase := [\n  "
                   + ";\n  ".join(to_coq(c) for c in part) + "\n].\n"
                   "Definition R := Eval vm_compute in eval_all cases.\n"
                   "Definition M := Eval vm_compute in fst R.\nPrint M.\n"
                   "Definition T := Eval vm_compute in snd R.\nPrint T.\n")
            return k, ck.coq_eval("cases_%d" % k, txt)

        with ThreadPoolExecutor(max_workers=8) as ex:
            results = list(ex.map(eval_shard, range(nsh)))
        for k, (rc, out) in results:
            got = vlib.parse_coq_list_of_nat(out, "M") if rc == 0 else None
            if got is None:
                ck.broken.append({"what": "correspondence evaluation failed",
                                  "detail": "coqc rc=%s: %s" % (rc, (out or "").strip()[-1500:] or
                                                                "(coqc printed nothing: killed by the time-out or out of memory)")})
                break
            mism += [k + nsh * i for i in got]
            for t in vlib.parse_coq_list_of_nat(out, "T") or []:
                nm = names.get(t, str(t))
                hist[nm] = hist.get(nm, 0) + 1
        mism.sort()
        ck.coverage["correspondence_cases"] = len(cases)
        ck.coverage["correspondence_mismatches"] = len(mism)
        for i in mism[:50]:
            c = cases[i]
            ck.broken.append({"what": "correspondence: model and implementation disagree",
                              "stream": c["stream"], "case_index": i})
            if not impl_oracle(c):
                ck.violation("corr:%s" % c["stream"],
                             "the transport does not behave as the proved model on this history",
                             {"case": c, "model": "Sni/Rpc.v replayed by vm_compute disagrees",
                              "observed": c["callers"]})
    elif cases and not model_ok:
        ck.broken.append({"what": "model does not compile; correspondence not evaluated"})

    return ck.finish(
        level="proof",
        checker_cmd="bin/check C03 (gen -> make -C coq theories/Props/C03.vo -> Print Assumptions audit -> "
                    "harness c03 vs vm_compute of Sni/RpcCorr.v)",
        trusted=["Coq 8.16.1 kernel + vm_compute", "translator gen/sni_rpc.go (statement skeletons, pending refs)",
                 "harness/cmd/c03 + harness/rpcx + checks/c03.py", "sniproxy/verif_rpc.go shim",
                 "abstraction of goroutine interleavings to wire order (ownership obligations)",
                 "modelled not verified: gorilla/websocket framing, Go channels and select"],
        rule="fixed histories (send failure, mistyped frame, error byte; replies of the right type whose id lies "
             "2^1..2^63, 1..1100 or a random multiple beyond the highest outstanding id; one call left unanswered "
             "while 127 / 255 / 1023 younger ones are issued and answered, then the old and the newest answered in "
             "that order) then seeded histories over streams "
             "{perm, bad, mixed, sendfail, errbyte, shutdown, hint, peerclose, cancel, alias, held, ctx, behind}; behind = calls that have passed asyncCall's shutdown check "
             "are stopped before the enqueue (a context whose first Done() waits), the shutdown request is issued and "
             "reaches the peer, the calls are let into the queue BEHIND it: serve must complete each once with "
             "errAlreadyShutdown and not send it; plus a stress case: 64 goroutines calling Hello in a loop against a "
             "peer that answers everything while the transport is shut down, 150 rounds; plus a caller-memory case (page): "
             "2-4 tunnel reads outstanding on one channel whose buffers are neighbouring windows of one sentinel-filled "
             "scratch page, each a sub-slice with spare capacity reaching into what lies behind it; well-formed replies "
             "shorter than / as long as / longer than len (within and beyond cap) in any order; after every reply the "
             "whole page is compared with what it may hold, 24 rounds; ctx = older calls "
             "(mostly including the first call of the transport) left outstanding while contexts of younger calls end at "
             "every stage: calls issued with a finished context (about half still get queued and are sent), contexts "
             "ending in the queue (serve held at its schedule point after taking a call), between the request's write "
             "and the recording of the call (serve held after the send), while pending at the peer, after the answer; "
             "the peer may answer calls whose caller has gone; 1-32 concurrent callers of 7 "
             "call kinds, replies in random order and bursts, duplicates, unknown ids, wrong type, truncated and "
             "over-long bodies, short packets, text messages; a history is non-trivial if it has >1 caller or >1 "
             "frame; distinct = distinct (script, per-caller results)",
        assumptions=["a callExchange is enqueued once (asyncCall creates a fresh one per call)",
                     "the wire order of requests and replies is the order serve and the reader act in",
                     "an error byte != 0 and the reply to msgShutdown end the transport by design"])
