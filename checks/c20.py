"""C20 — aries: requests reach only the longest matching route and the permitted tier (DESIGN.md §7 C20)."""
import json
import os
import threading

import code_tie
import vlib

META = {
    "category": "proof",
    "text": "Coq theorems over executable models of aries/trie.go+mux.go (compressed trie: invariant preserved by add, "
            "add total, find = longest registered prefix for ANY list of insertions in ANY order; the Mux refines a "
            "trie-free scan), trie/ (segment trie = longest route prefix with a value), aries/router.go (Serve equals "
            "a brute-force reference: file only on a complete match without trailing slash, directory with the "
            "remainder, method check, index/default/miss; registration order irrelevant), service_set.go (user tier "
            "only with c.User != \"\", admin tier only if isAdmin, ServeInternal's three tiers only if admin) and "
            "host_mux.go (exact host only), the HTTP entry (the routed string is exactly URL.Path, segments canonical, "
            "slashes/escapes; ErrCode table; ServeInternal with identity-preserving handlers gates ALL tiers; nil "
            "handlers refused; scope register-then-serve backed by repository scans and a -race stream); the tier/auth "
            "skeletons, the router's conditions, NewContext's sources and the ErrCode switch are re-read from "
            "/repo by a go/ast translator on every run, and all models are tied to the code by differential runs "
            "through the public API with tagging handlers, evaluated inside Coq.",
    "note": "Trusted: Coq kernel + vm_compute; translator gen/aries.go; harness/cmd/c20 + checks/c20.py; "
            "aries/verif_export.go (read-only trie dump). Go maps and errcode are modelled, not verified; net/http's "
            "request parsing (ReadRequest, url.ParseRequestURI, unescape, Host/OPTIONS * handling) is a named trusted "
            "model (Entry.v http_parse) checked against a real http.Server on raw request lines; IsAdmin callbacks are "
            "modelled as pure; concurrent registration is out of scope (unsupported by the code); no axioms.",
    "technique": "Coq proof (nested induction over trie nodes, simulation against scan references) + go/ast "
                 "translation of statement skeletons + vm_compute correspondence + brute-force implementation oracle",
}

MODEL = ["theories/Aries/Corr.vo"]
PROOFS = ["theories/Props/C20.vo"]
STATEMENT_FILES = ["theories/Props/C20.v", "theories/Aries/AriesGen.v"]
SEMANTIC_TIE = code_tie.functions("C20")   # Go bodies proved equal to the model (Props/C20Code.v)

SLASH = "/"


# ----------------------------------------------------------------- Coq terms
def cs(s):
    """latin-1 lifted string -> list N"""
    return "[" + ";".join(str(ord(ch)) for ch in s) + "]"


def clist(items):
    return "[" + "; ".join(items) + "]"


def cbool(b):
    return "true" if b else "false"


def copt(v):
    return "None" if v is None or v < 0 else "(Some %d)" % v


def cdump(d):
    return "(Node %s %s %s %s)" % (cs(d["b"]), cs(d["p"]), cbool(d["h"]),
                                   clist("(%d, %s)" % (c["k"], cdump(c)) for c in d.get("c") or []))


def cz(z):
    return "(%d)%%Z" % z


MUXOP = {"prefix": "OpPrefix", "exact": "OpExact", "dir": "OpDir"}
ERR = {"nil": 0, "miss": 1, "e:miss": 1, "badmethod": 2, "panic": 3,
       "e:notfound": 4, "e:internal": 5, "e:unauth": 6, "e:invalid": 7, "e:plain": 8}
LEAF = {"": 0, "miss": 1, "notfound": 4, "internal": 5, "unauth": 6, "invalid": 7, "plain": 8}
STATUS = {"nil": 200, "miss": 404, "badmethod": 400, "panic": 0, "e:notfound": 404, "e:internal": 500,
          "e:unauth": 403, "e:invalid": 400, "e:plain": 500, "e:miss": 404}
EV = {"auth": 0, "resource": 1, "guest": 2, "user": 3, "admin": 4, "setup": 5, "signin": 6, "redirect": 7}
RES = {"nil": 0, "miss": 1, "needsignin": 2, "panic": 3}
ISADMIN = {"nil": 0, "true": 1, "false": 2, "lvl2": 3, "root": 4}
SIGNIN = {"nil": 0, "ok": 1, "err": 2}
BRES = {"miss": 0, "": 0, "nil": 1, "err": 2}


def res_code(r):
    if r in RES:
        return RES[r]
    if r.startswith("err"):
        return 100 + int(r[3:])
    return 7


def cbeh(b):
    st = "None"
    if b.get("set"):
        st = "(Some (%s, %s))" % (cs(b.get("u", "")), cz(b.get("l", 0)))
    return "(Beh %s %d %s)" % (cbool(b.get("nil", False)), BRES[b.get("res", "")], st)


def op_method(x):
    """Get/Post are MethodFile with the net/http method names."""
    return {"get": "GET", "post": "POST", "jsoncall": "POST", "call": "POST"}.get(x["op"], x.get("m", ""))


def hh(x):
    return "None" if x.get("nil") else "(Some %d)" % x["h"]


def rop(x):
    if x["op"] == "index":
        return "RIndex %s" % hh(x)
    if x["op"] == "default":
        return "RDefault %s" % hh(x)
    if x["op"] in ("dir", "dirsvc"):
        return "RDir %s %s" % (cs(x.get("p", "")), hh(x))
    if x["op"] == "call":
        return "RCall %s %s" % (cs(x.get("p", "")), hh(x))
    return "RFile %s %s %s" % (cs(op_method(x)), cs(x.get("p", "")), hh(x))


def seq_order(c):
    """The routers that are handed the context, in order.  tiers mode: Auth.Serve, Resource, Guest, then User
    only for a signed-in request and Admin only for an admin (the default predicate) - the gating itself is
    the subject of the tiers streams."""
    seq = c.get("seq") or []
    n = len(c["routers"])
    if c.get("mode") == "tiers":
        u, l = c.get("u0", ""), c.get("l0", 0)
        keep = [True, True, True, u != "", u != "" and l > 0]
        seq = [x for x, kp in zip(seq, keep) if kp]
    return [x for x in seq if 0 <= x < n]


def paths_of(c, sets):
    return sets["small"] if c.get("pset") == "small" else c.get("paths") or []


def queries_of(c, sets):
    return sets["segq"] if c.get("sqset") == "segq" else c.get("sq") or []


def to_coq(c, sets):
    o = c["obs"]
    k = c["kind"]
    if k == "mux":
        ops = clist("%s %s %d" % (MUXOP[x["op"]], cs(x["s"]), x["f"]) for x in c.get("ops") or [])
        paths = "P_small" if c.get("pset") == "small" else clist(cs(p) for p in c.get("paths") or [])
        return "CMux %s %s %s %s %s" % (ops, clist(str(x) for x in o.get("oks") or []), paths,
                                        clist(copt(t) for t in o.get("routes") or []), cdump(o["dump"]))
    if k == "trie":
        finds = clist("(%s, %s)" % (cs(f), cbool(b)) for f, b in zip(o.get("finds") or [], o.get("exacts") or []))
        return "CTrie %s %s %s %s %s" % (clist(cs(s) for s in c.get("adds") or []),
                                         clist(str(x) for x in o.get("oks") or []),
                                         clist(cs(p) for p in c.get("paths") or []), finds, cdump(o["dump"]))
    if k == "seg":
        adds = clist("(%s, %s)" % (clist(cs(s) for s in a["r"]), cs(a["v"])) for a in c.get("sadds") or [])
        qs = "Q_seg" if c.get("sqset") == "segq" else clist(clist(cs(s) for s in q) for q in c.get("sq") or [])
        finds = clist("(%d%%nat, %s, %s)" % (f["n"], cs(f["v"]), cs(f["x"])) for f in o.get("sfinds") or [])
        return "CSeg %s %s %s %s" % (adds, clist(str(x) for x in o.get("oks") or []), qs, finds)
    if k == "steps":
        on = c["on"]
        items = []
        le = []
        for st, so in zip(c.get("steps") or [], o.get("steps") or []):
            if st.get("mux"):
                x = st["mux"]
                items.append("MReg (%s %s %d) %d" % (MUXOP[x["op"]], cs(x["s"]), x["f"], so["ok"]))
            elif st.get("rop"):
                x = st["rop"]
                if x.get("e"):
                    le.append("(%d, %d)" % (x["h"], LEAF[x["e"]]))
                items.append("RReg (%s) %d" % (rop(x), so["ok"]))
            elif st.get("hset"):
                items.append("HSet %s %d" % (cs(st["hset"]["h"]), st["hset"]["f"]))
            elif on == "mux":
                items.append("MServe %s %s" % (cs(st.get("path", "")), copt(so["tag"])))
            elif on == "host":
                items.append("HServe %s %s" % (cs(st.get("path", "")), copt(so["tag"])))
            else:
                items.append("RServe %s %s (%s, %s, %d)" % (cs(st.get("path", "")), cs(st.get("method", "")),
                                                           cz(so["tag"]), cs(so.get("rel", "")),
                                                           ERR.get(so.get("err", ""), 99)))
        if on == "mux":
            return "CMuxSteps %s" % clist(items)
        if on == "host":
            return "CHostSteps %s" % clist(items)
        return "CRouterSteps %s %s" % (clist(le), clist(items))
    if k == "seq":
        defs = clist(clist(rop(x) for x in d["ops"]) for d in c["routers"])
        le = clist("(%d, %d)" % (x["h"], LEAF[x["e"]]) for d in c["routers"] for x in d["ops"] if x.get("e"))
        roks = clist(clist(str(x) for x in r) for r in o.get("roks") or [])
        reqs = clist("(%s, %s)" % (cs(q["path"]), cs(q["method"])) for q in c.get("reqs") or [])
        obs = clist("(%s, %d, %s)" % (clist("(%s, %s)" % (cz(h["tag"]), cs(h.get("rel", ""))) for h in q.get("hits") or []),
                                      ERR.get(q["err"], 99), cs(q.get("relafter", ""))) for q in o.get("seqs") or [])
        lw = clist("(%d, (%d, %s))" % (x["h"], x["w"], cs(x.get("ws", ""))) for d in c["routers"] for x in d["ops"] if x.get("w"))
        lsh = clist("(%d, %d%%nat)" % (x["h"], x["sh"]) for d in c["routers"] for x in d["ops"] if x.get("sh"))
        return "CSeq %s %s %s %s %s %s %s %s" % (defs, le, lw, lsh, roks, clist("%d%%nat" % i for i in seq_order(c)), reqs, obs)
    if k in ("router", "entry"):
        defs = clist(clist(rop(x) for x in d["ops"]) for d in c["routers"])
        le = clist("(%d, %d)" % (x["h"], LEAF[x["e"]]) for d in c["routers"] for x in d["ops"] if x.get("e"))
        roks = clist(clist(str(x) for x in r) for r in o.get("roks") or [])
        if k == "router":
            reqs = clist("(%s, %s)" % (cs(q["path"]), cs(q["method"])) for q in c.get("reqs") or [])
            obs = clist("(%s, %s, %d)" % (cz(q["tag"]), cs(q.get("rel", "")), ERR.get(q["err"], 99))
                        for q in o.get("reqs") or [])
            return "CRouter %s %s %s %s %s" % (defs, le, roks, reqs, obs)
        raws = clist("RawReq %s %s %s %s" % (cs(q["method"]), cs(q["target"]),
                                            "None" if q.get("host") is None else "(Some %s)" % cs(q["host"]),
                                            cbool(not q.get("p10")))
                     for q in c.get("raws") or [])
        obs = clist("(%d, %s, %s, %s, %s, %s, %s, %s)" % (
            e["status"], cbool(e["reached"]), cs(e["path"]), clist(cs(x) for x in e.get("segs") or []),
            cbool(e["isdir"]), cs(e["host"]), cz(e["tag"]), cs(e.get("rel", ""))) for e in o.get("entry") or [])
        return "CEntry %s %s %s %s %s %s" % (
            cbool(c.get("hmux", False)), clist("(%s, %d)" % (cs(h["h"]), h["f"]) for h in c.get("hsets") or []),
            defs, le, raws, obs)
    if k == "tiers":
        a = c["auth"]
        setup = "None"
        if a.get("sset"):
            setup = "(Some (%s, %s))" % (cs(a.get("su", "")), cz(a.get("sl", 0)))
        cfg = "(TCfg %s %s %s %s %s %d %d)" % (
            cbool(a.get("nil", False)), cbeh(a.get("serve") or {}), setup, cbool(a.get("serr", False)),
            clist(cbeh(b) for b in c["tiers"]), ISADMIN[c["isadmin"]], SIGNIN[c["signin"]])
        tr = clist("(%d, %s, %s)" % (EV[e["t"]], cs(e.get("u", "")) if e["t"] != "redirect" else "[]",
                                     cz(e.get("l", 0))) for e in o.get("trace") or [])
        return "CTiers %s (Ident %s %s %s) %s %s %d" % (
            cbool(c.get("internal", False)), cs(c.get("u0", "")), cz(c.get("l0", 0)), cs(c.get("path", "")),
            cfg, tr, res_code(o.get("res", "")))
    if k == "host":
        return "CHost %s %s %s" % (clist("(%s, %d)" % (cs(s["h"]), s["f"]) for s in c.get("hsets") or []),
                                   clist(cs(h) for h in c.get("hreqs") or []),
                                   clist(copt(t) for t in o.get("hosts") or []))
    raise ValueError(k)


# ------------------------------------------------- implementation-only oracle
def longest(regs, path):
    """brute force: the longest registered string that is a prefix of path"""
    best = None
    for w in regs:
        if w != "" and path.startswith(w) and (best is None or len(w) > len(best)):
            best = w
    return best


def oracle_mux(c, sets):
    o = c["obs"]
    exacts, prefixes = {}, {}
    for op, ok in zip(c.get("ops") or [], o.get("oks") or []):
        if ok == 2:
            return "registration panicked", {"op": op, "class": "register"}
        s, f = op["s"], op["f"]

        def ex(s):
            if s in exacts:
                return False
            exacts[s] = f
            return True

        def pre(s):
            if s == "" or s in prefixes:
                return False
            prefixes[s] = f
            return True
        if op["op"] == "prefix":
            want = pre(s)
        elif op["op"] == "exact":
            want = ex(s)
        else:
            if s == "/":
                want = ex(s) and pre(s)
            else:
                t = s[:-1] if s.endswith("/") else s
                want = ex(t) and pre(t + "/")
        if want != (ok == 1):
            return ("registration %s(%r) reported %s" % (op["op"], s, "success" if ok else "a duplicate"),
                    {"op": op, "class": "register"})
    for p, got in zip(paths_of(c, sets), o.get("routes") or []):
        if p in exacts:
            want = exacts[p]
        else:
            w = longest(prefixes, p)
            want = prefixes[w] if w is not None else -1
        if got != want:
            return ("path %r dispatched to handler %d, the exact/longest registered prefix is handler %d"
                    % (p, got, want), {"path": p, "got": got, "want": want})
    return None


def oracle_trie(c, sets):
    o = c["obs"]
    seen = set()
    for s, ok in zip(c.get("adds") or [], o.get("oks") or []):
        if ok == 2:
            return "add panicked", {"s": s, "class": "register"}
        want = s != "" and s not in seen
        seen.add(s)
        if want != (ok == 1):
            return "add(%r) returned %s" % (s, bool(ok)), {"s": s, "class": "register"}
    for p, f, b in zip(c.get("paths") or [], o.get("finds") or [], o.get("exacts") or []):
        w = longest(seen, p) or ""
        if f != w or b != (p == "" or p in seen):
            return ("find(%r) = (%r, %s), the longest registered prefix is %r" % (p, f, b, w),
                    {"path": p, "got": [f, b], "want": w})
    return None


def oracle_seg(c, sets):
    o = c["obs"]
    table = {}
    for a, ok in zip(c.get("sadds") or [], o.get("oks") or []):
        r, v = tuple(a["r"]), a["v"]
        if v == "":
            if ok != 2:
                return "Add with an empty value did not panic", {"add": a, "class": "register"}
            continue
        want = r not in table
        if want:
            table[r] = v
        if ok == 2 or want != (ok == 1):
            return "Add(%r) returned %s" % (list(r), ok), {"add": a, "class": "register"}
    for q, f in zip(queries_of(c, sets), o.get("sfinds") or []):
        q = tuple(q)
        n, v = 0, ""
        for k in range(len(q), -1, -1):
            if q[:k] in table:
                n, v = k, table[q[:k]]
                break
        x = table.get(q, "")
        if (f["n"], f["v"], f["x"]) != (n, v, x):
            return ("Find(%r) matched %d segments with value %r (exact %r); longest registered route prefix has "
                    "%d segments, value %r (exact %r)" % (list(q), f["n"], f["v"], f["x"], n, v, x),
                    {"query": list(q), "got": f, "want": [n, v, x]})
    return None


def segs(p):
    return [s for s in p.split("/") if s != ""]


def ref_routers(c, flags):
    """Reference registry: per router index/default/nodes keyed by the segment tuple; returns
    (routers, complaint)."""
    routers = []
    for d, fl in zip(c["routers"], flags):
        r = {"index": None, "default": None, "nodes": {}}
        routers.append(r)
        for op, ok in zip(d["ops"], fl):
            nil = bool(op.get("nil"))
            if op["op"] in ("index", "default"):
                r[op["op"]] = None if nil else (op["h"], op.get("e", ""))   # a nil Func means "none"
                want = 1
            else:
                rt = tuple(segs(op.get("p", "")))
                if nil:
                    want = 2                                   # "function is nil"
                elif not rt:
                    want = 2                                   # empty route
                elif rt in r["nodes"]:
                    want = 2 if op["op"] == "call" else 0      # Call = JSONCallMust panics when refused
                else:
                    want = 1
                    r["nodes"][rt] = (op["op"] in ("dir", "dirsvc"), op_method(op), (op["h"], op.get("e", "")))
            if want != ok:
                return routers, ("registering %r answered %d (1 ok, 0 duplicate, 2 panic), expected %d"
                                 % (op, ok, want), {"op": op, "class": "register"})
    return routers, None


def ref_serve(routers, i, rest, isdir, method, depth=0):
    """Brute force: index on an empty remainder; the longest registered segment-wise prefix; a directory
    gets the remainder, a file needs a complete match of a path without trailing slash; method; else
    default/miss.  Returns (leaf tag, rel seen by the leaf, result class)."""
    if depth > 8:
        return (-9, "", "loop")
    r = routers[i]

    def call(h, rest):
        tag, e = h
        if tag >= 1000 and tag - 1000 < len(routers):
            return ref_serve(routers, tag - 1000, rest, isdir, method, depth + 1)
        return (tag, "/".join(rest), ("miss" if e == "miss" else "e:" + e) if e else "nil")

    def notfound(rest):
        return call(r["default"], rest) if r["default"] is not None else (-1, "", "miss")
    if not rest:
        return call(r["index"], rest) if r["index"] is not None else notfound(rest)
    for k in range(len(rest), 0, -1):
        n = r["nodes"].get(tuple(rest[:k]))
        if n is None:
            continue
        isd, m, h = n
        rem = rest[k:]
        if isd or (not rem and not isdir):
            if m != "" and m != method:
                return (-1, "", "badmethod")
            return call(h, rem)
        return notfound(rem)
    return notfound(rest)


def oracle_router(c, sets):
    o = c["obs"]
    routers, bad = ref_routers(c, o.get("roks") or [])
    if bad:
        return bad
    for q, got in zip(c.get("reqs") or [], o.get("reqs") or []):
        p = q["path"]
        want = ref_serve(routers, 0, segs(p), p.endswith("/"), q["method"])
        g = (got["tag"], got.get("rel", ""), got["err"])
        if got.get("n", 0) > 1:
            return ("request %s %r ran %d handlers; a request is dispatched to one" % (q["method"], p, got["n"]),
                    {"req": q, "got": g, "want": want, "class": "dispatch"})
        if g != want:
            return ("request %s %r reached handler %d (rel %r, result %s); longest-route rule gives handler %d "
                    "(rel %r, result %s)" % ((q["method"], p) + g + want),
                    {"req": q, "got": g, "want": want, "class": "panic" if got["err"] == "panic" else "dispatch"})
    return None


def oracle_seq(c, sets):
    """One context handed to several routers in a row: every router routes the request's own path by the
    longest-route rule; the first that does not miss decides; the leaves that ran are exactly theirs."""
    o = c["obs"]
    routers, bad = ref_routers(c, o.get("roks") or [])
    if bad:
        return bad
    order = seq_order(c)
    for q, got in zip(c.get("reqs") or [], o.get("seqs") or []):
        p = q["path"]
        hits, final = [], "miss"
        for i in order:
            tag, rel, res = ref_serve(routers, i, segs(p), p.endswith("/"), q["method"])
            if tag >= 0:
                hits.append({"tag": tag, "rel": rel})
            if res != "miss":
                final = res
                break
        g = ([(h["tag"], h.get("rel", "")) for h in got.get("hits") or []], got["err"])
        w = ([(h["tag"], h["rel"]) for h in hits], final)
        if g != w:
            return ("request %s %r through routers %r on one context ran handlers %r (result %s); each router "
                    "routing the request's own path gives %r (result %s)" % (q["method"], p, order, g[0], g[1], w[0], w[1]),
                    {"req": q, "got": g, "want": w, "class": "dispatch"})
        if got["err"] == "miss" and got.get("relafter", "") != "/".join(segs(p)):
            return ("request %s %r: every router missed, and the context is left at %r instead of %r"
                    % (q["method"], p, got.get("relafter", ""), "/".join(segs(p))),
                    {"req": q, "got": got, "class": "context"})
    return None


def oracle_steps(c, sets):
    """One long-lived object: every request is answered from what is registered at that moment."""
    o = c["obs"]
    on = c["on"]
    exacts, prefixes, table = {}, {}, {}
    rt = {"index": None, "default": None, "nodes": {}}
    for n, (st, so) in enumerate(zip(c.get("steps") or [], o.get("steps") or [])):
        if st.get("mux"):
            op = st["mux"]
            x, f = op["s"], op["f"]

            def ex(x):
                if x in exacts:
                    return False
                exacts[x] = f
                return True

            def pre(x):
                if x == "" or x in prefixes:
                    return False
                prefixes[x] = f
                return True
            if op["op"] == "prefix":
                want = pre(x)
            elif op["op"] == "exact":
                want = ex(x)
            elif x == "/":
                want = ex(x) and pre(x)
            else:
                t = x[:-1] if x.endswith("/") else x
                want = ex(t) and pre(t + "/")
            if so["ok"] == 2 or want != (so["ok"] == 1):
                return "step %d: registration %r answered %d" % (n, op, so["ok"]), {"step": n, "class": "register"}
        elif st.get("rop"):
            op = st["rop"]
            sub = {"routers": [{"ops": [op]}]}
            nil = bool(op.get("nil"))
            if op["op"] in ("index", "default"):
                rt[op["op"]] = None if nil else (op["h"], op.get("e", ""))
                want = 1
            else:
                r = tuple(segs(op.get("p", "")))
                if nil or not r:
                    want = 2
                elif r in rt["nodes"]:
                    want = 0
                else:
                    want = 1
                    rt["nodes"][r] = (op["op"] in ("dir", "dirsvc"), op_method(op), (op["h"], op.get("e", "")))
            if want != so["ok"]:
                return "step %d: registering %r answered %d, expected %d" % (n, op, so["ok"], want), {"step": n, "class": "register"}
        elif st.get("hset"):
            table[st["hset"]["h"]] = st["hset"]["f"]
        else:
            p = st.get("path", "")
            if on == "mux":
                if p in exacts:
                    want = (exacts[p], "", "nil")
                else:
                    w = longest(prefixes, p)
                    want = (prefixes[w], "", "nil") if w is not None else (-1, "", "miss")
                g = (so["tag"], "", so.get("err", ""))
            elif on == "host":
                want = (table[p], "", "nil") if p in table else (-1, "", "miss")
                g = (so["tag"], "", so.get("err", ""))
            else:
                want = ref_serve([rt], 0, segs(p), p.endswith("/"), st.get("method", ""))
                g = (so["tag"], so.get("rel", ""), so.get("err", ""))
            if so.get("n", 0) > 1 or g != want:
                return ("step %d: request %r reached handler %d (%s, %d handlers ran); what is registered at that "
                        "moment gives handler %d (%s)" % (n, p, g[0], g[2], so.get("n", 0), want[0], want[2]),
                        {"step": n, "got": g, "want": want, "class": "dispatch"})
    return None


HEX = "0123456789abcdefABCDEF"


def py_unescape(t):
    """%XX -> byte (latin-1 lifted); None on a malformed escape."""
    out, i = [], 0
    while i < len(t):
        if t[i] == "%":
            if len(t) - i < 3 or t[i + 1] not in HEX or t[i + 2] not in HEX:
                return None
            out.append(chr(int(t[i + 1:i + 3], 16)))
            i += 3
        else:
            out.append(t[i])
            i += 1
    return "".join(out)


def py_parse(q):
    """What a Go http.Server hands to the handler for this request line: ("bad",) = 400 before the
    handler, ("options",) = the server's own 200 for OPTIONS *, ("req", URL.Path, Req.Host)."""
    t, m, host = q["target"], q["method"], q.get("host")
    connect = m == "CONNECT"
    if connect and not t.startswith("/"):
        t = "http://" + t
    if any(ord(ch) < 32 or ord(ch) == 127 for ch in t) or t == "":
        return ("bad",)
    if t == "*":
        uhost, path = "", "*"
    elif t.startswith("http://"):
        rest = t[len("http://"):].split("?", 1)[0]
        k = rest.find("/")
        uhost, raw = (rest, "") if k < 0 else (rest[:k], rest[k:])
        path = py_unescape(raw)
    elif t.startswith("/"):
        uhost, path = "", py_unescape(t.split("?", 1)[0])
    else:
        return ("bad",)
    if path is None:
        return ("bad",)
    if not q.get("p10") and not connect and host is None:
        return ("bad",)                                          # missing required Host header
    if m == "OPTIONS" and q["target"] == "*":
        return ("options",)
    return ("req", path, uhost if uhost else (host or ""))


def oracle_entry(c, sets):
    """The request line decides: routed string = unescaped URL.Path, segments = its non-empty pieces,
    host key = the Host header exactly as sent (or the absolute-form authority)."""
    o = c["obs"]
    routers, bad = ref_routers(c, o.get("roks") or [])
    if bad:
        return bad
    table = {}
    for h in c.get("hsets") or []:
        table[h["h"]] = h["f"]
    for q, got in zip(c.get("raws") or [], o.get("entry") or []):
        pr = py_parse(q)
        if pr[0] != "req":
            want = (400 if pr[0] == "bad" else 200, False)
            if (got["status"], got["reached"]) != want:
                return ("request line %r %r: status %d, handler reached: %s; expected status %d without reaching "
                        "the handler" % (q["method"], q["target"], got["status"], got["reached"], want[0]),
                        {"raw": q, "got": got, "class": "parse"})
            continue
        _, path, host = pr
        sg = segs(path)
        if c.get("hmux"):
            j = table.get(host)
            res = ref_serve(routers, j, sg, path.endswith("/"), q["method"]) if j is not None else (-1, "", "miss")
        else:
            res = ref_serve(routers, 0, sg, path.endswith("/"), q["method"])
        want = {"status": STATUS.get(res[2], -1), "reached": True, "path": path, "segs": sg,
                "isdir": path.endswith("/"), "host": host, "tag": res[0], "rel": res[1]}
        if got != want:
            diff = sorted(k for k in want if got.get(k) != want[k])
            cls = "host" if diff == ["status", "tag"] and c.get("hmux") and got["host"] == host and \
                (got["tag"] == -1) != (res[0] == -1) else ("path" if "path" in diff or "segs" in diff else "dispatch")
            return ("request line %s %r (Host %r): aries saw path %r segments %r host %r and reached handler %d "
                    "(rel %r, status %d); the request line gives path %r segments %r host %r, handler %d (rel %r, "
                    "status %d)" % (q["method"], q["target"], q.get("host"), got["path"], got["segs"], got["host"],
                                    got["tag"], got["rel"], got["status"], path, sg, host, res[0], res[1],
                                    want["status"]),
                    {"raw": q, "got": got, "want": want, "differs": diff, "class": cls})
    return None


def is_admin(c, u, l):
    k = c["isadmin"]
    if k == "nil":
        return u != "" and l > 0
    if k == "true":
        return True
    if k == "false":
        return False
    if k == "lvl2":
        return l >= 2
    return u == "root"


def oracle_tiers(c, sets):
    o = c["obs"]
    first_gated = True
    # handlers that do not modify the identity fields: then EVERY guest/user/admin invocation of
    # ServeInternal must see an admin, not only the first
    frame = not any(b.get("set") for b in c["tiers"][1:3])
    for e in o.get("trace") or []:
        t = e["t"]
        if not c.get("internal"):
            if t == "user" and e["u"] == "":
                return "the user tier ran for an anonymous request", {"event": e, "class": "user-tier-anonymous"}
            if t == "admin" and not is_admin(c, e["u"], e.get("l", 0)):
                return "the admin tier ran for a non-admin request", {"event": e, "class": "admin-tier-nonadmin"}
        elif t in ("guest", "user", "admin"):
            if (first_gated or frame) and not is_admin(c, e["u"], e.get("l", 0)):
                return ("ServeInternal ran the %s tier for a non-admin request" % t,
                        {"event": e, "class": "internal-%s-tier-nonadmin" % t})
            first_gated = False
    return None


def oracle_host(c, sets):
    o = c["obs"]
    table = {}
    for s in c.get("hsets") or []:
        table[s["h"]] = s["f"]
    for h, got in zip(c.get("hreqs") or [], o.get("hosts") or []):
        if got != table.get(h, -1):
            return "host %r served by service %d, bound is %d" % (h, got, table.get(h, -1)), {"host": h}
    return None


ORACLES = {"mux": oracle_mux, "trie": oracle_trie, "seg": oracle_seg, "router": oracle_router,
           "tiers": oracle_tiers, "host": oracle_host, "entry": oracle_entry, "seq": oracle_seq,
           "steps": oracle_steps}


def impl_oracle(c, sets):
    o = c.get("obs") or {}
    if o.get("crash"):
        return "the process died or hung: %s" % o["crash"][:200], {"class": "crash"}
    return ORACLES[c["kind"]](c, sets)


def tally(dist, c):
    """Measured distribution of what the implementation did (branch coverage of the decision functions)."""
    o = c.get("obs") or {}
    k = c["kind"]

    def bump(name):
        dist[name] = dist.get(name, 0) + 1
    if o.get("crash"):
        bump(k + ":crash")
    elif k == "mux":
        for t in o.get("routes") or []:
            bump("mux:route-hit" if t >= 0 else "mux:route-miss")
        for x in o.get("oks") or []:
            bump("mux:register-%s" % ("refused", "ok", "panic")[x])
    elif k == "trie":
        for b in o.get("exacts") or []:
            bump("trie:find-exact" if b else "trie:find-inexact")
    elif k == "seg":
        for f in o.get("sfinds") or []:
            bump("seg:find-hit" if f["v"] else "seg:find-none")
    elif k == "router":
        for q in o.get("reqs") or []:
            bump("router:%s%s" % (q["err"], "" if q["tag"] < 0 else "+handler"))
        for fl in o.get("roks") or []:
            for x in fl:
                bump("router:register-%s" % ("refused", "ok", "panic")[x])
    elif k == "tiers":
        bump("tiers:%s:%s" % ("internal" if c.get("internal") else "serve", o.get("res", "")[:3]))
        for e in o.get("trace") or []:
            bump("tiers:event-" + e["t"])
    elif k == "host":
        for t in o.get("hosts") or []:
            bump("host:hit" if t >= 0 else "host:miss")
    elif k == "entry":
        for e in o.get("entry") or []:
            bump("entry:status-%d%s" % (e["status"], "" if e["reached"] else "-by-net/http"))
    elif k == "seq":
        for q in o.get("seqs") or []:
            bump("seq:%s:%s:%d-leaves" % (c.get("mode"), q["err"][:6], len(q.get("hits") or [])))
    elif k == "steps":
        for st, so in zip(c.get("steps") or [], o.get("steps") or []):
            if st.get("serve"):
                bump("steps:%s:%s" % (c["on"], "hit" if so["tag"] >= 0 else so.get("err", "")[:6]))
            else:
                bump("steps:%s:register-%s" % (c["on"], ("refused", "ok", "panic")[so["ok"]]))


def case_key(c):
    return json.dumps({k: v for k, v in c.items() if k not in ("i", "obs", "stream")}, sort_keys=True)


def trivial(c):
    k = c["kind"]
    if k == "mux":
        return not c.get("ops")
    if k == "trie":
        return not c.get("adds")
    if k == "seg":
        return not c.get("sadds")
    if k in ("router", "entry", "seq"):
        return not any(d["ops"] for d in c["routers"])
    if k == "steps":
        return not any(not st.get("serve") for st in c.get("steps") or [])
    if k == "host":
        return not c.get("hsets")
    return False


def run_cases(binp, cs, timeout=300):
    """Run explicit cases through the harness (-run); returns them with fresh observations."""
    inp = "".join(json.dumps({k: v for k, v in c.items() if k != "obs"}) + "\n" for c in cs)
    rc, out = vlib.sh([binp, "-run"], input=inp, timeout=timeout)
    res = [json.loads(l) for l in out.splitlines() if l.startswith("{")]
    return res if len(res) == len(cs) else None


def explicit(c, sets):
    """The case with shared path sets spelled out."""
    c = json.loads(json.dumps(c))
    if c.get("pset") == "small":
        c["paths"] = list(sets["small"])
        del c["pset"]
    if c.get("sqset") == "segq":
        c["sq"] = [list(q) for q in sets["segq"]]
        del c["sqset"]
    return c


def variants(c):
    """Strictly smaller cases: one registration or one request less; a single request."""
    def drop(field, sub=None):
        seq = c.get(field) or []
        for i in range(len(seq)):
            d = json.loads(json.dumps(c))
            del d[field][i]
            yield d
    k = c["kind"]
    lists = {"mux": ("ops", "paths"), "trie": ("adds", "paths"), "seg": ("sadds", "sq"),
             "router": ("reqs",), "entry": ("raws",), "host": ("hsets", "hreqs"), "seq": ("reqs",),
             "steps": ("steps",)}.get(k, ())
    if k == "steps":
        yield from drop("steps")
        return
    for f in lists[1:] if len(lists) > 1 else lists:
        seq = c.get(f) or []
        if len(seq) > 1:                      # keep a single request
            for i in range(len(seq)):
                d = json.loads(json.dumps(c))
                d[f] = [seq[i]]
                yield d
    if lists and k not in ("router", "entry"):
        yield from drop(lists[0])
    if k == "entry":
        yield from drop("hsets")
    if k in ("router", "entry", "seq"):
        for ri, r in enumerate(c["routers"]):
            for oi in range(len(r["ops"])):
                d = json.loads(json.dumps(c))
                del d["routers"][ri]["ops"][oi]
                yield d


def shrink(binp, c, sets, rounds=60):
    """Greedy delta-debugging on the implementation side: keep the first smaller
    case on which the oracle still fails in the same way (same failure class)."""
    w0 = impl_oracle(c, sets)
    cls = w0[1].get("class", "dispatch") if w0 else None

    def fails(r):
        w = impl_oracle(r, sets)
        return bool(w) and w[1].get("class", "dispatch") == cls
    cur = explicit(c, sets)
    for _ in range(rounds):
        vs = list(variants(cur))
        if not vs:
            break
        res = run_cases(binp, vs)
        if res is None:
            break
        nxt = next((r for r in res if fails(r)), None)
        if nxt is None:
            break
        cur = nxt
    return cur


HEADER = ("From Coq Require Import List NArith ZArith.\n"
          "From Verif Require Import Aries.Str Aries.Radix Aries.SegTrie Aries.Router Aries.Tiers Aries.Entry Aries.CtxSeq Aries.Corr.\n"
          "Import ListNotations.\nLocal Open Scope N_scope.\n")


def replay(ck):
    """bin/check C20 --replay replays/C20/<hash>.json : re-run that one case."""
    rc = replay1(ck)
    if ck.saved_evidence is not None:          # a replay is not a run of the check: keep its evidence
        open(os.path.join(vlib.ROOT, "evidence", "C20.json"), "w").write(ck.saved_evidence)
    return rc


def replay1(ck):
    evp = os.path.join(vlib.ROOT, "evidence", "C20.json")
    ck.saved_evidence = open(evp).read() if os.path.exists(evp) else None
    body = json.load(open(ck.replay))
    c = body.get("case")
    binp = ck.build_harness("c20")
    if not c or not binp:
        ck.broken.append({"what": "replay file has no case or the harness does not build"})
        return ck.finish()
    sets = json.loads(vlib.sh2([binp, "-sets"], timeout=120)[1])
    res = run_cases(binp, [c])
    if not res:
        ck.violation("impl:%s:crash" % c["kind"], "the harness died on the replayed case", {"case": c})
        return ck.finish()
    c = res[0]
    ck.count(c.get("stream", "replay"), key=case_key(c))
    why = impl_oracle(c, sets)
    ck.log("replay: observed", json.dumps(c.get("obs"))[:600])
    ck.log("replay: oracle:", why[0] if why else "no failure")
    ck.gen()
    built = ck.coq_make(MODEL)
    if all(built.get(x) for x in MODEL):
        txt = (HEADER + "Definition P_small : list str := %s.\nDefinition Q_seg : list (list str) := %s.\n"
               % (clist(cs(p) for p in sets["small"]), clist(clist(cs(s) for s in q) for q in sets["segq"]))
               + "Definition cases : list ccase := [ %s ].\n" % to_coq(c, sets)
               + "Definition M := Eval vm_compute in mismatches cases.\nPrint M.\n")
        rc, out = ck.coq_eval("replay", txt)
        got = vlib.parse_coq_list_of_nat(out, "M") if rc == 0 else None
        ck.log("replay: model", "agrees with the implementation" if got == [] else "DISAGREES: %s" % (got if got is not None else out[-300:]))
        if got != []:
            ck.broken.append({"what": "correspondence: model and implementation disagree", "case": "replay"})
    if why:
        ck.violation(body.get("key", "impl:%s:replay" % c["kind"]), why[0],
                     {"case": {k: v for k, v in c.items() if k != "obs"}, "detail": why[1], "observed": c.get("obs")})
    return ck.finish(level="proof", rule="replay of one recorded case")


def run(ck):
    if ck.replay:
        return replay(ck)
    ck.gen()
    built = ck.coq_make(MODEL + PROOFS, clean=ck.thorough)
    ck.obligations = ck.count_statements(STATEMENT_FILES)
    proofs_ok = all(built.get(x) for x in PROOFS)
    if proofs_ok and ck.audit("theories/Props/C20.v"):
        ck.discharged = list(ck.obligations)
    if ck.thorough and proofs_ok:
        ck.coqchk(["Verif.Props.C20"])
    code_tie.run(ck, "C20")

    binp = ck.build_harness("c20")
    cases, sets = [], {"small": [], "segq": []}
    if binp:
        rc, out, err = vlib.sh2([binp, "-sets"], timeout=120)
        if rc == 0:
            sets = json.loads(out)
        # route / path depths on both sides of every integer the routing sources name (none today)
        import re
        depths = []
        try:
            m = re.search(r"gen_aries_int_literals : list N := \[([^\]]*)\]",
                          open(os.path.join(vlib.COQ, "theories", "Gen", "AriesSkel.v")).read())
            for x in (m.group(1).split(";") if m else []):
                if x.strip():
                    l = int(x.replace("%N", ""))
                    if l <= 200:
                        depths += [l - 1, l, l + 1, 2 * l + 1]
        except OSError:
            pass
        ck.coverage["deep_extra_depths"] = sorted(set(depths))
        rc, out, err = vlib.sh2([binp, "-seed", str(ck.seed), "-tier", ck.tier, "-depths", ",".join(map(str, sorted(set(depths))))], timeout=3000)
        if rc != 0:
            ck.broken.append({"what": "harness run failed", "detail": err[-1500:]})
        for line in out.splitlines():
            if line.startswith("{"):
                cases.append(json.loads(line))

    # scope "register everything, then serve": concurrent SERVING on a finished structure must be
    # read-only; run a slice of the cases from 8 goroutines under the race detector
    conc_n = 25 if not ck.thorough else 400
    racebin = ck.build_harness("c20", race=True)
    if racebin:
        rc, out, err = vlib.sh2([racebin, "-seed", str(ck.seed), "-tier", "quick", "-conc", str(conc_n)], timeout=1500)
        nconc = 0
        for line in out.splitlines():
            if not line.startswith("{"):
                continue
            r = json.loads(line)
            nconc += 1
            ck.count("conc", key=("conc", r["i"]))
            if not r.get("same"):
                ck.violation("impl:conc:different-answer",
                             "a request was answered differently while other requests were being served",
                             {"case_index": r["i"], "kind": r["kind"], "stream": r.get("from")})
        if "DATA RACE" in err or "concurrent map" in err or rc == 66:
            m = err[err.find("WARNING: DATA RACE"):][:1800]
            ck.violation("impl:conc:data-race",
                         "serving requests concurrently on a finished Mux/Router/HostMux/Trie is a data race",
                         {"race_report": m, "cmd": "c20-race -seed %d -conc %d" % (ck.seed, conc_n)})
        elif rc != 0:
            ck.broken.append({"what": "race harness run failed", "detail": err[-1500:]})
        ck.coverage["concurrent_serving_cases"] = nconc

    # implementation-only oracle: the property read off the observed dispatch
    bad = set()
    shrunk_keys = set()
    outcomes = {}
    for i, c in enumerate(cases):
        ck.count(c["stream"], key=case_key(c), trivial=trivial(c))
        tally(outcomes, c)
        why = impl_oracle(c, sets)
        if why:
            bad.add(i)
            what, detail = why
            key = "impl:%s:%s" % (c["kind"], detail.get("class", "dispatch"))
            body = {"case": {k: v for k, v in c.items() if k != "obs"}, "detail": detail,
                    "expected": "dispatch to the exact / longest registered prefix and the permitted tier",
                    "observed": c.get("obs")}
            if key not in shrunk_keys and not (c.get("obs") or {}).get("crash"):
                shrunk_keys.add(key)               # minimise the first failing case of each kind
                m = shrink(binp, c, sets)
                mw = impl_oracle(m, sets)
                if mw:
                    body = {"case": {k: v for k, v in m.items() if k != "obs"}, "detail": mw[1],
                            "minimised_from_case": c["i"], "expected": body["expected"], "observed": m.get("obs")}
                    what = mw[0]
            ck.violation(key, what, body)
    ck.coverage["outcome_distribution"] = outcomes
    seen_streams = set()
    for c in cases:
        if c["stream"] not in seen_streams and len(json.dumps(c)) < 3000:
            seen_streams.add(c["stream"])
            ck.sample({k: c[k] for k in c if k != "i"}, limit=8)

    # correspondence: the models evaluated inside Coq on the same inputs.
    # tiers-all is exhaustive for the oracle; a deterministic 1-in-k sample of it goes through Coq.
    model_ok = all(built.get(x) for x in MODEL)
    k_tiers = 1 if ck.thorough else 6
    sel = [i for i, c in enumerate(cases)
           if not (c.get("obs") or {}).get("crash")
           and (c["stream"] != "tiers-all" or i in bad or (i + ck.seed) % k_tiers == 0)]
    if cases and model_ok:
        shard = 700
        shards = [sel[s:s + shard] for s in range(0, len(sel), shard)]
        results = [None] * len(shards)
        defs = ("Definition P_small : list str := %s.\nDefinition Q_seg : list (list str) := %s.\n"
                % (clist(cs(p) for p in sets["small"]), clist(clist(cs(s) for s in q) for q in sets["segq"])))

        def work(n):
            part = shards[n]
            txt = (HEADER + defs + "Definition cases : list ccase := [\n  "
                   + ";\n  ".join(to_coq(cases[i], sets) for i in part) + "\n].\n"
                   "Definition M := Eval vm_compute in mismatches cases.\nPrint M.\n")
            rc, out = ck.coq_eval("cases_%d" % n, txt, timeout=1800)
            results[n] = (rc, out)
        sem = threading.Semaphore(8)

        def guarded(n):
            with sem:
                work(n)
        ths = [threading.Thread(target=guarded, args=(n,)) for n in range(len(shards))]
        for t in ths:
            t.start()
        for t in ths:
            t.join()
        mism = []
        for n, (rc, out) in enumerate(results):
            got = vlib.parse_coq_list_of_nat(out, "M") if rc == 0 else None
            if got is None:
                ck.broken.append({"what": "correspondence evaluation failed", "shard": n, "detail": out[-1500:]})
                continue
            mism += [shards[n][j] for j in got]
        ck.coverage["correspondence_cases"] = len(sel)
        ck.coverage["correspondence_mismatches"] = len(mism)
        for i in mism[:50]:
            c = cases[i]
            ck.broken.append({"what": "correspondence: model and implementation disagree",
                              "stream": c["stream"], "case_index": i})
            if i not in bad:
                ck.violation("corr:%s:%s" % (c["stream"], c["kind"]),
                             "implementation output differs from the proved model of the deployed routing code",
                             {"case": {k: v for k, v in c.items() if k != "obs"},
                              "model": "Aries/Corr.v check_case evaluated by vm_compute disagrees",
                              "observed": c.get("obs")})
    elif cases and not model_ok:
        ck.broken.append({"what": "model does not compile; correspondence not evaluated"})

    return ck.finish(
        level="proof",
        checker_cmd="bin/check C20 (gen -> make -C coq theories/Props/C20.vo -> Print Assumptions audit"
                    " -> harness c20 vs vm_compute of Aries/Corr.v + brute-force oracle)",
        trusted=["Coq 8.16.1 kernel + vm_compute",
                 "translator gen/aries.go (Serve/ServeInternal/serveAuth/isAdmin skeletons, host key, router conditions)",
                 "harness/cmd/c20 + checks/c20.py comparison and brute-force oracle",
                 "aries/verif_export.go trie dump",
                 "modelled not verified: Go maps, net/http request/URL construction, errcode classification"],
        rule="corpus first; every ordered set of <=2 prefixes over {a,b,/}^(1..3) (all 3-sets in thorough, a seeded "
             "1/40 sample in quick) x all 121 paths of length <=4; seeded random mux/trie op sequences (arbitrary "
             "bytes, duplicates, empty strings); segment-trie route sets over {a,b}^(0..3) x all queries of depth "
             "<=4 plus malformed segments; random router sets (file/dir/method/index/default, nested routers) x "
             "paths with trailing/repeated slashes; all (identity, IsAdmin, auth, tier nil/miss/hit, path, entry) "
             "combinations; host sets; raw request lines (escapes, slashes, *, CONNECT, absolute-form, Host variants, "
             "HTTP/1.0) over TCP to a real http.Server in front of HostMux+Routers with failing leaves; nil handlers and "
             "JSONCall/Call wrappers; 200 finished structures served from 8 goroutines under -race. "
             "distinct = distinct case inputs; trivial = no registration at all",
        assumptions=["registration is finished before serving starts (the code has no lock; checked: no serving method "
                     "writes, no registration from a handler or goroutine anywhere in the repository)",
                     "IsAdmin callbacks and handlers are functions of (User, UserLevel, Path)",
                     "Go map lookup/store semantics", "a tier handler returning exactly aries.Miss means miss"])
