"""C15 — sniproxy: one live endpoint per name; newest wins; callbacks pair up (DESIGN.md §7 C15)."""
import json

import rpc_common
import vlib

META = {
    "category": "proof",
    "text": "Coq theorems over an interleaving model of the endpoint registry (upgrade / OnConnect / serve end / "
            "OnDisconnect / unmap / Close per connection, any number of connections, every interleaving): a name "
            "resolves only to the most recently connected connection and only while it has not ended; while the "
            "newest has not ended the name resolves to it; unmap by any other connection never removes it; an ended "
            "connection is never registered; each connection's notifications are exactly [connect n s; disconnect "
            "n s]. The model's atomic steps are tied to /repo on every run by the regenerated skeleton of "
            "server.go (every access to Server.endpoints under mu, compare-before-delete, order of calls and "
            "defers in ServeBackName) and by forced schedules driven through a real Server with real endpoints and "
            "replayed inside Coq. The kick path is modelled on top (silent peers, server-side websocket closes, the "
            "kicker goroutine with its graceful part and its forced close; whether the kicker closes the websocket is "
            "read off upgrade's goroutine and endpointClient's methods): every history's registry part is a registry "
            "history, a kicked connection that is still serving can end after at most two kicker steps whatever its "
            "peer does, and a kick without the forced close is kept as a refuted counter-model (the kicked connection "
            "of a silent peer keeps its connect notification and never gets the disconnect); a stream with raw "
            "websocket peers that never answer exercises it. The registry is written by upgrade and by the connection's "
            "own deferred unmap only (every writer of the endpoints map and every caller of unmap is read off the "
            "source); an unmap from the front path is kept as a refuted counter-model and a stream of front "
            "connections whose dial a live endpoint refuses exercises it. The registry key is the name itself (the key "
            "expression of every access of the endpoints map is read off the source and must be the name parameter; "
            "names that differ are independent; a folded key used by some operations only is refuted). The "
            "registration bracket: no statement stands between ServeBackName's call of upgrade and the defer that "
            "calls unmap (read off the source), every way out of such a body on which the client was registered "
            "runs the unmap, and an early return between the two is kept as a refuted counter-model; a stream with "
            "a SideToken callback that answers ok or an error over time and endpoints with and without Siding reads "
            "the registry and makes a front connection after every connection, also one the server refused. "
            "Notifications under every callback configuration (both, only OnConnect, only OnDisconnect, neither): one "
            "disconnect per ended connection iff OnDisconnect is configured, with session 0 without OnConnect; the "
            "guard of the deferred disconnect call is read off the source, a defer nested in the OnConnect condition "
            "is kept as a refuted counter-model, and that stream runs under all four configurations.",
    "note": "Trusted: Coq kernel + vm_compute; translator gen/sni_rpc.go; harness/cmd/c15 + sniproxy/verif_rpc.go + "
            "verif_point.go (one schedule point after ep.serve()); sync.Mutex, the websocket upgrade and the "
            "background old.Close() are single abstract steps; the reason a serve loop ends is nondeterministic in "
            "the model.",
    "technique": "Coq proof (inductive invariant over reachable states of an interleaving semantics) + go/ast "
                 "skeleton translation + forced-schedule correspondence evaluated with vm_compute",
}

MODEL = ["theories/Sni/RegistryCorr.vo"]
PROOFS = ["theories/Props/C15.vo"]
STATEMENT_FILES = ["theories/Props/C15.v", "theories/Sni/RegistryGen.v"]


def optN(x):
    return "None" if x < 0 else "(Some %d%%N)" % (x + 1)


def ev(e):
    a, t = e["a"], e.get("t", 0) + 1
    if a == "upgrade":
        return "CAct (AUpgrade %d %d)" % (t, e.get("n", 0) + 1)
    if a == "connect":
        return "CAct (AConnect %d (%d)%%Z)" % (t, e.get("s", 0))
    if a == "serveend":
        return "CAct (AServeEnd %d)" % t
    if a == "disconnect":
        return "CAct (ADisconnect %d)" % t
    if a == "unmap":
        return "CAct (AUnmap %d)" % t
    if a == "close":
        return "CAct (AClose %d)" % t
    if a == "upgradefail":
        return "CAct (AUpgradeFail %d %d)" % (t, e.get("n", 0) + 1)
    if a == "crash":
        return "CAct (ACrash %d)" % t
    if a == "probe":
        return "CProbe %d %s" % (e.get("n", 0) + 1, "true" if e.get("seen", -1) > 0 else "false")
    if a == "look":
        return "CLook %d %s" % (e.get("n", 0) + 1, optN(e.get("seen", -1)))
    raise ValueError(a)


def note(x):
    return "(%s, %d%%N, (%d)%%Z)" % ("true" if x["k"] == "connect" else "false", x["n"] + 1, x["s"])


def to_coq(c):
    return "mkCase [%s] [%s]" % ("; ".join(ev(e) for e in c["events"]), "; ".join(note(x) for x in c["notes"]))


def impl_oracle(c):
    """Model-free reading of the property off the observations."""
    out = []
    if c.get("crash"):
        return [("crash", "the process crashed: %s" % c["crash"][:200])]
    if c.get("hang"):
        out.append(("hang", "no progress within 10 s: %s" % c["hang"]))
    if c.get("leak"):
        out.append(("goroutine-left", "goroutines still inside sniproxy after every endpoint ended: %s"
                    % ", ".join(c["leak"][:4])))
    # notifications pair up: per session exactly one connect then one disconnect, same name
    seen = {}
    for x in c.get("notes", []):
        seen.setdefault(x["s"], []).append((x["k"], x["n"]))
    for s, l in seen.items():
        if len(l) != 2 or l[0][0] != "connect" or l[1][0] != "disconnect" or l[0][1] != l[1][1]:
            out.append(("callbacks-unpaired", "session %s has notifications %s" % (s, l)))
    if c["stream"] == "race":
        out = [x for x in out if x[0] != "callbacks-unpaired"]
        for o in c.get("race", []):
            if o.get("hang"):
                out.append(("hang", "no progress within 10 s: %s" % o["hang"]))
                continue
            if o.get("after") != "new":
                out.append(("old-end-unregistered-new",
                            "connection #1 ended on its own (%s) while #2 connected %d us later; after both "
                            "settled the name resolves to '%s' although #2 is connected%s"
                            % (o["how"], o["offset_us"], o.get("after"), " and answers" if o.get("new_alive") else "")))
            if o.get("final") != "none":
                out.append(("ended-still-registered",
                            "after #2 ended as well the name still resolves (%s)" % o.get("final")))
            per = {}
            for x in o.get("notes", []):
                per.setdefault(x["s"], []).append((x["k"], x["n"]))
            for sv, l in per.items():
                if len(l) != 2 or l[0][0] != "connect" or l[1][0] != "disconnect" or l[0][1] != l[1][1]:
                    out.append(("callbacks-unpaired", "session %s has notifications %s" % (sv, l)))
        return out
    if c["stream"] == "front":
        out = [x for x in out if x[0] not in ("callbacks-unpaired", "hang")]
        for o in c.get("front", []):
            how = "round %d: a live endpoint answered the dial of %s front connection(s) with an error (%s)" \
                  % (o["round"], o.get("refused"), {"side-refused": "its side dial failed",
                                                    "accept-timeout": "full accept backlog, accept timer"}[o["how"]])
            if o.get("hang"):
                out.append(("front-hang", "%s; %s" % (o["hang"], how)))
                continue
            if o.get("after") != "live":
                out.append(("front-dial-unregistered-live-endpoint",
                            "after the refused dial the name resolves to '%s' although the most recently connected "
                            "endpoint has not ended (it %s a Hello; notifications so far %s); %s"
                            % (o.get("after"), "still answers" if o.get("alive") else "does not answer",
                               [(x["k"], x["s"]) for x in o.get("notes", [])], how)))
            if not o.get("later_served"):
                out.append(("later-front-not-served",
                            "a later front connection did not reach the live endpoint's Accept; " + how))
            if [x["k"] for x in o.get("notes", [])] != ["connect"]:
                out.append(("callbacks-unpaired", "while the endpoint was live its notifications were %s; %s"
                            % ([(x["k"], x["s"]) for x in o.get("notes", [])], how)))
            ne = o.get("notes_end", [])
            if [x["k"] for x in ne] != ["connect", "disconnect"] or ne[0]["s"] != ne[1]["s"]:
                out.append(("callbacks-unpaired", "after the endpoint had ended its notifications were %s; %s"
                            % ([(x["k"], x["s"]) for x in ne], how)))
            if o.get("final") != "none":
                out.append(("ended-still-registered", "the name still resolves after the endpoint ended; " + how))
        return out
    if c["stream"] == "token":
        out = [x for x in out if x[0] not in ("callbacks-unpaired", "hang")]
        for o in c.get("token", []):
            live = None                                   # (index, siding) of the endpoint that should be registered
            accepted = 0
            for j, t in enumerate(o.get("conns", [])):
                how = "round %d, connection #%d (%s, SideToken answers %s while it connects)" \
                      % (o["round"], j + 1, "Siding" if t.get("siding") else "not siding", t.get("token"))
                if not t.get("outcome"):
                    continue
                if t["outcome"] == "accepted":
                    accepted += 1
                    live = (j, bool(t.get("siding")))
                    if t.get("after") != "this":
                        out.append(("newest-not-registered",
                                    "the name resolves to '%s' instead of the connection just accepted; %s"
                                    % (t.get("after"), how)))
                else:
                    if t.get("prev_ended"):
                        live = None
                    if t.get("after") == "other" or (t.get("after") == "prev" and t.get("prev_ended")):
                        out.append(("ended-endpoint-still-registered",
                                    "the server refused the connection (%s) and its ServeBack has returned, but the name "
                                    "still resolves to an endpoint client ('%s') that is none of the live ones: the "
                                    "refused connection stayed registered; %s" % (t.get("err"), t.get("after"), how)))
                if not t.get("front"):
                    continue
                fr = t["front"]
                fhow = "the front connection made afterwards (SideToken answers %s) was %s" % (t.get("front_token"), fr)
                if live is None:
                    if fr == "blocked":
                        out.append(("dial-blocked-on-dead-endpoint",
                                    "no endpoint of the name is live, yet %s for 10 s instead of being closed "
                                    "(the name resolves to '%s'); %s" % (fhow, t.get("after2"), how)))
                    elif fr != "closed":
                        out.append(("front-served-without-live-endpoint", "%s; %s" % (fhow, how)))
                elif live[1] and t.get("front_token") == "error":
                    # the live siding endpoint cannot get a token: the dial fails, the endpoint stays
                    if fr != "closed":
                        out.append(("front-hang" if fr == "blocked" else "front-served-without-token",
                                    "%s; %s" % (fhow, how)))
                    if t.get("after2") != t.get("after") or not t.get("alive"):
                        out.append(("front-dial-unregistered-live-endpoint",
                                    "after the failed dial the name resolves to '%s' (before: '%s'), the endpoint %s; %s"
                                    % (t.get("after2"), t.get("after"),
                                       "answers" if t.get("alive") else "does not answer", how)))
                else:
                    if fr == "blocked":
                        out.append(("front-hang", "%s; %s" % (fhow, how)))
                    elif fr != "served" or t.get("served_by") != live[0]:
                        out.append(("later-front-not-served",
                                    "%s (by connection #%s) although connection #%d is live and registered; %s"
                                    % (fhow, t.get("served_by", -1) + 1, live[0] + 1, how)))
            if o.get("hang") and not any(x[0] in ("dial-blocked-on-dead-endpoint", "front-hang") for x in out):
                out.append(("hang", "no progress within 10 s: %s (round %d)" % (o["hang"], o["round"])))
            if o.get("hang"):
                continue
            if o.get("final") != "none":
                out.append(("ended-still-registered",
                            "after every endpoint of round %d had ended the name still resolves" % o["round"]))
            if o.get("final_front") != "closed":
                out.append(("dial-blocked-on-dead-endpoint" if o.get("final_front") == "blocked"
                            else "front-served-without-live-endpoint",
                            "after every endpoint of round %d had ended a front connection was %s"
                            % (o["round"], o.get("final_front"))))
            cbs = c.get("callbacks") or "both"
            cfg = "callbacks configured: %s; round %d, %d accepted connections, all ended" % (cbs, o["round"], accepted)
            nts = o.get("notes", [])
            cons = [x for x in nts if x["k"] == "connect"]
            dis = [x for x in nts if x["k"] == "disconnect"]
            want_c = accepted if cbs in ("both", "connect") else 0
            want_d = accepted if cbs in ("both", "disconnect") else 0
            if len(cons) != want_c:
                out.append(("callbacks-unpaired", "%d connect notifications, expected %d; %s" % (len(cons), want_c, cfg)))
            if len(dis) < want_d:
                out.append(("disconnect-not-notified",
                            "%d disconnect notifications %s for %d accepted connections that have ended (each must "
                            "produce exactly one OnDisconnect{name, session}%s); %s"
                            % (len(dis), [(x["n"], x["s"]) for x in dis], want_d,
                               ", session 0 as OnConnect is not configured" if cbs == "disconnect" else "", cfg)))
            if len(dis) > want_d:
                out.append(("disconnect-twice" if want_d else "callbacks-unpaired",
                            "%d disconnect notifications %s, expected %d; %s"
                            % (len(dis), [(x["n"], x["s"]) for x in dis], want_d, cfg)))
            if cbs == "disconnect" and any(x["s"] != 0 for x in dis):
                out.append(("disconnect-wrong-session", "without OnConnect the session of a disconnect must be 0: %s; %s"
                            % ([(x["n"], x["s"]) for x in dis], cfg)))
            if cbs == "both":
                per = {}
                for x in nts:
                    per.setdefault(x["s"], []).append((x["k"], x["n"]))
                for sv, l in sorted(per.items()):
                    ks = [a for a, _ in l]
                    if ks.count("disconnect") > 1:
                        out.append(("disconnect-twice", "session %s has notifications %s; %s" % (sv, l, cfg)))
                    elif ks == ["connect"]:
                        out.append(("disconnect-not-notified", "session %s got its connect notification and, although "
                                    "its connection has ended, no disconnect; %s" % (sv, cfg)))
                    elif len(l) != 2 or l[0][0] != "connect" or l[1][0] != "disconnect" or l[0][1] != l[1][1]:
                        out.append(("callbacks-unpaired", "session %s has notifications %s; %s" % (sv, l, cfg)))
        return out
    if c["stream"] == "silent":
        out = [x for x in out if x[0] not in ("callbacks-unpaired", "hang")]
        for o in c.get("silent", []):
            how = "round %d: %d connection(s) whose peer is connected but never answers, each kicked by the next, " \
                  "the last by a real endpoint" % (o["round"], o["silent_peers"])
            if o.get("hang"):
                out.append(("kicked-silent-peer-never-ends",
                            "%s within 10 s of the kick (ServeBack returned after %s ms; -1 = never); %s"
                            % (o["hang"], o.get("ended_ms"), how)))
            if o.get("after") not in ("new",) and not o.get("hang"):
                out.append(("newest-not-registered", "the name resolves to '%s' instead of the newest connection; %s"
                            % (o.get("after"), how)))
            if o.get("after") == "new" and not o.get("new_alive"):
                out.append(("newest-not-registered", "the newest connection is registered but does not answer; " + how))
            if o.get("final") not in ("none", None, ""):
                out.append(("ended-still-registered", "after the newest ended too the name still resolves (%s); %s"
                            % (o.get("final"), how)))
            per = {}
            for x in o.get("notes", []):
                per.setdefault(x["s"], []).append((x["k"], x["n"]))
            want = o["silent_peers"] + 1
            if len(per) != want and not o.get("hang"):
                out.append(("callbacks-unpaired", "%d accepted connections but notifications for %d sessions; %s"
                            % (want, len(per), how)))
            for sv, l in sorted(per.items()):
                if len(l) != 2 or l[0][0] != "connect" or l[1][0] != "disconnect" or l[0][1] != l[1][1]:
                    out.append(("callbacks-unpaired",
                                "session %s has notifications %s 10 s after its connection was kicked: the "
                                "connection got its connect notification and never the matching disconnect; %s"
                                % (sv, l, how)))
        return out
    if c["stream"] == "free":
        if c.get("looks") and any(x != -1 for x in c["looks"][-1]):
            out.append(("ended-still-registered", "a name still resolves after every endpoint has ended"))
        return out
    steps, looks, before = c.get("steps", []), c.get("looks", []), c.get("before", [])
    for k, st in enumerate(steps):
        if k >= len(looks) or k >= len(before):
            break
        if st["op"] == "connect" and st.get("panic") == "connect":
            # its OnConnect panicked: the deferred unmap ran, it must not stay registered
            n = st.get("name", 0)
            if looks[k][n] == st["t"]:
                out.append(("ended-still-registered",
                            "connection %d ended (its OnConnect callback panicked) but name %d still resolves to it"
                            % (st["t"], n)))
        elif st["op"] == "connect":
            n = st.get("name", 0)
            if looks[k][n] != st["t"]:
                out.append(("newest-not-registered",
                            "after connection %d connected under name %d the name resolves to %d"
                            % (st["t"], n, looks[k][n])))
        elif st["op"] == "release":
            t = st["t"]
            held_cb = any(s2["op"] == "connect" and s2["t"] == t and s2.get("holdcb") for s2 in steps)
            earlier = len([s2 for s2 in steps[:k] if s2["op"] == "release" and s2["t"] == t])
            ends = not (held_cb and earlier == 0)     # this release lets the deferred unmap run
            for n in range(len(looks[k])):
                b, a = before[k][n], looks[k][n]
                if b != t and a != b:
                    out.append(("old-end-unregistered-new",
                                "the end of connection %d changed name %d from %d to %d" % (t, n, b, a)))
                if ends and a == t:
                    out.append(("ended-still-registered",
                                "connection %d has ended but name %d still resolves to it" % (t, n)))
                if not ends and b == t and a != t:
                    out.append(("newest-not-registered",
                                "connection %d is live and newest but name %d resolves to %d" % (t, n, a)))
    # concurrent lookups during a step see the value before or after it, never anything else
    for o in c.get("bg", []):
        k, n = o["step"], o["n"]
        allowed = set()
        if k < len(looks) and k < len(before):
            allowed = {before[k][n], looks[k][n]}
            if k < len(steps) and steps[k]["op"] == "connect" and steps[k].get("name", 0) == n:
                # (a connection whose OnConnect panics is registered for a moment within its own step)
                allowed.add(steps[k]["t"])
        if k < len(looks) and k < len(before) and o["seen"] not in allowed:
            out.append(("lookup-gap", "during step %d a concurrent lookup of name %d resolved to %d "
                                      "(before %d, after %d)" % (k, n, o["seen"], before[k][n], looks[k][n])))
    if looks and any(x != -1 for x in looks[-1]):
        out.append(("ended-still-registered", "a name still resolves after every endpoint has ended"))
    return out


def run(ck):
    n, nfree = (400, 20) if not ck.thorough else (6000, 400)
    ck.gen()
    built = ck.coq_make(MODEL + PROOFS, clean=ck.thorough)
    ck.obligations = ck.count_statements(STATEMENT_FILES)
    proofs_ok = all(built.get(x) for x in PROOFS)
    if proofs_ok and ck.audit("theories/Props/C15.v"):
        ck.discharged = list(ck.obligations)
    if ck.thorough and proofs_ok:
        ck.coqchk(["Verif.Props.C15"])

    binp = ck.build_harness("c15")
    cases = []
    replayed = rpc_common.replay_case(ck)
    if binp and replayed is not None:
        cases = rpc_common.run_script(ck, binp, [replayed])
        ck.log("replaying %s: %d case(s)" % (ck.replay, len(cases)))
    elif binp:
        # the race stream always gets a small dose; when an obligation on the source no longer checks
        # (the code changed shape) it is the search for a concrete failing schedule and gets a big one
        nrace = 3 if not ck.thorough else 40
        if ck.broken:
            nrace = 40
        nsilent = 1 if not ck.thorough else 10       # (2 rounds each; a round costs the kick's 3 s time-out)
        rc, out, err = vlib.sh2([binp, "-seed", str(ck.seed), "-n", str(n), "-free", str(nfree),
                                 "-race", str(nrace), "-silent", str(nsilent),
                                 "-front", "2" if not ck.thorough else "12",
                                 "-token", "4" if not ck.thorough else "20", "-slow", "0" if not ck.thorough else "1",
                                 "-budget", "150" if not ck.thorough else "900"],
                                timeout=3000)
        if rc != 0:
            ck.broken.append({"what": "harness run failed", "detail": err[-1500:]})
        for line in out.splitlines():
            if line.startswith("{"):
                cases.append(json.loads(line))

    ops = {}
    shrunk = set()
    ck.coverage["cases_skipped_after_repeated_hangs"] = len([c for c in cases if c.get("skipped")
                                                             and not c.get("skipped_budget")])
    ck.coverage["cases_skipped_wall_clock_budget"] = len([c for c in cases if c.get("skipped_budget")])
    cases = [c for c in cases if not c.get("skipped")]
    ck.coverage["race_rounds"] = sum(len(c.get("race", [])) for c in cases)
    for c in cases:
        trivial = c["stream"] == "forced" and len([s for s in c["steps"] if s["op"] == "connect"]) < 2
        # (the key does not depend on how concurrent threads happened to interleave)
        key = [c["steps"], c.get("looks"), c.get("names")] if c["stream"] == "forced" \
            else [c["stream"], c["i"], len(c.get("notes", []))]
        np = "|".join(c.get("names") or [])
        ck.coverage.setdefault("name_pairs", {})[np] = ck.coverage.get("name_pairs", {}).get(np, 0) + 1
        if c["stream"] == "race":
            key = [c["i"], [(o["how"], o["offset_us"]) for o in c.get("race", [])]]
        if c["stream"] == "front":
            key = [c["i"], [(o["how"], o.get("refused"), o.get("after")) for o in c.get("front", [])]]
            ck.coverage["front_refused_dials"] = ck.coverage.get("front_refused_dials", 0) \
                + sum(o.get("refused", 0) for o in c.get("front", []))
        if c["stream"] == "token":
            cc = ck.coverage.setdefault("token_stream_callback_configurations", {})
            cc[c.get("callbacks") or "both"] = cc.get(c.get("callbacks") or "both", 0) + len(c.get("token", []))
            key = [c["i"], c.get("callbacks"), [[(t.get("siding"), t.get("token"), t.get("outcome"), t.get("front_token"), t.get("front"))
                             for t in o.get("conns", [])] for o in c.get("token", [])]]
            tk = ck.coverage.setdefault("token_stream_connections", {})
            for o in c.get("token", []):
                for t in o.get("conns", []):
                    kk = "%s/token-%s/%s/front-token-%s/%s" % ("siding" if t.get("siding") else "plain", t.get("token"),
                                                               t.get("outcome"), t.get("front_token"), t.get("front"))
                    tk[kk] = tk.get(kk, 0) + 1
        if c["stream"] == "silent":
            key = [c["i"], [(o["silent_peers"], o.get("after"), len(o.get("notes", []))) for o in c.get("silent", [])]]
            ck.coverage["silent_peer_rounds"] = ck.coverage.get("silent_peer_rounds", 0) + len(c.get("silent", []))
            ck.coverage["kicked_silent_connections_ended_ms"] = ck.coverage.get("kicked_silent_connections_ended_ms", []) \
                + [m for o in c.get("silent", []) for m in o.get("ended_ms", [])]
        ck.count(c["stream"], key=json.dumps(key), trivial=trivial)
        for s in (c["steps"] if c["stream"] == "forced" else []):
            ops[s["op"]] = ops.get(s["op"], 0) + 1
        for key, why in impl_oracle(c):
            small = c
            if binp and replayed is None and c["stream"] == "forced" and key not in shrunk and len(shrunk) < 3 \
                    and key != "hang" and not c.get("hang"):
                shrunk.add(key)
                small = rpc_common.shrink(ck, binp, c, key, impl_oracle)
            ck.violation("impl:%s" % key, why,
                         {"case": small, "original_case": c if small is not c else None,
                          "expected": "newest live endpoint registered; old end keeps new; ended "
                                      "unregistered; notifications paired",
                          "observed": {"looks": small.get("looks"), "notes": small.get("notes")}})
    ck.coverage["step_kinds"] = ops
    ck.coverage["background_lookups_recorded"] = sum(len(c.get("bg", [])) for c in cases)
    for c in cases[:2] + cases[5:6]:
        ck.sample({"stream": c["stream"], "steps": c["steps"], "looks": c.get("looks"), "notes": c.get("notes")})

    forced = [c for c in cases if c["stream"] == "forced" and not c.get("crash")]
    model_ok = all(built.get(x) for x in MODEL)
    if forced and model_ok:
        txt = ("From Coq Require Import List NArith ZArith.\n"
               "From Verif Require Import Sni.Registry Sni.RegistryCorr.\n"
               "Import ListNotations.\nLocal Open Scope N_scope.\n"
               "Definition cases : list ccase := [\n  "
               + ";\n  ".join(to_coq(c) for c in forced) + "\n].\n"
               "Definition M := Eval vm_compute in mismatches cases.\nPrint M.\n")
        rc, out = ck.coq_eval("cases_0", txt)
        got = vlib.parse_coq_list_of_nat(out, "M") if rc == 0 else None
        if got is None:
            ck.broken.append({"what": "correspondence evaluation failed", "detail": out[-1500:]})
            got = []
        ck.coverage["correspondence_cases"] = len(forced)
        ck.coverage["correspondence_mismatches"] = len(got)
        for i in got[:50]:
            c = forced[i]
            ck.broken.append({"what": "correspondence: model and implementation disagree", "case_index": c["i"]})
            if not impl_oracle(c):
                ck.violation("corr:forced", "the server does not behave as the proved registry model on this schedule",
                             {"case": c, "model": "Sni/Registry.v replayed by vm_compute disagrees"})
    elif forced and not model_ok:
        ck.broken.append({"what": "model does not compile; correspondence not evaluated"})

    return ck.finish(
        level="proof",
        checker_cmd="bin/check C15 (gen -> make -C coq theories/Props/C15.vo -> Print Assumptions audit -> "
                    "harness c15 vs vm_compute of Sni/RegistryCorr.v)",
        trusted=["Coq 8.16.1 kernel + vm_compute", "translator gen/sni_rpc.go (server.go skeleton, locked uses)",
                 "harness/cmd/c15 + checks/c15.py", "sniproxy/verif_rpc.go, verif_point.go hooks",
                 "modelled not verified: sync.Mutex, websocket upgrade, background Close of the kicked client"],
        rule="endpoint names: every case runs under one of 9 pairs of DIFFERENT names (plain; differing only in the case "
             "of letters, ASCII and non-ASCII incl. the Kelvin sign and a title-case digraph; differing in a trailing dot "
             "or slash), which must not kick each other and are unregistered under exactly their own spelling; "
             "3 fixed schedules then seeded forced schedules: 4-13 steps of {connect (optionally held before "
             "OnConnect), close, sever, release} over 1-2 names and up to 7 connections, every server thread held "
             "at the schedule point after serve() so that unmap order is chosen by the schedule, lookups of every "
             "name after every step and concurrently during steps; plus free-running concurrent connect/close "
             "loops (final state and notification log only); plus a race stream: rounds of '#1 ends on its own "
             "while #2 connects 0-4 ms after #1 stopped serving' with a logger that takes 2 ms per line (widening "
             "every window that contains a log statement), the name must resolve to #2 afterwards (30 rounds; 400 "
             "when a source obligation is broken); plus a silent-peer stream: 1-2 raw websocket clients under one name "
             "that read and never answer, each kicked by the next, the last by a real endpoint: every kicked "
             "connection's ServeBack must return within 10 s of its kick (3 s on a sound tree: the kick's forced close), "
             "exactly one connect and one matching disconnect per accepted connection, the name resolves to the newest; "
             "plus a front-path stream: a live endpoint answers the dial of 1-2 front connections (real ServeFront, TLS "
             "ClientHello) with an error (side mode with an application dialer that cannot reach the proxy for side "
             "connections; thorough also a full accept backlog with the 10 s accept timer): the name must still resolve to "
             "that endpoint, which still answers; one connect and no disconnect; a later front connection reaches its "
             "Accept; plus a token stream: rounds of 2-4 connections under one name, with and without the Siding option, "
             "while ServerConfig.SideToken answers ok or an error as scripted (round 0: live plain endpoint, then a "
             "Siding one while the token service fails, then a plain one); after every connection has settled -- accepted "
             "or refused by the server -- the registry is read and a front connection is made (with the token service "
             "up or down): an accepted connection is registered, a refused one is not, a front connection is served by "
             "the live endpoint, closed when none is live or when a live Siding endpoint cannot get a token (which then "
             "stays registered and answers), never left hanging. A forced schedule is non-trivial if it has >= 2 "
             "connects; also failed upgrades (plain HTTP request), side-websocket probes for an unknown session (upgraded iff "
             "the name resolves) and connections whose OnConnect / OnDisconnect callback panics; distinct = distinct (schedule, lookups after every step)",
        assumptions=["OnConnect/OnDisconnect are the user's callbacks; the session value is whatever OnConnect returns",
                     "a failed websocket upgrade registers nothing (not modelled as a thread)"])
