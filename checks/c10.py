"""C10 — caco3: an incremental build always equals a clean build (DESIGN.md §7 C10)."""
import json
import os
import tempfile
import time

import code_tie
import vlib
from vlib import coq_str

META = {
    "category": "proof",
    "text": "Coq theorems over an executable model of caco3's Builder.Build for file_set and bundle rules "
            "(loading with file-set expansion, buildNode's memo / action digest / cache get + checkSameBuilt / "
            "remove-before-execute / put-after-success, fileSet.build, bundle.build) for ALL histories of source "
            "edits, rule edits, output tampering/deletion and successful or failed builds of any target lists: "
            "the cache invariant (an entry whose outputs still carry the recorded stamps holds what the action with "
            "that digest wrote) is preserved by every step; equal action digests give equal outputs in any two "
            "configurations; a successful build leaves, for every reachable rule, exactly the output of a build "
            "from an empty out/, which also succeeds; a rebuild with nothing changed executes nothing and changes "
            "nothing; a rule executes iff its current digest has no valid cache entry, a file set is re-executed "
            "iff its digest changed and unchanged rules are not rebuilt; a failed rule has no cache entry.  "
            "The per-Build memo is explicit state of the model (Caco/BuildSession.v: a Build call entered with a "
            "memo, the deferred memo write on failing paths, a memo policy): with the memo made inside Build - "
            "which is decided on every run from where the translator finds the buildContext literal in the "
            "current source - every history of Build calls on ONE long-lived Builder (or on Builders replaced "
            "anywhere) goes through the same worlds and executions as the histories of the theorems, so "
            "incremental = clean, the no-op rebuild and 'a failed rule is not remembered' hold for it; for a "
            "memo kept across calls the statement is refuted (subset, edit, other subset: stale lists; fail, "
            "again: 'succeeds'); likewise the parse of the BUILD files, which expands Select patterns against the "
            "source tree, is per Build call (Caco/BuildParse.v; refuted for parsed files kept on the Builder: an "
            "added file is not listed, a removed one fails the build).  The "
            "model is tied to the code on every run by replaying generated histories against the real "
            "caco3.Builder - half of them with a new Builder per build, half on one long-lived Builder per "
            "configuration - (result, executed rules and the whole out/ tree compared inside Coq after every build), "
            "by statement skeletons and struct layouts regenerated from the source, and by the "
            "implementation-only oracle incremental out/ == from-scratch out/.",
    "note": "Trusted: Coq kernel + vm_compute; harness/cmd/c10 + checks/c10.py; gen/caco_build.go (skeletons, "
            "layouts, creation sites of buildContext); SHA-256 modelled as the structured "
            "value hashed (collision-freeness); an output write always leaves a new (size, mtime, mode) "
            "(strictly increasing stamp); 'edit => new mtime, size or mode' as in the property's wording; "
            "docker-backed rules and file sets "
            "listing output files are outside the theorems' scope; a source that is a symbolic link is its own lstat "
            "(size and mtime of the link, target text), nothing is read through it - histories hold links to listed "
            "and unlisted files, outside the tree, dangling and to directories, with their targets edited, the links "
            "retargeted, touched, replaced by files and back, and the translator checks that digests and .fileset "
            "entries come from the same stat call (os.Lstat); a WORKSPACE.caco3 edit is seen by a new Builder "
            "only (ReadWorkspace memoises by design; outside the property's operation list); sqlite KV, os.Lstat, "
            "JSON encoding modelled not verified; no axioms.",
    "technique": "Coq proof (invariant over histories, digest-determines-output induction over the loaded graph, "
                 "DFS = fold over post-order) + vm_compute replay of histories against the real Builder + "
                 "from-scratch differential oracle",
}

MODEL = ["theories/Caco/BuildCorr.vo"]
PROOFS = ["theories/Props/C10.vo"]
STATEMENT_FILES = ["theories/Props/C10.v", "theories/Caco/BuildGen.v", "theories/Caco/BuildSessionGen.v"]
SEMANTIC_TIE = code_tie.functions("C10")   # Go bodies proved equal to the model (Props/C10Code.v)


# ------------------------------------------------------------ case -> Coq

def cl(xs):
    return "[" + "; ".join(coq_str(x) for x in xs or []) + "]"


def stat_coq(s, link=""):
    return "(mkStat %d %d %d %s)" % (s["size"], s["mtime"], s["mode"], coq_str(link))


def sel_coq(s):
    if s["k"] == "glob":
        return "SGlobExt %s %s" % (coq_str(s["dir"]), coq_str(s.get("ext", "")))
    return "SAll %s" % coq_str(s["dir"])


def ign_coq(i):
    if i["k"] == "dir":
        return "IDir %s" % coq_str(i["dir"])
    if i["k"] == "glob":
        return "IGlobExt %s %s" % (coq_str(i["dir"]), coq_str(i.get("ext", "")))
    return "ILit %s" % coq_str(i["name"])


def rule_coq(r):
    if r["k"] == "bundle":
        kind = "KBundle %s" % cl(r.get("deps"))
    else:
        kind = "KFileSet %s [%s] [%s] %s" % (cl(r.get("files")),
                                             "; ".join(sel_coq(s) for s in r.get("sels") or []),
                                             "; ".join(ign_coq(i) for i in r.get("igns") or []),
                                             cl(r.get("include")))
    return "mkRule %s (%s)" % (coq_str(r["name"]), kind)


def rules_coq(rs):
    return "[" + "; ".join(rule_coq(r) for r in rs or []) + "]"


def entry_coq(e):
    if e["t"] == "s":
        return "ESrc %s (mkStat %d %d %d %s)" % (coq_str(e["n"]), e["s"], e["m"], e["o"], coq_str(e.get("l", "")))
    return "EOut %s 0" % coq_str(e["n"])


def entries_coq(es):
    return "[" + "; ".join(entry_coq(e) for e in es or []) + "]"


def obs_coq(o):
    outs = "; ".join("(%s, %s)" % (coq_str(f["name"]),
                                    "OGarbage" if f.get("garbage") else "OList " + entries_coq(f["entries"]))
                     for f in o["outs"])
    return "mkObs %s %s [%s]" % ("true" if o["ok"] else "false", cl(o["exec"]), outs)


def listed_rules(rs, listed):
    """The rules the loader sees: those of the packages WORKSPACE.caco3 lists (one BUILD file per package,
    no sub_builds in these workspaces)."""
    return [r for r in rs or [] if r["dir"] in listed]


def op_coq(op, listed):
    k = op["k"]
    if k == "src":
        st = op.get("stat")
        return "HOp (OSetSrc %s %s)" % (coq_str(op["name"]),
                                        "(Some %s)" % stat_coq(st, op.get("link", "")) if st else "None")
    if k == "outside":
        # a file outside the source tree changed (the target of some links): no source's lstat changes
        return "HNew"
    if k == "rules":
        return "HOp (OSetRules %s)" % rules_coq(listed_rules(op["rules"], listed))
    if k == "pkgs":
        # a WORKSPACE edit changes which BUILD files are read: to the model, the declared rules
        return "HOp (OSetRules %s)" % rules_coq(listed_rules(op["_all_rules"], listed))
    if k == "wipe":
        return "HWipe"
    if k == "tamper":
        if op.get("garbage") is not None:
            c = "(Some (CGarbage %d))" % op["garbage"]
        elif op.get("list") is not None or op.get("what") == "overwrite-list":
            # (an empty list is omitted from the JSON line)
            c = "(Some (CList %s))" % entries_coq(op.get("list") or [])
        else:
            c = "None"
        return "HOp (OTamper %s %s)" % (coq_str(op["out"]), c)
    if k == "touchout":
        return "HOp (OTouchOut %s)" % coq_str(op["out"])
    if k == "advance":
        return "HOp (OAdvance %d)" % op["dt"]
    if k == "newbuilder":
        return "HNew"
    return "HBuild %s %s (%s)" % ("true" if op.get("always") else "false", cl(op["targets"]), obs_coq(op["obs"]))


def effective(c):
    """Yields (op, listed packages after the op, all rules on disk after the op)."""
    listed = list(c["pkgs"])
    allr = c["rules"]
    for op in c["ops"]:
        if op["k"] == "rules":
            allr = op["rules"]
        if op["k"] == "pkgs":
            listed = list(op["pkgs"])
        yield op, listed, allr


def case_coq(c):
    src = "[" + "; ".join("(%s, %s)" % (coq_str(s["name"]), stat_coq(s["stat"], s.get("link", "")))
                          for s in c["src"]) + "]"
    steps = []
    for op, listed, allr in effective(c):
        if op["k"] == "pkgs":
            op = dict(op, _all_rules=allr)
        steps.append(op_coq(op, listed))
    return "mkHist %s %s [\n    %s]" % (rules_coq(c["rules"]), src, ";\n    ".join(steps))


# ------------------------------------------------ implementation-only oracle

def norm_entries(f):
    """Entries of an output file with the (inherently run-dependent) mtime of
    listed output files removed."""
    if f.get("garbage"):
        return "garbage"
    return [(e["n"], e["t"], e["s"], 0 if e["t"] == "o" else e["m"], e["o"], e.get("l", ""))
            for e in f["entries"]]


def sel_match(s, f):
    d = s["dir"] + "/"
    if not f.startswith(d):
        return False
    rest = f[len(d):]
    if s["k"] == "all":
        base = rest.split("/")[-1]
        if base in (".gitignore", "COPYING", "tags", ".DS_Store") or base.endswith(".caco3"):
            return False
        return ".git" not in rest.split("/")[:-1]
    return "/" not in rest and rest.endswith(s.get("ext", ""))


def ignored(igns, f):
    for i in igns:
        if i["k"] == "dir" and f.startswith(i["dir"] + "/"):
            return True
        if i["k"] == "glob" and sel_match({"k": "glob", "dir": i["dir"], "ext": i.get("ext", "")}, f):
            return True
        if i["k"] == "lit" and f == i["name"]:
            return True
    return False


def dependents(rules, srcs, f):
    """Rules that depend, directly or not, on source file f (independent of the model)."""
    direct = {}
    for r in rules:
        if r["k"] == "bundle":
            deps = set(r.get("deps") or [])
        else:
            deps = set(r.get("files") or []) | set(r.get("include") or [])
            for s in r.get("sels") or []:
                deps |= {x for x in srcs if sel_match(s, x) and not ignored(r.get("igns") or [], x)}
        direct[r["name"]] = deps
    outs = {r["name"] + ".fileset": r["name"] for r in rules if r["k"] == "file_set"}
    res = set()
    changed = True
    while changed:
        changed = False
        for n, deps in direct.items():
            if n in res:
                continue
            for d in deps:
                if d == f or d in res or outs.get(d) in res:
                    res.add(n)
                    changed = True
                    break
    return res


def oracle(c):
    """Reads the property off the observed results of one history.
    Yields (key, text, step index)."""
    if c.get("crash"):
        yield ("impl:crash", "the builder crashed or hung: %s" % c["crash"][:200], -1)
        return
    rules = c["rules"]
    srcs = {s["name"] for s in c["src"]}
    prev = None          # (index, op) of the previous build if nothing happened since
    prev2 = None         # (build op, src op) for the minimal-rebuild check
    last_build = None
    fresh_edits = []     # sources given a never-seen mtime since the last build (any targets)
    newest = {s["name"]: s["stat"]["mtime"] for s in c["src"]}   # newest mtime a source ever had
    for i, (op, listed, allr) in enumerate(effective(c)):
        if op["k"] == "newbuilder":
            continue     # a new Builder changes nothing about what has to happen
        if op["k"] in ("rules", "pkgs"):
            rules = listed_rules(allr, listed)
        if op["k"] == "src":
            if op.get("stat") is None:
                srcs.discard(op["name"])
            else:
                srcs.add(op["name"])
        if op["k"] != "build":
            if last_build is not None and prev is not None and op["k"] == "src" and \
                    op.get("what") in ("edit", "edit-same-size", "touch", "chmod"):
                prev2 = (last_build, op)
            else:
                prev2 = None
            if op["k"] == "src":
                if op["name"] in fresh_edits:
                    fresh_edits.remove(op["name"])
                st = op.get("stat")
                if st is not None and st["mtime"] > newest.get(op["name"], -1):
                    newest[op["name"]] = st["mtime"]
                    fresh_edits.append(op["name"])
            prev = None
            continue
        o = op["obs"]
        cl_ = o.get("clean")
        # (0) arguments passed by reference are the caller's
        for m in o.get("arg_mods") or []:
            yield ("impl:arguments-modified",
                   "the build changed its argument %s: %r before the call, %r after (the harness hands the same "
                   "slice to every build of the same target list, as a caller keeping its list does)"
                   % (m["what"], m["before"], m["after"]), i)
        # (1) incremental == clean
        if cl_ is not None:
            if o["ok"] and not cl_["ok"]:
                yield ("impl:incremental-ok-clean-fails",
                       "the incremental build succeeded but a from-scratch build of the same sources fails: %s"
                       % cl_.get("err"), i)
            elif not o["ok"] and cl_["ok"]:
                yield ("impl:incremental-fails-clean-ok",
                       "the incremental build failed (%s) but a from-scratch build succeeds" % o.get("err"), i)
            elif o["ok"]:
                inc = {f["name"]: f for f in o["outs"]}
                for f in cl_["outs"]:
                    g = inc.get(f["name"])
                    if g is None:
                        yield ("impl:output-missing", "output %s of a from-scratch build is missing" % f["name"], i)
                    elif norm_entries(g) != norm_entries(f):
                        yield ("impl:stale-output",
                               "output %s differs from the from-scratch build: %s vs %s"
                               % (f["name"], json.dumps(norm_entries(g))[:300], json.dumps(norm_entries(f))[:300]), i)
        # (1b) what a file set records about a listed output file is that file's stat
        if o["ok"]:
            actual = {f["name"]: (f["size"], f["mtime"]) for f in o["outs"]}
            for f in o["outs"]:
                for e in f.get("entries") or []:
                    if e["t"] == "o" and e["n"] in actual and actual[e["n"]] != (e["s"], e["m"]):
                        yield ("impl:stale-output-entry",
                               "%s records (size, mtime) %s for the output %s, which now has %s: no "
                               "from-scratch build leaves this" % (f["name"], (e["s"], e["m"]), e["n"],
                                                                  actual[e["n"]]), i)
        # (2) nothing changed => nothing executes; a failed rule is executed again
        if prev is not None and prev[1]["targets"] == op["targets"]:
            po = prev[1]["obs"]
            if po["ok"] and o["exec"] and not op.get("always"):
                yield ("impl:noop-rebuild-executes", "a rebuild with nothing changed executed %s" % o["exec"], i)
            if not po["ok"] and po["exec"] and "build " in (po.get("err") or ""):
                failed = po["exec"][-1]
                if o["ok"] or failed not in o["exec"]:
                    yield ("impl:failed-rule-treated-as-built",
                           "rule %s failed in the previous build and was not executed again" % failed, i)
        # (3) one source changed => exactly its dependents execute
        if prev2 is not None and prev2[0]["targets"] == op["targets"] and prev2[0]["obs"]["ok"] and o["ok"] \
                and not op.get("always"):
            f = prev2[1]["name"]
            dep = dependents(rules, srcs, f)
            extra = [r for r in o["exec"] if r not in dep]
            if extra:
                yield ("impl:unrelated-rule-executed",
                       "after a change of %s only, rules %s were executed that do not depend on it" % (f, extra), i)
            kinds = {r["name"]: r["k"] for r in rules}
            reach = set(prev2[0]["obs"]["exec"]) | set(o["exec"])
            # file sets that depend on f and were part of the previous build of the same targets
            must = [r for r in dep if kinds.get(r) == "file_set" and r in clean_exec(cl_)]
            missing = [r for r in must if r not in o["exec"]]
            if missing:
                yield ("impl:dependent-not-rebuilt",
                       "after a change of %s, dependent file sets %s were not re-executed" % (f, missing), i)
        # (3') a source got a modification time no build has seen (edit / touch): every file set that
        # depends on it and is reachable from THIS build's targets (= executed by the from-scratch
        # build) has a new action digest and must execute, whichever targets were built before
        if o["ok"] and cl_ is not None and cl_["ok"] and fresh_edits:
            for f in fresh_edits:
                if f not in srcs:
                    continue
                dep = dependents(rules, srcs, f)
                kinds = {r["name"]: r["k"] for r in rules}
                missing = sorted(r for r in dep if kinds.get(r) == "file_set" and r in clean_exec(cl_)
                                 and r not in o["exec"])
                if missing:
                    yield ("impl:dependent-not-rebuilt",
                           "after a change of %s (new modification time), the dependent file sets %s, reachable "
                           "from the targets %s, were not re-executed" % (f, missing, op["targets"]), i)
        fresh_edits = []
        prev = (i, op)
        prev2 = None
        last_build = op


def clean_exec(cl_):
    return set(cl_["exec"]) if cl_ else set()


def fresh_stamp_violations(c):
    """The model's hypothesis 'an output write leaves a new stat', checked on
    what the file system did: an executed file set whose output keeps
    (mtime, size)."""
    n = 0
    last = {}
    for op, _listed, allr in effective(c):
        if op["k"] != "build" or not op.get("obs"):
            continue
        kinds = {r["name"]: r["k"] for r in allr}
        cur = {f["name"]: (f["mtime"], f["size"]) for f in op["obs"]["outs"]}
        for r in op["obs"]["exec"]:
            o = r + ".fileset"
            # (a rule that is a bundle now may have a stale <name>.fileset from its time as a file set)
            if kinds.get(r) == "file_set" and o in cur and o in last and cur[o] == last[o] and op["obs"]["ok"]:
                n += 1
        last = cur
    return n


# -------------------------------------------------------------------- run

def run_harness(ck, binp, shards):
    from concurrent.futures import ThreadPoolExecutor
    scratch = os.environ.get("VERIF_SCRATCH") or os.path.join(tempfile.gettempdir(), "verif-caco")

    def one(s):
        args = [binp, "-seed", str(ck.seed), "-tier", ck.tier, "-shards", str(shards), "-shard", str(s),
                "-scratch", scratch]
        return vlib.sh2(args, timeout=3000)

    with ThreadPoolExecutor(max_workers=shards) as ex:
        results = list(ex.map(one, range(shards)))
    cases = []
    for rc, out, err in results:
        if rc != 0:
            ck.broken.append({"what": "harness run failed", "detail": (err or "")[-1500:]})
        for line in out.splitlines():
            if line.startswith("{"):
                cases.append(json.loads(line))
    cases.sort(key=lambda c: c["i"])
    return cases


def brief(c, upto=None):
    """A history without the bulky observations, for samples and replays."""
    ops = []
    for i, op in enumerate(c["ops"]):
        if upto is not None and i > upto:
            break
        d = {k: v for k, v in op.items() if k not in ("obs", "content")}
        if op.get("obs"):
            o = op["obs"]
            if o.get("arg_mods"):
                d["arguments_changed_by_the_call"] = o["arg_mods"]
            d["observed"] = {"ok": o["ok"], "err": o.get("err"), "exec": o["exec"],
                             "outs": {f["name"]: norm_entries(f) for f in o["outs"]}}
            if o.get("clean"):
                d["from_scratch"] = {"ok": o["clean"]["ok"], "exec": o["clean"]["exec"],
                                     "outs": {f["name"]: norm_entries(f) for f in o["clean"]["outs"]}}
        ops.append(d)
    return {"stream": c["stream"], "i": c["i"], "builder": c.get("builder", "fresh"),
            "work_dir_package": c.get("work", ""),
            "builder_note": "one = all Build calls of the history on one long-lived caco3.Builder per configuration "
                            "(renewed only at 'newbuilder'); fresh = a new Builder for every build",
            "pkgs": c["pkgs"], "rules": c["rules"],
            "src": [dict({"name": s["name"], "stat": s["stat"]}, **({"link": s["link"]} if s.get("link") else {}))
                    for s in c["src"]], "ops": ops}


def run(ck):
    ck.gen()
    built = ck.coq_make(MODEL + PROOFS, clean=ck.thorough)
    ck.obligations = ck.count_statements(STATEMENT_FILES)
    proofs_ok = all(built.get(x) for x in PROOFS)
    if proofs_ok:
        if ck.audit("theories/Props/C10.v"):
            ck.discharged = list(ck.obligations)
    if ck.thorough and proofs_ok:
        ck.coqchk(["Verif.Props.C10"])
    code_tie.run(ck, "C10")

    binp = ck.build_harness("c10")
    cases = []
    if binp:
        t = time.time()
        cases = run_harness(ck, binp, 12)
        ck.timings["harness"] = round(time.time() - t, 2)

    # implementation-only oracle
    hist = {}
    nbuilds = 0
    stale = 0
    for c in cases:
        key = json.dumps([c.get("builder"), c.get("work"), c["rules"],
                          [(s["name"], s["stat"], s.get("link")) for s in c["src"]],
                          [{k: v for k, v in op.items() if k != "obs"} for op in c["ops"]]], sort_keys=True)
        builds = [op for op in c["ops"] if op["k"] == "build" and op.get("obs")]
        nbuilds += len(builds)
        trivial = not any(op["obs"]["exec"] for op in builds)
        ck.count(c["stream"], key=key, trivial=trivial)
        hist["builder:" + c.get("builder", "fresh")] = hist.get("builder:" + c.get("builder", "fresh"), 0) + 1
        for op in c["ops"]:
            k = op["k"] if op["k"] == "build" else "%s:%s" % (op["k"], op.get("what"))
            if op["k"] == "build" and op.get("obs"):
                o = op["obs"]
                k = "build:" + ("ok-executes" if o["ok"] and o["exec"] else "ok-all-cached" if o["ok"]
                                else "fails-executing" if o["exec"] else "fails-loading")
            hist[k] = hist.get(k, 0) + 1
        stale += fresh_stamp_violations(c)
        seen = set()
        for key_, why, idx in oracle(c):
            if key_ in seen:
                continue
            seen.add(key_)
            ck.violation(key_, why, {"history": brief(c, idx if idx >= 0 else None), "failing_step": idx,
                                     "expected": "after every successful build out/ equals a from-scratch build; "
                                                 "an unchanged rebuild executes nothing; only dependents of a "
                                                 "change execute; a failed rule is executed again"})
    ck.coverage["op_histogram"] = hist
    grown = sum(c["fds"][1] - c["fds"][0] for c in cases if c.get("fds") and c["fds"][0] >= 0)
    calls = sum(c["fds"][2] for c in cases if c.get("fds") and c["fds"][0] >= 0)
    if calls:
        ck.coverage["open_files_left_per_build_call"] = round(grown / calls, 2)
        if grown > 0:
            ck.coverage["open_files_note"] = (
                "every Builder.Build leaves file descriptors open (the sqlite handle on out/CACHE is never closed): "
                "%d descriptors over %d Build calls in the harness processes; not a statement of C10, recorded "
                "because a long-lived Builder accumulates them" % (grown, calls))
    ck.coverage["builds_observed"] = nbuilds
    if stale:
        ck.notes.append("hypothesis 'an output write leaves a new stat' did not hold %d times on this file system" % stale)
        ck.coverage["fresh_stamp_hypothesis_failures"] = stale
    for c in cases[:1] + cases[9:11]:
        ck.sample(brief(c))

    # correspondence: replay inside Coq
    model_ok = all(built.get(x) for x in MODEL)
    if cases and model_ok:
        from concurrent.futures import ThreadPoolExecutor
        ok_cases = [c for c in cases if not c.get("crash")]
        shard = max(10, (len(ok_cases) + 11) // 12)

        def evaluate(s):
            part = ok_cases[s:s + shard]
            txt = ("From Coq Require Import List String NArith.\n"
                   "From Verif Require Import Caco.Load Caco.Build Caco.BuildCorr.\n"
                   "Import ListNotations.\nLocal Open Scope string_scope.\nLocal Open Scope N_scope.\n"
                   "Definition cases : list hcase := [\n  "
                   + ";\n  ".join(case_coq(c) for c in part) + "\n].\n"
                   "Definition M := Eval vm_compute in results cases.\nPrint M.\n"
                   "Definition S := Eval vm_compute in scopes cases.\nPrint S.\n")
            return s, ck.coq_eval("hist_%d" % (s // shard), txt)

        t = time.time()
        with ThreadPoolExecutor(max_workers=12) as ex:
            results = list(ex.map(evaluate, range(0, len(ok_cases), shard)))
        ck.timings["coq_eval_wall"] = round(time.time() - t, 2)
        nmis = 0
        inscope = 0
        for s, (rc, out) in results:
            got = vlib.parse_coq_list_of_nat(out, "M") if rc == 0 else None
            if got is None:
                ck.broken.append({"what": "correspondence evaluation failed", "detail": out[-1500:]})
                break
            inscope += sum(vlib.parse_coq_list_of_nat(out, "S") or [])
            for j, m in enumerate(got):
                if m == 0:
                    continue
                nmis += 1
                c = ok_cases[s + j]
                # the m-th step (1-based) is the first build that differs
                ck.broken.append({"what": "correspondence: model and implementation disagree",
                                  "history": c["i"], "step": m - 1})
                if not any(True for _ in oracle(c)):
                    ck.violation("corr:%s" % c["stream"],
                                 "the real builder departs from the proved model (executed rules, result or out/ "
                                 "tree) at this step of the history",
                                 {"history": brief(c, m - 1), "failing_step": m - 1,
                                  "model": "Caco/Build.v replayed by vm_compute disagrees"})
        ck.coverage["correspondence_histories"] = len(ok_cases)
        ck.coverage["histories_in_theorem_scope"] = inscope
        if inscope < len(ok_cases) and not ck.broken:
            ck.notes.append("%d generated histories leave the scope of the theorems (hist_in_scope)"
                            % (len(ok_cases) - inscope))
        ck.coverage["correspondence_mismatches"] = nmis
    elif cases and not model_ok:
        ck.broken.append({"what": "model does not compile; correspondence not evaluated"})

    return ck.finish(
        level="proof",
        checker_cmd="bin/check C10 (gen -> make -C coq theories/Props/C10.vo -> Print Assumptions audit -> harness "
                    "c10 (real caco3.Builder on scratch workspaces) vs vm_compute replay of Caco/BuildCorr.v + "
                    "from-scratch differential oracle)",
        trusted=["Coq 8.16.1 kernel + vm_compute", "harness/cmd/c10 (workspace writer, log and out/ projection)",
                 "checks/c10.py (history -> Coq, differential oracle)",
                 "modelled not verified: sqlite KV cache, os.Lstat/Chtimes, encoding/json, filepath.Glob/WalkDir"],
        rule="every history either with a new Builder per build or on one long-lived Builder per configuration "
             "(chosen per history; fixed corpus in both styles + one-Builder corpus: subset/edit/other subset, "
             "fail/again, diamond arms, outputs deleted between different targets, BUILD edits, renewed Builder, "
             "out/ removed wholesale with its CACHE file, WORKSPACE.caco3 edits that drop and re-list a package "
             "(followed by a new Builder: ReadWorkspace memoises)); "
             "fixed corpus (edit and edit-back to the same stat, chmod/touch/same-size edit, files entering and "
             "leaving a selection, deleted and overwritten outputs, a failing rule injected/repaired/injected "
             "again, rule reorder/kind change/removal, target subsets) + seeded random histories over 1-4 "
             "packages, 2-8 file_set/bundle rules in random DAGs, <=12 (quick) / <=40 (thorough) operations; after "
             "every build a from-scratch build of a copy; trivial = a history in which no build executed a rule; "
             "distinct = distinct (rules, sources, operations)",
        assumptions=["SHA-256 collision-freeness (digest = the value hashed)",
                     "an edit changes mtime, size or mode (property wording)",
                     "every write of an output leaves a new (size, mtime, mode)",
                     "histories shorter than the cache expiry (7 days)",
                     "file sets list source files (not outputs); no Ignore patterns; no symlinks; no docker rules"])
