"""C02 — sniproxy: a connection only ever reaches the endpoint its SNI selects (DESIGN.md §7 C02)."""
import json

import code_tie
import vlib

META = {
    "category": "proof",
    "text": "Coq theorems: (routing) for every server configuration, lookup function (all four result shapes: destination or "
            "nil x error or nil), registry and server name the decision of hostConn + Server.dial - both emitted "
            "statement by statement with their conditions and return expressions, run by an interpreter and proved "
            "equal to the closed form - dials an endpoint exactly when the name passes isRejectedDomain, the "
            "lookup answers a plain destination without error and the registry holds that destination's name - at most "
            "one endpoint, none for empty/IP/suffix-rejected/refused/unconnected names; for every emitted statement list "
            "in which the lookup is followed by a guard that fires whenever err != nil, a name whose lookup returns an "
            "error (with or without a destination) is refused; no result shape crashes; over histories in which the "
            "lookup's answers and the registry change between connections every dial is routed by the answer and the "
            "registry at that dial (what NewServer stores in s.lookup and who calls it is extracted; a memoising server "
            "is refuted); a destination name not registered with exactly these bytes is never served by a "
            "variant (registry lookup = one map index, extracted; a folding lookup refuted); every return of hostConn "
            "before the join closes the front connection and bytes flow only after a successful dial of the selected "
            "destination; (concurrency) for every sequence of whole "
            "operations of any number of goroutines on the session-id counter, the side-dial mail office and the "
            "endpoint's session table, including deliveries with arbitrary ids and keys: ids are unique, a connection "
            "leaves a box only if delivered under that box's id and key, honest deliveries are never crossed, cleanUp "
            "is local, a session lookup returns only the connection registered under that id; (address) the front "
            "address put into dialSide2Request is what the endpoint decodes (C13 codec) and reports as RemoteAddr. "
            "isRejectedDomain, the suffix table, the statement order of hostConn and Server.dial and 20 function bodies "
            "are regenerated from /repo on every run; the models are tied to the code by differential runs evaluated in "
            "Coq; an end-to-end run with 2-6 endpoints and up to 64 concurrent tagged connections in each of the three "
            "tunnel modes searches for a mis-delivered byte, and an end-to-end refusal stream drives every error return "
            "of hostConn (unsniffable hello, rejected name, each lookup shape, no lookup, home/forward failures, "
            "endpoint not connected, side token / side connection failures) and requires the front connection closed "
            "with nothing received and nothing accepted or read at any endpoint.",
    "note": "Trusted: Coq kernel + vm_compute; translator gen/sni_stream.go; harness c02 + sniproxy/verif_stream.go shim; "
            "the mutexes of sessionID/connMailOffice/connections make each method atomic (read off the frozen bodies, "
            "not proved); net.ParseIP is a parameter whose real value is supplied per case; the 64-bit random key is an "
            "arbitrary value (no guessing argument); uint64 wrap-around of the id counter is not modelled; HTTP "
            "authentication of side connections is outside; no axioms.",
    "technique": "Coq proof (invariants over all operation sequences; case analysis of the routing decision) + go/ast "
                 "translation of isRejectedDomain/hostConn/Server.dial + vm_compute correspondence + concurrent e2e oracle",
}

MODEL = ["theories/Sni/RouteCorr.vo"]
PROOFS = ["theories/Props/C02.vo"]
STATEMENT_FILES = ["theories/Props/C02.v", "theories/Sni/RouteGen.v"]
SEMANTIC_TIE = code_tie.functions("C02")   # Go bodies proved equal to the model (Props/C02Code.v)

CODE = {"nolookup": 1, "err": 2, "home": 3, "notfound": 5, "forward": 6, "endpoint": 7, "panic": 8, "nilconn": 10}


def hexlist(h):
    bs = bytes.fromhex(h or "")
    return "[" + ";".join(str(b) for b in bs) + "]"


def strlist(s):
    return "[" + ";".join(str(b) for b in s.encode()) + "]"


def cbool(b):
    return "true" if b else "false"


def route_term(r):
    table = []
    for e in r["table"]:
        dest = "None" if e.get("nodest") else "(Some (mkDest %s %s %s))" % (
            hexlist(e.get("name")), cbool(e.get("home")), hexlist(e.get("forward")))
        table.append("(%s, mkLk %s %s)" % (hexlist(e["domain"]), dest, cbool(e.get("err"))))
    code = CODE.get(r.get("decision", ""), 9) if r["dialed"] else 0
    arg = r.get("decision_arg") if code in (6, 7) else ""
    return "RcRoute %s [%s] %s [%s] %s %s %s %s %d %s" % (
        cbool(r["has_lookup"]), "; ".join(table), cbool(r["has_home"]),
        "; ".join(hexlist(e) for e in r["endpoints"]), hexlist(r["sni"]), cbool(r["is_ip"]),
        cbool(r["rejected"]), cbool(r["dialed"]), code, hexlist(arg))


def office_term(ops):
    o, v = [], []
    for p in ops:
        k = p["op"]
        if k == "next":
            o.append("ONext")
            v.append("VId %s" % p["val"])
        elif k == "newbox":
            o.append("ONewBox %s %s" % (p["id"], p["key"]))
            v.append("VHandle %s" % p["val"])
        elif k == "deliver":
            o.append("ODeliver %s %s %s" % (p["id"], p["key"], p["tag"]))
            v.append({"ok": "VDelivered", "notfound": "VNotFound", "mismatch": "VMismatch"}.get(p["res"], "VBadHandle"))
        elif k == "receive":
            o.append("OReceive %d %s" % (p["h"], cbool(p.get("both") and p["res"] == "closed")))
            v.append({"conn": "VConn %s" % p.get("val", "0"), "closed": "VClosed", "blocked": "VBlocked",
                      "badhandle": "VBadHandle"}.get(p["res"], "VDone"))
        elif k == "cleanup":
            o.append("OCleanUp %d" % p["h"])
            v.append("VDone")
    return "RcOffice [%s] [%s]" % ("; ".join(o), "; ".join(v))


def conns_term(ops):
    o, v = [], []
    for p in ops:
        k = p["op"]
        if k == "add":
            o.append("CAdd (mkC %s %s)" % (p["id"], p["ident"]))
        elif k == "get":
            o.append("CGet %s" % p["id"])
        elif k == "remove":
            o.append("CRemove %s" % p["id"])
        else:
            o.append("CShutdown")
        r = p["res"]
        if r == "found":
            v.append("WFound (mkC %s %s)" % (p["sess"], p["got"]))
        elif r == "all":
            v.append("WAll [%s]" % "; ".join("mkC %s %s" % (a[0], a[1]) for a in p.get("all") or []))
        else:
            v.append({"ok": "WOk", "shutdown": "WShutdown", "conflict": "WConflict", "notfound": "WNotFound"}.get(r, "WAll []"))
    return "RcConns [%s] [%s]" % ("; ".join(o), "; ".join(v))


def addr_terms(e):
    mode = {"legacy": 0, "siding": 1, "sidingaddr": 2}[e["mode"]]
    out = []
    for a in e.get("addrs") or []:
        if a["remote"] == "pipe":
            kind, addr = 0, ""
        elif a["remote"] == a["back"]:
            kind, addr = 1, ""
        else:
            kind, addr = 2, a["remote"]
        out.append("RcAddr %d %s %d %s" % (mode, strlist(a["front"]), kind, strlist(addr)))
    return out


def front_terms(g):
    out = []
    for o in g.get("obs") or []:
        e = o.get("entry")
        if e is None:
            lk = "(mkLk None true)"
        else:
            dest = "None" if e.get("nodest") else "(Some (mkDest %s %s %s))" % (
                hexlist(e.get("name")), cbool(e.get("home")), hexlist(e.get("forward")))
            lk = "(mkLk %s %s)" % (dest, cbool(e.get("err")))
        joined = o["expect"] != "refused" and o["reply"].startswith("EP ")
        if o["expect"] == "refused":
            joined = bool(o["accepted"] or o["bytes"] or o["got"])
        out.append("RcFront %s %s %s [%s] %s %s %s %s %s %s" % (
            cbool(o["has_lookup"]), lk, cbool(o["has_home"]), "; ".join(hexlist(x) for x in o["endpoints"]),
            cbool(o["sniff_ok"]), hexlist(o.get("name")), cbool(o["is_ip"]), cbool(o["dial_ok"]),
            cbool(joined), cbool(o["end"] == "closed")))
    return out


def lk_term(e):
    dest = "None" if e.get("nodest") else "(Some (mkDest %s %s %s))" % (
        hexlist(e.get("name")), cbool(e.get("home")), hexlist(e.get("forward")))
    return "(mkLk %s %s)" % (dest, cbool(e.get("err")))


def hist_term(h):
    evs, obs = [], []
    for e in h["events"]:
        if e["kind"] == "lookup":
            evs.append("(0, [%s], [], [])" % "; ".join("(%s, %s)" % (hexlist(t["domain"]), lk_term(t)) for t in e.get("table") or []))
        elif e["kind"] == "registry":
            evs.append("(1, [], [%s], [])" % "; ".join(hexlist(x) for x in e.get("endpoints") or []))
        else:
            evs.append("(2, [], [], %s)" % hexlist(e["sni"]))
            code = CODE.get(e.get("decision", ""), 9)
            obs.append("(%d, %s)" % (code, hexlist(e.get("decision_arg") if code in (6, 7) else "")))
    return "RcHist %s [%s] [%s]" % (cbool(h["has_home"]), "; ".join(evs), "; ".join(obs))


def oracle_hist(h):
    """every dial is routed by what the lookup answers at that dial, and asks it exactly once"""
    return oracle_hist_pass(h, False) or oracle_hist_pass(h, True)


def oracle_hist_pass(h, count_calls):
    table, eps, trail = {}, set(), []
    for i, e in enumerate(h["events"]):
        if e["kind"] == "lookup":
            table = {t["domain"]: t for t in e.get("table") or []}
            trail.append("lookup now answers {%s}" % ", ".join(
                "%s: %s" % (bytes.fromhex(k).decode("latin1"), lookup_shape(v)) for k, v in table.items()))
            continue
        if e["kind"] == "registry":
            eps = set(e.get("endpoints") or [])
            trail.append("connected endpoints now %s" % sorted(bytes.fromhex(x).decode("latin1") for x in eps))
            continue
        sni = bytes.fromhex(e["sni"]).decode("latin1")
        d, arg = e.get("decision"), e.get("decision_arg", "")
        trail.append("dial %s -> %s %s" % (sni, d, bytes.fromhex(arg).decode("latin1") if d in ("endpoint", "forward") else ""))
        hist = "; ".join(trail[-6:])
        if d == "panic":
            return ("hist:dial-crash", "Server.dial panicked in the history [%s]" % hist)
        if count_calls and e.get("lookups") != 1:
            return ("hist:lookup-calls:%d" % e.get("lookups", -1),
                    "the dial of %s called the configured Lookup %d times (every connection must be looked up exactly "
                    "once, at its dial) in the history [%s]" % (sni, e.get("lookups", -1), hist))
        cur = table.get(e["sni"])
        if cur is None or cur.get("err") or cur.get("nodest"):
            if d in ("endpoint", "home", "forward"):
                return ("hist:refused-at-dial-routed", "at this dial the lookup's answer for %s is %s, yet the connection "
                        "was routed: %s %r - history [%s]" % (sni, lookup_shape(cur), d, bytes.fromhex(arg), hist))
            continue
        if cur.get("home") or cur.get("forward"):
            want = "home" if cur.get("home") else "forward"
            if d == "endpoint":
                return ("hist:routed-by-earlier-lookup", "at this dial the lookup's answer for %s is %s, yet an endpoint was "
                        "dialled: %r - history [%s]" % (sni, lookup_shape(cur), bytes.fromhex(arg), hist))
            continue
        name = cur.get("name", "")
        if d == "endpoint" and arg != name and bytes.fromhex(arg).lower() == bytes.fromhex(name).lower():
            return ("hist:name-variant-dialled", "at this dial the lookup's answer for %s is endpoint %r, which is not "
                    "connected; endpoint %r (another name, differing in letter case) was dialled - history [%s]"
                    % (sni, bytes.fromhex(name), bytes.fromhex(arg), hist))
        if d == "endpoint" and arg != name:
            return ("hist:routed-by-earlier-lookup", "at this dial the lookup's answer for %s is endpoint %r, yet endpoint %r "
                    "was dialled - history [%s]" % (sni, bytes.fromhex(name), bytes.fromhex(arg), hist))
        if d == "endpoint" and arg not in eps:
            return ("hist:unconnected-endpoint-dialled", "endpoint %r is not connected at this dial - history [%s]"
                    % (bytes.fromhex(arg), hist))
        if d != "endpoint" and name in eps:
            return ("hist:current-endpoint-not-dialled", "at this dial the lookup's answer for %s is the connected endpoint "
                    "%r, yet the result was %s - history [%s]" % (sni, bytes.fromhex(name), d, hist))
    return None


def to_coq(c):
    s = c["stream"]
    if c.get("crash"):
        return ["RcIds 1 []"]          # never equal: a crash is a mismatch
    if s == "reject":
        r = c["reject"]
        return ["RcReject %s %s %s" % (hexlist(r["name"]), cbool(r["is_ip"]), cbool(r["rejected"]))]
    if s == "route":
        return [route_term(c["route"])]
    if s == "office":
        return [office_term(c["office"])]
    if s == "conns":
        return [conns_term(c["conns"])]
    if s == "ids":
        ids = sorted(x for g in c["ids"] for x in g)
        return ["RcIds %d [%s]" % (len(ids), "; ".join(str(x) for x in ids))]
    if s == "e2e":
        return addr_terms(c["e2e"])
    if s == "refuse":
        return front_terms(c["refuse"])
    if s == "hist":
        return [hist_term(c["hist"])]
    if s == "regen":
        return [office_term(c["regen"]["office"])]
    if s == "race":
        ids = sorted(c["race"]["ids"])
        return ["RcIds %d [%s]" % (len(ids), "; ".join(str(x) for x in ids))]
    return []


def oracle_route(r):
    sni = bytes.fromhex(r["sni"])
    must_reject = sni == b"" or r["is_ip"]
    if must_reject and r["dialed"]:
        return ("rejected-name-dialed", "hostConn called the dialer for the server name %r" % sni)
    if r["rejected"] and r["dialed"]:
        return ("rejected-name-dialed", "isRejectedDomain(%r) is true but the dialer was called" % sni)
    if not r["dialed"]:
        if r["host_err"] != "rejected":
            return ("hello-not-sniffed", "hostConn failed before the routing decision: %s" % r["host_err"])
        if not r["rejected"]:
            return ("accepted-name-not-dialed", "isRejectedDomain(%r) is false but nothing was dialled" % sni)
        return None
    if r["dial_name"] != r["sni"]:
        return ("wrong-name-to-dialer", "dialer got %r for SNI %r" % (bytes.fromhex(r["dial_name"]), sni))
    if r["dial_addr"] != r["front_addr"]:
        return ("wrong-addr-to-dialer", "dialer got address %r for a connection from %r" % (r["dial_addr"], r["front_addr"]))
    entry = next((e for e in r["table"] if e["domain"] == r["sni"]), None)
    d = r["decision"]
    shape = "no lookup configured" if not r["has_lookup"] else lookup_shape(entry)
    if d == "panic":
        return ("dial-crash:" + shape_key(r, entry),
                "Server.dial panicked for the name %r (lookup result: %s): %s - in the server the connection goroutine "
                "has no recover, so the whole proxy process ends"
                % (sni, shape, bytes.fromhex(r.get("decision_arg", "")).decode("latin1")))
    if d == "nilconn":
        return ("dial-nil-conn:" + shape_key(r, entry),
                "Server.dial returned neither a connection nor an error for the name %r (lookup result: %s)" % (sni, shape))
    if not r["has_lookup"] or entry is None or entry.get("err"):
        if d in ("endpoint", "home", "forward"):
            return ("refused-name-routed", "the lookup refuses the name %r (lookup result: %s) but the connection was "
                    "routed: %s %r" % (sni, shape, d, bytes.fromhex(r.get("decision_arg", ""))))
        return None
    if entry.get("nodest"):
        if d in ("endpoint", "home", "forward"):
            return ("no-destination-routed", "the lookup has no destination for the name %r (lookup result: %s) but the "
                    "connection was routed: %s" % (sni, shape, d))
        return None
    if d == "endpoint" and r["decision_arg"] != entry.get("name", "") and \
            bytes.fromhex(r["decision_arg"]).lower() == bytes.fromhex(entry.get("name", "")).lower():
        return ("name-variant-dialled", "name %r maps to %r, under which no endpoint is connected, but endpoint %r - a name "
                "differing only in letter case - was dialled" % (
                    sni, bytes.fromhex(entry.get("name", "")), bytes.fromhex(r["decision_arg"])))
    if d == "endpoint":
        if r["decision_arg"] != entry.get("name", "") or r["decision_arg"] not in r["endpoints"] \
                or entry.get("home") or entry.get("forward"):
            return ("wrong-endpoint", "name %r maps to %r but endpoint %r was dialled" % (
                sni, bytes.fromhex(entry.get("name", "")), bytes.fromhex(r["decision_arg"])))
    elif d == "notfound":
        if not entry.get("home") and not entry.get("forward") and entry.get("name", "") in r["endpoints"]:
            return ("endpoint-not-dialled", "name %r maps to connected endpoint %r but it was not dialled" % (
                sni, bytes.fromhex(entry["name"])))
    return None


def lookup_shape(entry):
    if entry is None:
        return "(nil, error) - name not in the table"
    dest = "nil" if entry.get("nodest") else "Dest{Name:%r Home:%s ForwardTCP:%r}" % (
        bytes.fromhex(entry.get("name", "")), bool(entry.get("home")), bytes.fromhex(entry.get("forward", "")))
    return "(%s, %s)" % (dest, "error" if entry.get("err") else "nil")


def shape_key(r, entry):
    if not r["has_lookup"]:
        return "no-lookup"
    if entry is None:
        return "nil-err"
    return ("nil" if entry.get("nodest") else "dest") + "-" + ("err" if entry.get("err") else "nil")


def oracle_office(ops):
    boxes = []                       # handle -> (id, key)
    delivered = set()                # (id, key, tag) that returned ok
    for p in ops:
        if p["op"] == "newbox":
            boxes.append((p["id"], p["key"]))
            if int(p["val"]) != len(boxes) - 1:
                return ("office-harness", "unexpected handle numbering")
        elif p["op"] == "deliver" and p["res"] == "ok":
            delivered.add((p["id"], p["key"], p["tag"]))
        elif p["op"] == "receive" and p["res"] == "conn":
            h = p["h"]
            if h >= len(boxes):
                return ("office-received-from-nowhere", "receive on a handle that was never created returned a connection")
            if (boxes[h][0], boxes[h][1], p["val"]) not in delivered:
                return ("mailbox-crossed", "box (id %s, key %s) received connection #%s that was never delivered "
                        "under that id and key" % (boxes[h][0], boxes[h][1], p["val"]))
    return None


def oracle_conns(ops):
    live = {}
    closed = False
    for p in ops:
        if p["op"] == "add" and p["res"] == "ok":
            live[p["id"]] = p["ident"]
        elif p["op"] == "remove" and p["res"] == "ok":
            live.pop(p["id"], None)
        elif p["op"] == "shutdown":
            closed = True
        elif p["op"] == "get" and p["res"] == "found":
            if closed or p["sess"] != p["id"] or live.get(p["id"]) != p["got"]:
                return ("session-crossed", "lookup of session %s returned the connection of session %s (object %s)"
                        % (p["id"], p["sess"], p["got"]))
    return None


def oracle_ids(groups):
    ids = sorted(x for g in groups for x in g)
    if ids != list(range(len(ids))):
        return ("session-id-reused", "concurrent next() calls returned %s..." % ids[:20])
    return None


def oracle_e2e(e):
    if e.get("setup_err"):
        return ("e2e-setup", "could not start the proxy world: %s" % e["setup_err"])
    if e["failures"]:
        f = e["failures"][0]
        return ("e2e:" + f["kind"], "%s mode, %d endpoints, %d connections: %s for tag %s (domain %r): expected %s, "
                "observed %s (%d failures in the round)" % (e["mode"], e["endpoints"], e["conns"], f["kind"], f["tag"],
                                                          f["domain"], f["expected"], f["observed"], len(e["failures"])))
    if e["accepted"] != e["valid"]:
        return ("e2e:accepted-count", "%d connections with valid names but %d accepted at the endpoints"
                % (e["valid"], e["accepted"]))
    for a in e.get("addrs") or []:
        want = {"legacy": "pipe", "siding": a["back"], "sidingaddr": a["front"]}[e["mode"]]
        if a["remote"] != want:
            return ("e2e:remote-addr", "%s mode: backend saw remote address %s for the client at %s"
                    % (e["mode"], a["remote"], a["front"]))
    return None


def oracle_race(r):
    if r["crossed"]:
        return ("race-mailbox-crossed", "%d dials and %d forgers racing on one office: %s"
                % (r["dials"], r["forgers"], r["crossed"][0]))
    if r["forged_ok"]:
        return ("race-forged-accepted", "%d deliveries with a wrong key were accepted" % r["forged_ok"])
    if sorted(r["ids"]) != list(range(r["dials"])):
        return ("race-id-reused", "concurrent dials got ids %s" % sorted(r["ids"])[:20])
    bad = [g for g in r["got"] if not g.isdigit()]
    if bad:
        return ("race-dial-starved", "a dial did not receive the connection made for it: %s" % bad[:5])
    if r["left"]:
        return ("race-box-leaked", "%d boxes still filed after every dial cleaned up" % r["left"])
    return None


def oracle_regen(g):
    ops = g["office"]
    stale = ops[2]
    if stale["res"] != "mismatch":
        return ("stale-side-conn-accepted", "after re-registration a side connection carrying id %s and the old key %s "
                "was answered %r by the office whose pending dial has id %s and key %s"
                % (stale["id"], g["key1"], stale["res"], g["id"], g["key2"]))
    rec = ops[4]
    if rec["res"] != "conn" or rec.get("val") != ops[3]["tag"]:
        return ("stale-side-conn-received", "the dial of the new registration received %r" % (rec,))
    return None


def oracle_refuse(g):
    """every error return of hostConn before the join: closed, nothing back, nothing at any endpoint"""
    if g.get("setup_err"):
        return ("refuse-setup", "could not start the proxy world: %s" % g["setup_err"])
    if g.get("aliased"):
        return ("config-aliased", "%s mode: after NewServer returned, the harness overwrote the Lookup / DialHome / DialForward "
                "/ SideToken of the ServerConfig value it had passed (as an application reusing the value for a second server "
                "does); the server called the overwritten functions %d time(s): its routing follows its caller's struct instead "
                "of what it was configured with" % (g["mode"], g["aliased"]))
    for m in g.get("mis") or []:
        want = "EP %s GOT %s" % (m["expect"], m["tag"])
        if m["reply"] != want or m["payload"] != "ok":
            return ("bytes-at-wrong-endpoint",
                    "%s mode: after three front connections whose hello read failed (client closed inside the header / inside "
                    "the record / oversize record), four good connections at the same time to /ep0 and /ep1, round %d: the "
                    "connection tagged %s for %s was answered %r and its endpoint judged the payload it read %r (expected %r "
                    "and its own %d tagged bytes)" % (g["mode"], m["round"], m["tag"], m["expect"], m["reply"], m["payload"],
                                                     want, 8192))
    for o in g["obs"]:
        sc = "%s mode, world %s, scenario %s" % (g["mode"], o["world"], o["scenario"])
        if o["expect"] == "refused":
            if o["accepted"] or o["bytes"]:
                return ("refuse:reached-endpoint:" + o["scenario"],
                        "%s: the connection must be refused but %d connection(s) were accepted and %d byte(s) read at "
                        "the endpoints (%s)" % (sc, o["accepted"], o["bytes"], o.get("where", "")))
            if o["got"]:
                return ("refuse:answered:" + o["scenario"], "%s: the client received %d byte(s)" % (sc, o["got"]))
            if o["end"] != "closed":
                return ("refuse:not-closed:" + o["scenario"], "%s: the front connection was not closed (%s)" % (sc, o["end"]))
        else:
            if not o["reply"].startswith("EP %s GOT T-" % o["expect"]):
                return ("refuse:control-not-served:" + o["scenario"],
                        "%s: must be served by %s after/between the refusals, got %r (%s)" % (sc, o["expect"], o["reply"], o["end"]))
            if o["accepted"] != 1:
                return ("refuse:control-accepted-count:" + o["scenario"],
                        "%s: %d connections accepted at the endpoints for one served connection (%s)"
                        % (sc, o["accepted"], o.get("where", "")))
    for o in g["obs"]:
        if o.get("lookups") is not None and o["lookups"] != o.get("want_lookups"):
            sc = "%s mode, world %s, scenario %s" % (g["mode"], o["world"], o["scenario"])
            return ("refuse:lookup-calls:%d:%s" % (o["lookups"], o["scenario"]),
                    "%s: the configured Lookup was called %d time(s) for this connection, expected %d (one per sniffed, not "
                    "rejected hello, at its dial)" % (sc, o["lookups"], o.get("want_lookups")))
    return None


def impl_oracle(c):
    if c.get("crash"):
        return ("crash", "the code under test crashed: %s" % c["crash"][:300])
    s = c["stream"]
    if s == "race":
        return oracle_race(c["race"])
    if s == "regen":
        return oracle_regen(c["regen"])
    if s == "reject":
        r = c["reject"]
        if (r["name"] == "" or r["is_ip"]) and not r["rejected"]:
            return ("name-not-rejected", "isRejectedDomain(%r) is false" % bytes.fromhex(r["name"]))
        return None
    if s == "route":
        return oracle_route(c["route"])
    if s == "office":
        return oracle_office(c["office"])
    if s == "conns":
        return oracle_conns(c["conns"])
    if s == "ids":
        return oracle_ids(c["ids"])
    if s == "e2e":
        return oracle_e2e(c["e2e"])
    if s == "refuse":
        return oracle_refuse(c["refuse"])
    if s == "hist":
        return oracle_hist(c["hist"])
    return None


def run(ck):
    ncases = 900 if not ck.thorough else 12000
    rounds = 9 if not ck.thorough else 90
    ck.gen()
    built = ck.coq_make(MODEL + PROOFS, clean=ck.thorough)
    ck.obligations = ck.count_statements(STATEMENT_FILES)
    proofs_ok = all(built.get(x) for x in PROOFS)
    if proofs_ok and ck.audit("theories/Props/C02.v"):
        ck.discharged = list(ck.obligations)
    if ck.thorough and proofs_ok:
        ck.coqchk(["Verif.Props.C02"])
    code_tie.run(ck, "C02")

    binp = ck.build_harness("c02")
    cases = []
    if binp:
        cmd = [binp, "-seed", str(ck.seed), "-n", str(ncases), "-e2e", str(rounds)] + (["-big"] if ck.thorough else [])
        rc, out, err = vlib.sh2(cmd, timeout=2400)
        if rc != 0:
            ck.broken.append({"what": "harness run failed", "detail": err[-1500:]})
        for line in out.splitlines():
            if line.startswith("{"):
                cases.append(json.loads(line))

    if binp:
        # the fixed cases, every refusal path and one concurrent tagged round per tunnel mode once more under the
        # race detector: overlapping side dials of one endpoint, closes, re-registration
        rbin = ck.build_harness("c02", race=True)
        if rbin:
            rc, out, err = vlib.sh2([rbin, "-child", "-seed", str(ck.seed), "-n", "1", "-e2e", "3" if not ck.thorough else "18"],
                                    timeout=1200)
            ck.coverage["race_detector_e2e_cases"] = sum(1 for line in out.splitlines() if line.startswith("{"))
            blocks = [b for b in err.split("WARNING: DATA RACE")[1:] if "shanhu.io/g/" in b.split("==================")[0]]
            ck.coverage["race_detector_reports_outside_repo"] = err.count("WARNING: DATA RACE") - len(blocks)
            if blocks:
                ck.violation("impl:data-race", "the Go race detector reported a data race while concurrent connections "
                             "were dialled, served and closed", {"stderr": ("WARNING: DATA RACE" + blocks[0])[:3500]})
            elif rc != 0 and "DATA RACE" not in err:
                ck.broken.append({"what": "race-detector run failed", "detail": err[-1500:]})

    if ck.thorough and binp:
        # the racing office stream again under the race detector
        rbin = ck.build_harness("c02", race=True)
        if rbin:
            rc, out, err = vlib.sh2([rbin, "-child", "-seed", str(ck.seed), "-n", "150", "-only", "race"], timeout=1200)
            nrace = 0
            for line in out.splitlines():
                if line.startswith("{"):
                    c = json.loads(line)
                    c["i"] += 1000000
                    cases.append(c)
                    nrace += 1
            ck.coverage["race_detector_cases"] = nrace
            if "DATA RACE" in err:
                ck.violation("impl:data-race", "the Go race detector reported a data race while goroutines raced on the "
                             "mail office", {"stderr": err[-3000:]})
            elif rc != 0:
                ck.broken.append({"what": "race-detector run failed", "detail": err[-1500:]})

    for c in cases:
        s = c["stream"]
        if s == "e2e" and c.get("e2e"):
            e = c["e2e"]
            ck.count("e2e-" + e["mode"], key=("e2e", c["i"], e["mode"], e["endpoints"], e["conns"]), trivial=e["conns"] == 0)
            ck.coverage["e2e_connections"] = ck.coverage.get("e2e_connections", 0) + e["conns"]
            ck.coverage["e2e_bytes_echoed"] = ck.coverage.get("e2e_bytes_echoed", 0) + e["echoed"]
        elif s == "refuse" and c.get("refuse"):
            for m in c["refuse"].get("mis") or []:
                ck.count("refuse-mis-" + c["refuse"]["mode"], key=("mis", c["refuse"]["mode"], m["tag"]), trivial=False)
            for o in c["refuse"]["obs"]:
                ck.count("refuse-" + c["refuse"]["mode"], key=("refuse", c["refuse"]["mode"], o["world"], o["scenario"]),
                         trivial=False)
        else:
            body = c.get(s)
            ck.count(s, key=json.dumps(body, sort_keys=True), trivial=not body)
        bad = impl_oracle(c)
        if bad:
            ck.violation("impl:" + bad[0], bad[1],
                         {"case": c, "expected": "only the endpoint registered under the name the lookup returns; "
                                                 "nothing for rejected/refused/unconnected names; no crossing between "
                                                 "concurrent connections", "observed": c.get(s) or c.get("crash")})
    for c in cases[:1] + [x for x in cases if x["stream"] == "route"][:2] + [x for x in cases if x["stream"] == "office"][:1]:
        ck.sample(c)

    model_ok = all(built.get(x) for x in MODEL)
    if cases and model_ok:
        terms, owner = [], []
        for idx, c in enumerate(cases):
            for t in to_coq(c):
                terms.append(t)
                owner.append(idx)
        shard = 400

        def eval_shard(s):
            txt = ("From Coq Require Import List NArith String.\n"
                   "From Verif Require Import Lib.Bytes Sni.Wire Sni.Route Sni.Mailbox Sni.RouteCorr.\n"
                   "Import ListNotations.\nLocal Open Scope N_scope.\n"
                   "Definition cases : list rcase := [\n  " + ";\n  ".join(terms[s:s + shard]) + "\n].\n"
                   "Definition M := Eval vm_compute in mismatches cases.\nPrint M.\n")
            rc, out = ck.coq_eval("cases_%d" % (s // shard), txt)
            return s, (vlib.parse_coq_list_of_nat(out, "M") if rc == 0 else None), out

        import concurrent.futures
        with concurrent.futures.ThreadPoolExecutor(max_workers=8) as ex:
            results = list(ex.map(eval_shard, range(0, len(terms), shard)))
        mism = []
        for s, got, out in results:
            if got is None:
                ck.broken.append({"what": "correspondence evaluation failed", "detail": out[-1500:]})
                break
            mism += [s + i for i in got]
        ck.coverage["correspondence_cases"] = len(terms)
        ck.coverage["correspondence_mismatches"] = len(mism)
        for t in mism[:60]:
            c = cases[owner[t]]
            ck.broken.append({"what": "correspondence: model and implementation disagree",
                              "stream": c["stream"], "case_index": owner[t], "term": terms[t][:300]})
            if impl_oracle(c) is None:
                ck.violation("corr:%s" % c["stream"],
                             "the implementation behaves differently from the proved model on this case",
                             {"case": c, "model": "Sni/Route.v / Sni/Mailbox.v evaluated by vm_compute disagree",
                              "observed": c.get(c["stream"])})
    elif cases and not model_ok:
        ck.broken.append({"what": "model does not compile; correspondence not evaluated"})

    return ck.finish(
        level="proof",
        checker_cmd="bin/check C02 (gen -> make -C coq theories/Props/C02.vo -> Print Assumptions audit -> "
                    "harness c02 vs vm_compute of Sni/RouteCorr.v + e2e oracle)",
        trusted=["Coq 8.16.1 kernel + vm_compute",
                 "translator gen/sni_stream.go (isRejectedDomain, hostConn and Server.dial statements with conditions and "
                 "return expressions, suffix table, bodies)",
                 "harness/cmd/c02 + harness/cmd/c01/e2e + sniproxy/verif_stream.go + checks/c02.py comparison",
                 "modelled not verified: sync.Mutex atomicity of the three tables, Go select, net.ParseIP (parameter)"],
        rule="seeded generation (splitmix64): route = a real ClientHello through hostConn into Server.dial over a name "
             "battery (empty, IPv4/IPv6 literal forms, each rejected suffix +- one character, arbitrary bytes, mapped/"
             "unmapped/refused names) x random server configurations x the four lookup result shapes (fixed cases first); "
             "refuse = 32 end-to-end refusal/control scenarios per tunnel mode in three proxy worlds, each also evaluated "
             "by the emitted hostConn + Server.dial in Coq, incl. a world whose lookup answers change between connections; "
             "hist = one kept Server, lookup table and endpoint table changing between dials, Lookup calls counted per "
             "dial; the fixed cases and one tagged round per mode again under the race detector; office = random interleavings of dial programs "
             "with wrong-key/wrong-id/stale/duplicate deliveries; conns = random add/get/remove/shutdown; ids = "
             "concurrent next(); e2e = rounds of 8/24/64 concurrent tagged connections to 2-6 endpoints per tunnel mode, every backend "
             "answering with one Write of 32768/65536/100000 bytes of the connection's tag; "
             "non-trivial unless the operation list is empty; distinct = distinct case bodies",
        assumptions=["each method of sessionID/connMailOffice/connections is atomic (mutex held for the whole body)",
                     "the session-id counter does not wrap (2^64 dials per endpoint connection)",
                     "endpoints deliver side connections with the (session, key) of the request that caused them"])
