"""Semantic tie between the Go code and the Coq models (round 3, gen/gotrans.go).

For the pure decision functions listed in TIES the translator turns the Go
function body into an executable Gallina definition on every run
(coq/theories/Gen/Code<Area>.v); coq/theories/<Area>/CodeRefine*.v proves the
generated definition equal to the hand-written model FOR ALL INPUTS, and
coq/theories/Props/<ID>Code.v restates property theorems over the generated
definitions.  A check module calls

    code_tie.run(ck, "<ID>")

after its own build/audit.  That builds Props/<ID>Code.vo, audits it, appends
its statements to ck.obligations / ck.discharged and, when a refinement lemma
no longer checks, searches a counterexample INSIDE Coq: both sides are
executable, so <Area>/CodeCands*.v (which needs only the generated file and the
model) defines `cex_<f>` = the candidate inputs on which they disagree; the
first one is reported as violation "code:<f>" with the input and both results.
If the generated definition is not translatable (type go_unknown) or no
candidate disagrees, vlib's no-failing-input-found path applies.

A "code:<f>" violation claims a concrete failing input of the REAL code, so it
is only as good as the translation.  Two safeguards: (a) the violation text and
its replay carry the text of the generated Gallina definitions the comparison
ran (gen_<f> and every generated definition it calls), so a reader can hold it
against the Go source; (b) if that text contains a construct of NEEDS_REVIEW -
shapes next to Go's reference semantics that the translator accepts (two live
names for one slice storage, both read-only from there on) - the disagreement
is NOT reported as a violation: it is recorded under coverage/notes and the
failed lemma stays a broken obligation (vlib's no-failing-input-found path).
Everything else with reference semantics that is not modelled exactly (a
second name for a slice's storage with a later write/append/pass to a writing
callee, &x, closures, method values, named results, writes into a parameter's
storage that is not a declared state output, a range whose body writes the
ranged slice) makes the definition go_unknown with the reason in a comment.
"""
import json
import os
import re
import time

import vlib

# property -> area directory, CodeRefine / CodeCands file stems, translated functions
TIES = {
    "C12": {"area": "Caco", "refine": "CodeRefine", "cands": "CodeCands",
            "functions": ["caco3.makeRelPath", "caco3.makePath"]},
    "C05": {"area": "Kv", "refine": "CodeRefine", "cands": "CodeCands",
            "functions": ["pisces.kvMapKey", "pisces.keyHash", "pisces.partialKeys"]},
    "C02": {"area": "Sni", "refine": "CodeRefine", "cands": "CodeCands",
            "functions": ["sniproxy.isRejectedDomain"]},
    "C16": {"area": "Cred", "refine": "CodeRefine", "cands": "CodeCands",
            "functions": ["signer.inWindow", "signer.refreshTTL", "signer.Sessions.NeedRefresh",
                          "signer.Signer.Check", "signer.Signer.CheckHex",
                          "signer.Sessions.New (expiry: lifetime cap)", "signer.Sessions.Check",
                          "signer.TimeSigner.Check", "jwt.CheckTime", "roles.subtleStringEq",
                          "roles.checkPassCode", "jwt.checkHeader", "jwt.CheckClaimSet",
                          "signer.NewTimeSigner (window)", "signer.NewRSATimeSigner (window)"]},
    "C08": {"area": "Jsonx", "gen": "Lexing", "refine": "CodeRefine", "cands": "CodeCands",
            "functions": ["lexing.ErrorList.Add", "lexing.IsDigit/IsLetter/IsHexDigit/IsIdentLetter/IsWhite",
                          "lexing.lexLineComment", "lexing.lexBlockComment", "lexing.LexRawString",
                          "lexing.LexIdent", "lexing.LexNumber", "lexing.digitVal", "lexing.lexEscape",
                          "lexing.LexString"]},
    "C10": {"area": "Caco", "refine": "CodeRefineBuild", "cands": "CodeCandsBuild",
            "functions": ["caco3.sameFileStat"]},
    "C13": {"area": "Sni", "refine": "CodeRefineWire", "cands": "CodeCandsWire",
            "functions": ["sniproxy.decoder.read", "sniproxy.decoder.u8", "sniproxy.decoder.u64",
                          "sniproxy.decoder.bytes", "sniproxy.decoder.str", "sniproxy.decoder.end",
                          "sniproxy.decoder.hasErr/Err/count/overread/tailError/rest (translated)",
                          "sniproxy.encoder.write", "sniproxy.encoder.u8", "sniproxy.encoder.u64",
                          "sniproxy.encoder.bytes", "sniproxy.encoder.str"]},
    "C14": {"area": "Sni", "refine": "CodeRefineHello", "cands": "CodeCandsHello",
            "functions": ["sniproxy.TLSHelloConn.HelloInfo (record-length arithmetic up to recLen)"]},
    "C17": {"area": "Arch", "refine": "CodeRefine", "cands": "CodeCands",
            "functions": ["ziputil.inDir", "dock.inDir"]},
    "C18": {"area": "Obj", "refine": "CodeRefine", "cands": "CodeCands",
            "functions": ["objects.isValidKey", "hashutil.CheckReader.Read"]},
    "C20": {"area": "Aries", "refine": "CodeRefine", "cands": "CodeCands",
            "functions": ["aries.route.size", "aries.route.relRoute", "aries.C.ShiftRoute"]},
}


# constructs in a generated definition that make a found disagreement a matter for review, not a violation
NEEDS_REVIEW = ["(* alias-review"]


def _blocks(path):
    """name -> text of every top-level Definition/Fixpoint of a .v file (with its leading comment)."""
    try:
        src = open(path).read()
    except OSError:
        return {}
    out = {}
    starts = [m for m in re.finditer(r"^(?:\(\*[^\n]*\*\)\n)?(?:Definition|Fixpoint)\s+([A-Za-z0-9_']+)", src, re.M)]
    for i, m in enumerate(starts):
        end = starts[i + 1].start() if i + 1 < len(starts) else len(src)
        blk = src[m.start():end]
        stop = re.search(r"\.[ \t]*\n[ \t]*\n", blk)     # a definition ends with ".", then a blank line
        out[m.group(1)] = (blk[:stop.start() + 1] if stop else blk).strip()
    return out


def generated_text(area, cands, gen, fname):
    """The generated definitions cex_<fname> runs: closure of the identifiers it mentions through the
    candidates file and the generated file.  Returns (text, [names])."""
    cb = _blocks(os.path.join(vlib.COQ, "theories/%s/%s.v" % (area, cands)))
    gb = _blocks(os.path.join(vlib.COQ, "theories/Gen/Code%s.v" % gen))
    seen, todo, picked = set(), ["cex_" + fname], []
    while todo:
        n = todo.pop()
        if n in seen:
            continue
        seen.add(n)
        blk = gb.get(n) if n in gb else cb.get(n)
        if blk is None:
            continue
        if n in gb:
            picked.append(n)
        for w in re.findall(r"[A-Za-z_][A-Za-z0-9_']*", blk):
            if w not in seen and (w in gb or w in cb):
                todo.append(w)
    order = [n for n in gb if n in picked]
    return "\n\n".join(gb[n] for n in order), order


def functions(pid):
    """SEMANTIC_TIE of a property: the functions covered by a proved refinement lemma."""
    return list(TIES[pid]["functions"])


def show_coq_bytes(s):
    """Render `[47; 46]` byte lists inside a printed Coq value as quoted strings (for messages)."""
    def one(m):
        try:
            bs = bytes(int(x) for x in re.split(r"[;\s]+", m.group(1).replace("%N", "").strip()) if x)
        except ValueError:
            return m.group(0)
        return json.dumps(bs.decode("latin-1"))
    s = re.sub(r"\[((?:\d+(?:%N)?\s*;\s*)*\d+(?:%N)?)\]", one, s)
    return s.replace("[]", '""').replace("%N", "").replace("%Z", "")


def code_cex(ck, area, cands="CodeCands", timeout=600, gen=None):
    """Evaluate every `cex_<f>` of theories/<area>/<cands>.v with vm_compute; report disagreements.
    Returns the names of the functions for which an input was found."""
    cpath = "theories/%s/%s.v" % (area, cands)
    try:
        src = open(os.path.join(vlib.COQ, cpath)).read()
    except OSError:
        return []
    names = re.findall(r"^Definition\s+cex_([A-Za-z0-9_']+)", src, re.M)
    t = time.time()
    ck._ensure_makefile()
    rc, out = vlib.sh(["make", "-j16", cpath[:-2] + ".vo"], cwd=vlib.COQ, timeout=timeout)
    found = []
    res = {}

    def report(fname, text, replay):
        """violation code:<fname> with the generated definitions - unless they need review."""
        gtxt, gnames = generated_text(area, cands, gen or area, fname)
        review = [c for c in NEEDS_REVIEW if c in gtxt]
        replay = dict(replay, generated_definitions=gtxt, generated_names=gnames)
        if review:
            res[fname + " (needs review)"] = {
                "why": "the generated definition uses a construct next to Go's reference semantics (%s); the "
                       "disagreement is not claimed as a failing input of the real code" % ", ".join(review),
                "disagreement": text, "replay": replay}
            ck.notes.append("code_cex %s: a disagreement for %s was found but NOT reported as a violation: its "
                            "generated definition contains %s (review the translation in theories/Gen/Code%s.v "
                            "against the Go source); the refinement lemma stays a broken obligation. %s"
                            % (area, fname, ", ".join(review), gen or area, text[:400]))
            return
        found.append(fname)
        shown = gtxt if len(gtxt) <= 6000 else gtxt[:6000] + "\n... (cut; whole text in the replay)"
        ck.violation("code:" + fname,
                     text + "\nGenerated Gallina definition(s) this was computed with (theories/Gen/Code%s.v; "
                     "compare with the Go source before acting on the input):\n%s" % (gen or area, shown), replay)

    if rc != 0:
        ck.notes.append("code_cex %s: candidates do not build (a generated definition is untranslatable or "
                        "changed its type): %s" % (area, out[-400:]))
        res = {"error": "candidates do not build", "detail": out[-600:]}
    else:
        txt = ("From Coq Require Import String.\nFrom Coq Require Import List NArith ZArith Bool.\n"
               "From Verif Require Import Lib.GoLib %s.%s.\nImport ListNotations.\n"
               "Open Scope string_scope.\nOpen Scope list_scope.\nOpen Scope Z_scope.\n" % (area, cands))
        for n in names:
            txt += 'Goal True. idtac "@@%s". Abort.\nEval vm_compute in (hd_error cex_%s).\n' % (n, n)
        rc, out = ck.coq_eval("code_cex_%s_%s" % (area, cands), txt, timeout=timeout)
        if rc != 0:
            ck.notes.append("code_cex %s: evaluation failed: %s" % (area, out[-400:]))
            res = {"error": "evaluation failed", "detail": out[-600:]}
        else:
            parts = re.split(r"@@([A-Za-z0-9_']+)\n", out)
            for i in range(1, len(parts), 2):
                body = " ".join(parts[i + 1].split())
                m = re.match(r"=\s*(.*?)\s*:\s*option", body)
                val = m.group(1) if m else body
                if not (val.startswith("Some") or val.startswith("None")):
                    # evaluation is stuck on the opaque go_junk: on some candidate the generated definition
                    # reaches a Go panic site (slice/index out of range, division by zero) that the model
                    # does not have there.  The stuck term still shows the candidate.
                    m2 = re.search(r"\[\(((?:(?!\[\().){0,600}?go_junk.{0,300}?)\)\]", body)
                    shown = show_coq_bytes(m2.group(1)) if m2 else body[:300]
                    res[parts[i]] = "stuck on go_junk: " + shown[:400]
                    report(
                        parts[i],
                        "the Go code as translated now reaches a panic site (go_junk: slice/index out of range or "
                        "division by zero) on a candidate input where the proved model returns normally: "
                        "(input, (code result, model result)) = %s" % shown[:600],
                        {"function": parts[i], "coq_value": body[:2000],
                         "how": "vm_compute of hd_error cex_%s in %s" % (parts[i], cpath)})
                    continue
                res[parts[i]] = val
                if val.startswith("Some"):
                    report(
                        parts[i],
                        "the Go code as translated now and the proved model disagree on a concrete input: "
                        "(input, (code result, model result)) = %s" % show_coq_bytes(val[4:].strip()),
                        {"function": parts[i], "coq_value": val,
                         "how": "vm_compute of hd_error cex_%s in %s" % (parts[i], cpath)})
    ck.timings["code_cex"] = round(ck.timings.get("code_cex", 0) + time.time() - t, 2)
    ck.coverage.setdefault("code_cex", {})[area + "/" + cands] = res
    return found


def run(ck, pid):
    """Build + audit Props/<pid>Code.v, account its statements, search counterexamples on failure."""
    tie = TIES[pid]
    t = time.time()
    props = "theories/Props/%sCode.v" % pid
    refine = "theories/%s/%s.v" % (tie["area"], tie["refine"])
    target = props[:-2] + ".vo"
    nbroken = len(ck.broken)
    built = ck.coq_make([target], clean=ck.thorough)
    names = ck.count_statements([props, refine])
    ck.obligations = list(ck.obligations) + names
    ok = bool(built.get(target)) and len(ck.broken) == nbroken
    if ok and ck.audit(props):
        ck.discharged = list(ck.discharged) + names
    if ok and ck.thorough:
        ck.coqchk(["Verif.Props.%sCode" % pid])
    if not ok:
        code_cex(ck, tie["area"], tie["cands"], gen=tie.get("gen", tie["area"]))
    ck.coverage["semantic_tie"] = {"functions": tie["functions"], "proved": ok,
                                   "files": [props, refine, "theories/Gen/Code%s.v" % tie.get("gen", tie["area"])]}
    ck.trusted.append("translator gen/gotrans.go + Lib/GoLib.v: Go body -> Gallina on every run, proved equal to "
                      "the model for all inputs (SEMANTIC_TIE: %s)" % ", ".join(tie["functions"]))
    ck.timings["code_tie"] = round(time.time() - t, 2)
    return ok
