"""C01 — sniproxy: proxied byte streams are transparent in every tunnel mode (DESIGN.md §7 C01)."""
import json

import vlib

META = {
    "category": "proof",
    "text": "Coq theorems over executable models of every stage between a front connection and the connection an "
            "endpoint accepts - TLSHelloConn (peek then read, from C14), io.Copy, sideConn.Write's chunking loop, "
            "websocket messages, sideConn.Read's curReader machine, tunnel.Write/Read with the reply decoded in place, "
            "net.Pipe - composed into both directions of both stream mechanisms: for every payload, every way of "
            "splitting writes, every TCP segmentation, every behaviour of the message reader and every sequence of read "
            "buffer sizes, what has been read followed by what is in flight equals what was written, ClientHello first, "
            "identically in all modes; reads make progress while bytes are owed; and in the finite model of "
            "JoinConn's close propagation - with the policy 'a returning copy loop closes both connections' regenerated "
            "from the source - every execution after either side closes is at most eleven steps long and ends with both "
            "sides' pending reads and the reads issued afterwards returned (sideConn.Read forgets the end marker, so the "
            "later reads end only because the websocket gets closed: stated and proved as an explicit dependency); in the "
            "interleaving model of the endpoint's read handlers (buffer heap, free pool, any number of handler threads, "
            "any schedule) the bytes encoded into a read reply are the bytes read for that very call when the buffer is "
            "fresh per call or released only after the encoding - the ownership skeleton (where handleRead's buffer "
            "comes from, whether anything releases it inside the handler, whether the response aliases it, whether "
            "serveCall encodes afterwards) is extracted from the source - and a pooled buffer released before the "
            "encoding is refuted. Chunk size, buffer sizes and 19 function bodies are regenerated from /repo "
            "on every run; the stage models are tied to the code by differential runs evaluated in Coq, and a real "
            "Server+endpoint per tunnel mode carries position-dependent payloads of boundary sizes both ways; the front stage "
            "alone (TLSHelloConn on a scripted connection: a hello with bytes behind it in one segment) is read with "
            "every caller buffer size; eight concurrent connections through one endpoint per mode carry payloads in "
            "which every word names direction, connection and offset; sideConn.Read is driven across message boundaries "
            "(several frames per message, zero-length messages and frames, a connection lost in the middle of a message - "
            "proved: delivered bytes = arrived bytes, a cut is an error and never io.EOF) (oracle: each connection's bytes are a prefix of "
            "what was written on that very connection); the corpus runs once more under the Go race detector; with 1..300 sessions of one endpoint open and silent "
            "(along every channel capacity found in the code) one more active session must deliver both of its tagged "
            "streams, and a read that stays pending while 2^17 newer calls pass over the control connection must still "
            "deliver the application's reply (eviction rule and numeric literals of the RPC path extracted; proved that no "
            "step depends on id distance, a windowed eviction refuted) - proved for handlers that hold nothing shared across the blocking conn.Read (extracted), refuted for "
            "a bounded semaphore.",
    "note": "Partial (runtime): the interleaving of the two copy loops, TCP segmentation, websocket buffering and the "
            "message reader's chunking are schedule parameters of the model, not derived from the Go runtime; the close "
            "model's rules are a reading of the code justified rule by rule and observed end to end, not extracted; "
            "payload bytes are not copied into Coq (sizes, splits, kinds are) - byte equality on real data is the "
            "harness oracle; which call of a failing Write fails and when is a parameter (the real failure point "
            "depends on TCP). Trusted: Coq "
            "kernel + vm_compute, translator gen/sni_stream.go, harness c01 + sniproxy/verif_stream.go; gorilla/websocket, "
            "net.Pipe, io.Copy are modelled, not verified; no axioms.",
    "technique": "Coq proof (loop invariants, stage composition, reflection over a finite transition system) + go/ast "
                 "extraction of constants and bodies + vm_compute correspondence + end-to-end byte-equality oracle",
}

MODEL = ["theories/Sni/StreamCorr.vo"]
PROOFS = ["theories/Props/C01.vo"]
STATEMENT_FILES = ["theories/Props/C01.v", "theories/Sni/StreamGen.v"]


def nlist(xs):
    """list N with runs compressed"""
    out = []
    for x in xs:
        if out and out[-1][0] == x:
            out[-1][1] += 1
        else:
            out.append([x, 1])
    parts = []
    for v, n in out:
        parts.append("rep %d %d" % (v, n) if n >= 6 else "[" + ";".join([str(v)] * n) + "]")
    if not parts:
        return "[]"
    return "(" + " ++ ".join(parts) + ")%list"


def cbool(b):
    return "true" if b else "false"


def write_term(w):
    frames = "[" + "; ".join("(%d, %d)" % (0 if f["t"] == "bin" else 1, f["len"]) for f in w["frames"]) + "]"
    return "KWrite %s %s %s %s" % (nlist(w["sizes"]), cbool(w["close_write"]), nlist(w["ns"]), frames)


def script_term(script):
    ms = []
    for f in script:
        t = f["t"]
        if t in ("bin", "frag"):
            ms.append("MBin (zeros %d)" % f["len"])
        elif t == "text":
            ms.append("MText")
        elif t == "close":
            ms.append("MClose %d" % f.get("code", 0))
        elif t == "hold":
            pass                      # the websocket stays open and silent: nothing more arrives
        else:
            ms.append("MErr")
    return "[" + "; ".join(ms) + "]"


def read_term(r):
    total = sum(f["len"] for f in r["script"])
    bufs = r["bufs"]
    need = len(r["script"]) + 4 + sum(f["len"] // min(bufs) + 1 for f in r["script"])
    ms = [bufs[i % len(bufs)] for i in range(need)]
    ended = {"eof": 1, "error": 2}.get(r["ended"], 9)
    later = [{"data": 0, "eof": 1, "error": 2, "block": 3}.get(k, 9) for k in r.get("later") or []]
    return "KRead %s %s %d %d %s" % (script_term(r["script"]), nlist(ms), r["total"], ended, nlist(later))


def readf_term(g):
    ms = []
    cut = g["total"] - g["complete"]
    for f in g["script"]:
        t = f["t"]
        if t == "bin":
            ms.append("GBin [zeros %d] true" % f["len"])
        elif t == "frag":
            ms.append("GBin [%s] true" % "; ".join("zeros %d" % p for p in f.get("parts") or []))
        elif t == "cut":
            ms.append("GBin [zeros %d] false" % max(cut, 0))     # what had left the writer when the connection went
        elif t == "text":
            ms.append("GText")
        elif t == "close":
            ms.append("GClose %d" % f.get("code", 0))
        else:
            ms.append("GErr")
    bufs = g["bufs"]
    need = len(g["script"]) + 6 + sum(f["len"] // min(bufs) + 2 + len(f.get("parts") or []) for f in g["script"])
    rs = [bufs[i % len(bufs)] for i in range(need)]
    ended = {"eof": 1, "error": 2}.get(g["ended"], 9)
    later = [{"data": 0, "eof": 1, "error": 2, "block": 3}.get(k, 9) for k in g.get("later") or []]
    return "KReadF [%s] %s %d %d %s" % ("; ".join(ms), nlist(rs), g["total"], ended, nlist(later))


def reply_term(p):
    return "KReply %d %d %s %d %s" % (p["cap"], p["len"], cbool(p["n"] >= 0), max(p["n"], 0), cbool(p["aliased"]))


def pipe_term(p):
    need = len(p["chunks"]) + 2
    reads = [p["reads"][i % len(p["reads"])] for i in range(need)]
    return "KPipe %s %s %s" % (nlist(p["writes"]), nlist(reads), nlist(p["chunks"]))


def rle_list(xs):
    """a list of N as runs: (rep a n ++ [b] ++ ...)"""
    parts, i = [], 0
    while i < len(xs):
        j = i
        while j < len(xs) and xs[j] == xs[i]:
            j += 1
        parts.append("rep %d %d" % (xs[i], j - i) if j - i > 3 else "[" + ";".join(str(x) for x in xs[i:j]) + "]")
        i = j
    if not parts:
        return "[]"
    return "(" + " ++ ".join(parts) + ")%list"


def stage_hello(hello):
    """a padded synthetic hello: literal bytes with the long zero run of the padding as rep"""
    parts, i, lit, n = [], 0, 0, len(hello)
    while i < n:
        j = i
        while j < n and hello[j] == hello[i]:
            j += 1
        if j - i >= 64:
            if i > lit:
                parts.append(nlist(list(hello[lit:i])))
            parts.append("rep %d %d" % (hello[i], j - i))
            lit = j
        i = j
    if n > lit:
        parts.append(nlist(list(hello[lit:n])))
    return " ++ ".join(parts)


def to_coq(c):
    s = c["stream"]
    if c.get("crash"):
        return "KPipe [1] [1] []"        # never equal: a crash is a mismatch
    if s in ("write", "read") and c[s].get("skipped"):
        return None
    if s == "write":
        if max(c["write"]["sizes"] or [0]) > 200000:
            return None      # the model's loop is quadratic in the buffer: oracle only (byte equality, n)
        return write_term(c["write"])
    if s == "read":
        return read_term(c["read"])
    if s == "readf":
        g = c.get("readf")
        if not g or g.get("setup_err"):
            return None
        return readf_term(g)
    if s == "reply":
        return reply_term(c["reply"])
    if s == "pipe":
        return pipe_term(c["pipe"])
    if s == "wfail":
        w = c.get("wfail")
        if not w or w.get("err", "").startswith("setup:"):
            return None
        return "KWriteFail %s %s %s" % (nlist(w["sizes"]), nlist(w["ns"]), cbool(w["failed"]))
    if s == "stage":
        g = c["stage"]
        hello = bytes.fromhex(g["hello"])
        inp = "(%s ++ rep 0 %d)%%list" % (nlist(list(hello)) if len(hello) <= 400 else stage_hello(hello), g["trail"])
        runs = []
        for r in g["runs"]:
            if len(r["chunks"]) > 3000:
                continue                      # byte-sized buffers on a long stream: oracle only
            ended = 1 if r["ended"] == "eof" else 7
            runs.append("(%d, %s, %d)" % (r["m"], rle_list(r["chunks"]), ended))
        return "KStage %s %s [%s]" % (inp, nlist(g["sched"]), "; ".join(runs))
    if s == "e2e":
        e = c["e2e"]
        if e.get("skipped"):
            return None
        if e.get("setup_err"):
            return "KPipe [1] [1] []"
        later = e.get("later_reads") or []
        return "KClose %d %s %s %s" % (
            {"legacy": 0, "siding": 1, "sidingaddr": 2}[e["mode"]], cbool(e["closer"] == "client"),
            cbool(e["end_kind"] in ("eof", "error")),
            cbool(len(later) == 2 and all(k in ("eof", "error") for k in later)))
    return None


def impl_oracle(c):
    if c.get("crash"):
        return ("crash", "the code under test crashed: %s" % c["crash"][:300])
    s = c["stream"]
    if s in ("write", "read") and c[s].get("skipped"):
        return None
    if s == "write":
        w = c["write"]
        if w.get("peer_wait") == "timeout":
            return ("side-closewrite-hung", "after CloseWrite the peer saw no end marker within the bound")
        if any(e for e in w["errs"]):
            return ("side-write-error", "sideConn.Write failed on an open connection: %s" % w["errs"])
        if w["ns"] != w["sizes"]:
            return ("side-write-count", "sideConn.Write returned %s for buffers of %s bytes" % (w["ns"], w["sizes"]))
        if not w["content_ok"]:
            return ("side-write-bytes", "the binary messages received differ from the bytes written (sizes %s)" % w["sizes"])
        if w["close_write"] and not (w["frames"] and w["frames"][-1]["t"] == "text" and w["text_ok"]):
            return ("side-closewrite", "CloseWrite did not produce the text message after the data")
    elif s == "read":
        r = c["read"]
        if r["too_long"]:
            return ("side-read-overrun", "sideConn.Read returned more bytes than its buffer holds")
        if not r["content_ok"]:
            return ("side-read-bytes", "bytes read differ from the binary messages sent before the end marker "
                    "(script %s, buffers %s, %d read)" % ([(f["t"], f["len"]) for f in r["script"]], r["bufs"], r["total"]))
        if r["ended"] not in ("eof", "error"):
            return ("side-read-hung", "sideConn.Read did not end after the peer's end marker: %s" % r["ended"])
        closed = any(f["t"] in ("lost", "close") for f in r["script"])
        if closed and "block" in (r.get("later") or []):
            return ("side-later-read-hung", "the websocket was closed, yet a Read after the first end blocked: %s"
                    % r.get("later"))
    elif s == "readf":
        g = c.get("readf")
        if not g or g.get("setup_err"):
            return None
        script = [(f["t"], f["len"]) + ((tuple(f["parts"]),) if f.get("parts") else ()) for f in g["script"]]
        if g["too_long"]:
            return ("side-read-overrun", "sideConn.Read returned more bytes than its buffer holds")
        if not g["prefix_ok"]:
            return ("side-readf-bytes", "bytes read are not a prefix of the bytes of the messages sent (script %s, "
                    "buffers %s, %d read)" % (script, g["bufs"], g["total"]))
        if g["ended"] not in ("eof", "error"):
            return ("side-readf-hung", "sideConn.Read did not end after the stream's end (script %s): %s" % (script, g["ended"]))
        if g["total"] < g["complete"]:
            return ("side-readf-short", "the Reads ended (%s) after %d bytes although %d bytes of complete messages had "
                    "been sent before the end (script %s, buffers %s)" % (g["ended"], g["total"], g["complete"], script, g["bufs"]))
        has_cut = any(f["t"] == "cut" for f in g["script"])
        if has_cut and g["ended"] == "eof":
            return ("side-readf-cut-as-eof", "the connection was lost in the middle of a message, yet sideConn.Read reported "
                    "a clean end of stream (io.EOF) after %d bytes (script %s)" % (g["total"], script))
        if "block" in (g.get("later") or []):
            return ("side-readf-later-hung", "the websocket was closed, yet a Read after the first end blocked: %s (script %s)"
                    % (g.get("later"), script))
    elif s == "wfail":
        w = c.get("wfail")
        if not w:
            return None
        if w.get("hung"):
            return ("side-write-hung", "sideConn.Write did not return within the bound after the peer was gone")
        if not w["prefix_ok"]:
            return ("side-write-fail-bytes", "what the peer received before it went away is not a prefix of the bytes written")
        for i, n in enumerate(w["ns"]):
            last = i == len(w["ns"]) - 1
            if n < 0 or n > w["sizes"][i]:
                return ("side-write-fail-count", "Write of %d bytes returned n=%d" % (w["sizes"][i], n))
            if n < w["sizes"][i] and not (last and w["failed"]):
                return ("side-write-silent-short", "Write of %d bytes returned n=%d without an error" % (w["sizes"][i], n))
    elif s == "reply":
        p = c["reply"]
        if p["len"] <= p["cap"] and not (p["n"] == p["len"] and p["view_ok"]):
            return ("tunnel-read-view", "a read reply of %d bytes into a %d-byte buffer: n=%d, caller's buffer holds the "
                    "data: %s" % (p["len"], p["cap"], p["n"], p["view_ok"]))
        if p["len"] > p["cap"] and p["n"] >= 0:
            return ("tunnel-read-overrun", "a read reply of %d bytes was accepted into a %d-byte buffer" % (p["len"], p["cap"]))
    elif s == "deadline":
        for m in c["deadline"]["modes"]:
            if m.get("setup_err"):
                return ("e2e-setup", "could not run the deadline case (%s): %s" % (m["mode"], m["setup_err"]))
            bad = [x for x in m["steps"] if not x.endswith(": ok")]
            if bad or m["got"] != m["want"] or not m["prefix_ok"]:
                return ("write-after-cleared-deadline-failed:%s" % m["mode"],
                        "%s mode: the application behind Endpoint.Accept sets a deadline on its connection, uses it, clears it "
                        "with the zero time and goes on after the old deadline has passed; both sides stay open: %s; the client "
                        "received %d of %d bytes (steps: %s)" % (m["mode"], bad[0] if bad else "no step failed", m["got"],
                                                                 m["want"], m["steps"]))
    elif s == "longidle":
        g = c["longidle"]
        for m in g["modes"]:
            if m.get("setup_err"):
                return ("e2e-setup", "could not run the long idle connection (%s): %s" % (m["mode"], m["setup_err"]))
            if not m["before"]["complete"]:
                return ("e2e-longidle-setup:%s" % m["mode"], "the first exchange did not complete: %s" % m["before"])
            for name, d in (("client->application", m["after_c2a"]), ("application->client", m["after_a2c"])):
                if not d["complete"]:
                    return ("idle-connection-died:%s" % m["mode"],
                            "%s mode: one connection, a first exchange in both directions, then %d ms of silence with both "
                            "sides open, then both sides write again: %s, %d of %d bytes arrived (%s)"
                            % (m["mode"], g["idle_ms"], name, d["received"], d["sent"], d.get("err", "")))
    elif s == "age":
        g = c["age"]
        if g.get("setup_err"):
            return ("e2e-setup", "could not run the pending-read case: %s" % g["setup_err"])
        if not g["c2a"]["complete"]:
            return ("e2e-age-setup", "the application did not get the client's first bytes: %s" % g["c2a"])
        if g["call_errs"]:
            return ("e2e-age-calls-failed:%s" % g["mode"], "%d of %d calls over the control connection failed while a read was "
                    "pending (first: %s)" % (g["call_errs"], g["calls"], g.get("first_err")))
        d = g["reply"]
        if not d["prefix_ok"]:
            return ("e2e-age-corrupt:%s" % g["mode"], "the reply read after %d newer calls is not what the application wrote "
                    "(first wrong word at offset %d)" % (g["calls"], d["first_diff"]))
        if not d["complete"]:
            return ("e2e-age-read-lost:%s" % g["mode"],
                    "%s mode: one session, the application silent towards the client (its read call pending) while %d newer "
                    "calls passed over the same control connection in %d ms; neither side closed; then the application wrote "
                    "%d bytes: the client got %d of them and its read ended with %s"
                    % (g["mode"], g["calls"], g["ms"], d["sent"], d["received"], g.get("client_end") or d.get("err")))
    elif s == "idle":
        g = c["idle"]
        if g.get("setup_err"):
            return ("e2e-setup", "could not run the idle sessions: %s" % g["setup_err"])
        if g.get("open_err"):
            return ("e2e-idle-open:%s" % g["mode"], "%s mode: %s (%d probes done before)" % (g["mode"], g["open_err"], len(g["probes"])))
        for p in g["probes"]:
            for name, d in (("application->client", p["a2c"]), ("client->application", p["c2a"])):
                if not d["prefix_ok"]:
                    return ("e2e-idle-corrupt:%s" % g["mode"], "%s mode, %d open silent sessions of the endpoint, one active "
                            "session, %s: received bytes are not a prefix of what was written (first wrong word at offset %d%s)"
                            % (g["mode"], p["idle"], name, d["first_diff"], "; " + d["foreign"] if d.get("foreign") else ""))
                if not d["complete"]:
                    ok_before = [q["idle"] for q in g["probes"] if q["a2c"]["complete"] and q["c2a"]["complete"]]
                    return ("e2e-idle-starved:%s" % g["mode"],
                            "%s mode: with %d sessions of the endpoint open and silent, one more session whose application "
                            "and client both write: %s, %d of %d bytes arrived within 10 s although both sides stayed open (%s); "
                            "the same probe was complete with %s idle sessions"
                            % (g["mode"], p["idle"], name, d["received"], d["sent"], d.get("err", ""),
                               ok_before[-3:] if ok_before else "no smaller number of"))
    elif s == "conc":
        g = c["conc"]
        if g.get("setup_err"):
            return ("e2e-setup", "could not run the concurrent connections: %s" % g["setup_err"])
        n = len(g["conns"])
        for cc in g["conns"]:
            for name, d in (("application->client", cc["a2c"]), ("client->application", cc["c2a"])):
                if not d["prefix_ok"]:
                    if d.get("foreign"):
                        return ("e2e-conc-crossed:%s" % g["mode"],
                                "%s mode, %d concurrent connections through one endpoint, connection %d, %s: at offset %d "
                                "of its stream the reader got %s - bytes written on another connection"
                                % (g["mode"], n, cc["id"], name, d["first_diff"], d["foreign"]))
                    return ("e2e-conc-corrupt:%s" % g["mode"],
                            "%s mode, %d concurrent connections through one endpoint, connection %d, %s: received bytes "
                            "are not a prefix of what was written on that connection (first wrong word at offset %d of %d)"
                            % (g["mode"], n, cc["id"], name, d["first_diff"], d["sent"]))
        for cc in g["conns"]:
            for name, d in (("application->client", cc["a2c"]), ("client->application", cc["c2a"])):
                if not d["complete"]:
                    return ("e2e-conc-incomplete:%s" % g["mode"],
                            "%s mode, %d concurrent connections through one endpoint, connection %d, %s: %d of %d bytes "
                            "arrived while both sides were open (%s)"
                            % (g["mode"], n, cc["id"], name, d["received"], d["sent"], d.get("err", "")))
    elif s == "stage":
        g = c["stage"]
        if g["name"] != "stage.example":
            return ("stage-name", "TLSHelloConn alone: HelloInfo reported %r for a hello of %d bytes naming stage.example"
                    % (g["name"], g["hello_len"]))
        bad = [r for r in g["runs"] if not r["ok"] or r["ended"] != "eof"]
        if bad:
            r = min(bad, key=lambda r: r["m"])
            what = ("not a prefix of the bytes sent, first difference at offset %d" % r["first_diff"]
                    if r["first_diff"] >= 0 else "%d of %d bytes" % (r["total"], g["hello_len"] + g["trail"]))
            return ("stage-lost", "TLSHelloConn alone: a hello of %d bytes with %d byte(s) behind it, delivered as: %s; "
                    "HelloInfo, then Reads with a %d-byte buffer returned %s and ended with %s: %s (%d of the %d buffer "
                    "sizes tried fail; smallest shown)"
                    % (g["hello_len"], g["trail"], g["seg_desc"], r["m"], r["chunks"][:10], r["ended"], what,
                       len(bad), len(g["runs"])))
    elif s == "e2e":
        e = c["e2e"]
        if e.get("skipped"):
            return None
        if e.get("setup_err"):
            return ("e2e-setup", "could not run the connection: %s" % e["setup_err"])
        for name, d in (("client->application", e["c2a"]), ("application->client", e["a2c"])):
            if not d["prefix_ok"]:
                return ("e2e-corrupt:%s" % e["mode"], "%s, %s: received bytes are not a prefix of the bytes sent "
                        "(first difference at offset %d of %d; hello %d bytes; %s)"
                        % (e["mode"], name, d["first_diff"], d["sent"], e["hello_len"], e["splits"]))
            if not d["complete"]:
                return ("e2e-incomplete:%s" % e["mode"], "%s, %s: %d of %d bytes arrived while both sides were open (%s; %s)"
                        % (e["mode"], name, d["received"], d["sent"], d.get("err", ""), e["splits"]))
        other = "application" if e["closer"] == "client" else "client"
        if e["end_kind"] not in ("eof", "error"):
            return ("e2e-close-hung:%s" % e["mode"], "%s: after the %s closed, the %s's pending read did not end within "
                    "the bound (%s)" % (e["mode"], e["closer"], other, e["end_kind"]))
        later = e.get("later_reads") or []
        if any(k not in ("eof", "error") for k in later) or len(later) != 2:
            return ("e2e-later-read-hung:%s" % e["mode"], "%s: the %s closed first; the %s's pending read ended with %s, "
                    "but the reads it issued afterwards returned %s (each must end within 10 s)"
                    % (e["mode"], e["closer"], other, e["end_kind"], later))
        if e.get("late_write") not in ("ok", "error"):
            return ("e2e-late-write-hung:%s" % e["mode"], "%s: the %s closed first; a Write by the %s afterwards did not "
                    "return within the bound (%s)" % (e["mode"], e["closer"], other, e.get("late_write")))
    return None


def run(ck):
    ncases = 420 if not ck.thorough else 6000
    e2e_n = 60 if not ck.thorough else 1500
    ck.gen()
    built = ck.coq_make(MODEL + PROOFS, clean=ck.thorough)
    ck.obligations = ck.count_statements(STATEMENT_FILES)
    proofs_ok = all(built.get(x) for x in PROOFS)
    if proofs_ok and ck.audit("theories/Props/C01.v"):
        ck.discharged = list(ck.obligations)
    if ck.thorough and proofs_ok:
        ck.coqchk(["Verif.Props.C01"])

    # the age stream pushes call ids past every numeric bound the translator found in the RPC path
    # (and past every power of two up to 2^17)
    agecalls = (1 << 17) + 1000
    try:
        import re
        txt = open(vlib.COQ + "/theories/Gen/StreamConsts.v").read()
        blk = txt[txt.index("gen_rpc_int_literals"):]
        blk = blk[:blk.index("].")]
        for v in re.findall(r':(\d+)"', blk):
            if 256 <= int(v) <= (1 << 18):
                agecalls = max(agecalls, int(v) + 1000)
    except Exception:
        pass
    ck.coverage["age_calls"] = agecalls
    # a bound in time that is not one of the known ones and is short enough to wait for: one connection per mode
    # idles slightly longer than it (none on the deployed code, so no time is spent)
    KNOWN_DURATIONS = {"endpoint.go:10000", "endpoint.go:5000", "endpoint_client.go:3000", "endpoint_server.go:5000",
                       "side_conn.go:3000", "transport.go:3000"}
    idlems = 0
    try:
        blk = txt[txt.index("gen_sni_durations"):]
        blk = blk[:blk.index("].")]
        for item in re.findall(r'"([^"]+:\d+)"', blk):
            ms = int(item.rsplit(":", 1)[1])
            if item not in KNOWN_DURATIONS and 0 < ms < 20000:
                idlems = max(idlems, ms + 1500)
    except Exception:
        pass
    ck.coverage["long_idle_ms"] = idlems

    binp = ck.build_harness("c01")
    cases = []
    if binp:
        cmd = [binp, "-seed", str(ck.seed), "-n", str(ncases), "-e2e", str(e2e_n), "-big", "-agecalls", str(agecalls), "-idlems", str(idlems)] + (["-huge"] if ck.thorough else [])
        rc, out, err = vlib.sh2(cmd, timeout=2400)
        if rc != 0:
            ck.broken.append({"what": "harness run failed", "detail": err[-1500:]})
        for line in out.splitlines():
            if line.startswith("{"):
                cases.append(json.loads(line))

    if binp:
        # the corpus (front stage, concurrent connections, boundary sizes in every mode, both sides closing)
        # once more under the race detector
        rbin = ck.build_harness("c01", race=True)
        if rbin:
            rc, out, err = vlib.sh2([rbin, "-child", "-agecalls", "3000", "-seed", str(ck.seed), "-n", "1" if not ck.thorough else "120",
                                     "-e2e", "0" if not ck.thorough else "30"], timeout=1200)
            nrace = sum(1 for line in out.splitlines() if line.startswith("{"))
            ck.coverage["race_detector_cases"] = nrace
            # only reports whose stacks run through the repository: the harness itself reads a
            # handler's bookkeeping after an observation bound elapsed (seen under seeded changes)
            blocks = [b for b in err.split("WARNING: DATA RACE")[1:] if "shanhu.io/g/" in b.split("==================")[0]]
            ck.coverage["race_detector_reports_outside_repo"] = err.count("WARNING: DATA RACE") - len(blocks)
            if blocks:
                ck.violation("impl:data-race", "the Go race detector reported a data race while proxied connections were "
                             "transferring and closing", {"stderr": ("WARNING: DATA RACE" + blocks[0])[:3500]})
            elif rc != 0 and "DATA RACE" not in err:
                ck.broken.append({"what": "race-detector run failed", "detail": err[-1500:]})

    for c in cases:
        s = c["stream"]
        body = c.get(s)
        if body and body.get("skipped"):
            ck.coverage["e2e_skipped_after_timeouts"] = ck.coverage.get("e2e_skipped_after_timeouts", 0) + 1
            continue
        if s == "deadline" and body:
            for m in body["modes"]:
                ck.count("deadline-" + m["mode"], key=("deadline", m["mode"]), trivial=False)
        elif s == "longidle" and body:
            for m in body["modes"]:
                ck.count("longidle-" + m["mode"], key=("longidle", m["mode"], body["idle_ms"]), trivial=False)
        elif s == "age" and body:
            ck.count("age-" + body["mode"], key=("age", body["mode"], body["calls"]), trivial=False)
            ck.coverage["age_ms"] = body.get("ms")
        elif s == "idle" and body:
            for p in body.get("probes") or []:
                ck.count("idle-" + body["mode"], key=("idle", body["mode"], p["idle"]), trivial=False)
        elif s == "conc" and body:
            for cc in body.get("conns") or []:
                ck.count("conc-" + body["mode"], key=("conc", c["i"], cc["id"]), trivial=False)
                ck.coverage["e2e_bytes"] = ck.coverage.get("e2e_bytes", 0) + cc["c2a"]["received"] + cc["a2c"]["received"]
        elif s == "e2e" and body:
            ck.count("e2e-" + body["mode"], key=("e2e", c["i"]), trivial=body["c2a"]["sent"] == 0 and body["a2c"]["sent"] == 0)
            ck.coverage["e2e_bytes"] = ck.coverage.get("e2e_bytes", 0) + body["c2a"]["received"] + body["a2c"]["received"]
        else:
            ck.count(s, key=json.dumps(body, sort_keys=True), trivial=not body)
        bad = impl_oracle(c)
        if bad:
            small = dict(c)
            if s == "write" and c.get("write"):
                small["write"] = dict(c["write"], frames="%d frames" % len(c["write"]["frames"]))
            ck.violation("impl:" + bad[0], bad[1],
                         {"case": small, "expected": "received == sent[:len(received)], all of it while both sides are "
                                                     "open; the other side's read ends after a close",
                          "observed": small.get(s) or c.get("crash")})
    for c in [x for x in cases if x["stream"] == "e2e"][:3] + [x for x in cases if x["stream"] == "read"][:2]:
        ck.sample(c)

    model_ok = all(built.get(x) for x in MODEL)
    if cases and model_ok:
        terms, owner = [], []
        for idx, c in enumerate(cases):
            t = to_coq(c)
            if t:
                terms.append(t)
                owner.append(idx)
        shard = 120

        def eval_shard(s):
            txt = ("From Coq Require Import List NArith.\n"
                   "From Verif Require Import Lib.Bytes Sni.Wire Sni.Hello Sni.Stream Sni.SideRead Sni.StreamCorr.\n"
                   "Import ListNotations.\nLocal Open Scope N_scope.\n"
                   "Definition cases : list scase := [\n  " + ";\n  ".join(terms[s:s + shard]) + "\n].\n"
                   "Definition M := Eval vm_compute in mismatches cases.\nPrint M.\n")
            rc, out = ck.coq_eval("cases_%d" % (s // shard), txt)
            return s, (vlib.parse_coq_list_of_nat(out, "M") if rc == 0 else None), out

        import concurrent.futures
        with concurrent.futures.ThreadPoolExecutor(max_workers=8) as ex:
            results = list(ex.map(eval_shard, range(0, len(terms), shard)))
        mism = []
        for s, got, out in results:
            if got is None:
                ck.broken.append({"what": "correspondence evaluation failed", "detail": out[-1500:]})
                break
            mism += [s + i for i in got]
        ck.coverage["correspondence_cases"] = len(terms)
        ck.coverage["correspondence_mismatches"] = len(mism)
        for t in mism[:60]:
            c = cases[owner[t]]
            ck.broken.append({"what": "correspondence: model and implementation disagree",
                              "stream": c["stream"], "case_index": owner[t], "term": terms[t][:300]})
            if impl_oracle(c) is None:
                small = dict(c)
                if c["stream"] == "write" and c.get("write"):
                    small["write"] = dict(c["write"], frames=[(f["t"], f["len"]) for f in c["write"]["frames"]][:40])
                ck.violation("corr:%s" % c["stream"],
                             "the implementation behaves differently from the proved model on this case",
                             {"case": small, "model": "Sni/Stream.v evaluated by vm_compute disagrees",
                              "observed": small.get(c["stream"])})
    elif cases and not model_ok:
        ck.broken.append({"what": "model does not compile; correspondence not evaluated"})

    return ck.finish(
        level="proof",
        checker_cmd="bin/check C01 (gen -> make -C coq theories/Props/C01.vo -> Print Assumptions audit -> "
                    "harness c01 vs vm_compute of Sni/StreamCorr.v + e2e byte-equality oracle)",
        trusted=["Coq 8.16.1 kernel + vm_compute",
                 "translator gen/sni_stream.go (chunk size, buffer sizes, read cap, 19 bodies)",
                 "harness/cmd/c01 + harness/cmd/c01/e2e + sniproxy/verif_stream.go + checks/c01.py comparison",
                 "modelled not verified: gorilla/websocket message framing and reader, net.Pipe, io.Copy, TCP"],
        rule="seeded generation (splitmix64): write = 1-4 sideConn.Writes of boundary sizes (0,1,4095..4097,8191..8193,"
             "32767..32769,65535..65537, 1 MiB+3) then CloseWrite or loss; read = scripts of binary (incl. empty and "
             "fragmented) messages ended by text / close codes / loss, with data after the end marker, read with 1-4 "
             "cyclic buffer sizes; reply = read replies into smaller/equal/larger caller buffers; pipe = net.Pipe write/"
             "read size mixes; e2e = per tunnel mode a real or synthetic ClientHello (up to a full record) + payloads of "
             "the boundary sizes in both directions at once with random write splits (also inside the hello) and read "
             "sizes, then client or application closes and the surviving side issues the pending read, two more reads "
             "and a write, each bounded by 10 s; after three bound hits of a mode or stream the rest of it is skipped; corpus of boundary sizes per mode first; non-trivial unless both "
             "payloads are empty; distinct = distinct case bodies",
        assumptions=["a websocket delivers whole messages in order; net.Pipe and TCP deliver bytes in order",
                     "the endpoint is honest (read replies no longer than asked for)",
                     "Siding and Siding+DialWithAddr differ only in the address (C02), not in any stream stage"])
