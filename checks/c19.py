"""C19 — dags: cycle detection, closure, critical edges and layout (DESIGN.md §7 C19)."""
import json
import os
import re
from concurrent.futures import ThreadPoolExecutor

import vlib

META = {
    "category": "proof",
    "text": "Coq theorems over an executable model of shanhu.io/g/dags, for every finite directed graph (self-loops, "
            "duplicate list entries and dangling targets included) and every map iteration order (an arbitrary "
            "permutation oracle): CheckDAG/NewMap accept exactly the graphs whose targets exist and that have no "
            "cycle, never reach the 'should find a circle' panic, a reported cycle is a closed walk no longer than "
            "any closed walk of the graph and its length does not depend on the iteration order; for accepted "
            "graphs the layers are unique, every predecessor is in a strictly lower layer and every node in its "
            "lowest possible layer, AllIns/AllOuts are exactly reachability, CritIns/CritOuts exactly the "
            "transitive reduction, pushTight terminates without its panic and keeps every edge left to right below "
            "Nlayer, LayoutMap puts no two nodes on one coordinate, inside width x height, TopoSort is a "
            "topological order, Reverse twice gives the sorted edge lists back (plus dangling names as nodes); Remove / "
            "SubGraph / Rename return exactly the induced resp. renamed edges and the checker's verdict carries over to "
            "them, Closure returns the map of the given nodes plus everything between two of them and never reaches "
            "its panic for names that are nodes.  The "
            "layout theorems are instantiated with the sort orders, reserved slots and snapNearBy arms regenerated "
            "from /repo on every run; the text of every other modelled function is compared with the text the model "
            "follows; the model is run inside Coq (vm_compute, two iteration orders) against the real package on "
            "every graph with <= 3 nodes (dangling targets included), all 65 536 graphs on 4 nodes and seeded larger "
            "graphs; thorough: all 2^25 graphs on 5 nodes against in-harness oracles, all 29 281 acyclic ones and a "
            "sample of the rest through the model, coqchk.",
    "note": "Trusted: Coq kernel + vm_compute; translator gen/dags.go; harness/cmd/c19 and checks/c19.py (names to "
            "ranks, comparison, independent textbook oracles); Go's sort.Sort and map semantics are modelled (sets as "
            "duplicate-free lists, iteration order as a permutation oracle in makeLayers/minCircle/buildAlls/Reverse; "
            "the loops of pushTight/LayoutMap are order-independent by construction and modelled in stored order); "
            "RevLayout, a second LayoutMap on the same Map, AllInsSorted and the JSON output are checked by the "
            "implementation-only oracle, not modelled; no axioms.",
    "technique": "Coq proof (invariants of Kahn layering, level-order search, closure propagation, slot reservation; "
                 "induction) + go/ast translation of sort orders and layout constants + vm_compute correspondence on "
                 "exhaustive small scopes + independent graph oracles",
}

MODEL = ["theories/Dag/DagCorr.vo"]
PROOFS = ["theories/Props/C19.vo"]
STATEMENT_FILES = ["theories/Props/C19.v", "theories/Dag/DagGen.v"]


# ----------------------------------------------------------------- the graph of a case

def case_graph(c):
    """(keys, adj) with adj: key id -> list of target ids (as given)."""
    if c.get("f") == "m":
        n = c.get("n", 0)
        mask = c.get("mask", 0)
        keys = list(range(n))
        adj = {i: [j for j in range(n) if mask >> (i * n + j) & 1] for i in range(n)}
        return keys, adj
    keys = c.get("keys") or []
    adj = {k: list(a) for k, a in zip(keys, c.get("adj") or [])}
    return keys, adj


# ----------------------------------------------------------------- independent oracles

def topo_or_none(keys, adj):
    """Kahn with a worklist on the de-duplicated graph; None if cyclic."""
    outs = {k: set(adj[k]) for k in keys}
    indeg = {k: 0 for k in keys}
    for k in keys:
        for t in outs[k]:
            indeg[t] += 1
    work = [k for k in keys if indeg[k] == 0]
    order = []
    while work:
        u = work.pop()
        order.append(u)
        for t in outs[u]:
            indeg[t] -= 1
            if indeg[t] == 0:
                work.append(t)
    return order if len(order) == len(keys) else None


def girth(keys, adj):
    """Length of a shortest cycle (self loop = 1), by BFS from every node."""
    outs = {k: set(adj[k]) for k in keys}
    best = None
    for s in keys:
        if s in outs[s]:
            return 1
        dist = {s: 0}
        frontier = [s]
        found = None
        while frontier and found is None:
            nxt = []
            for u in frontier:
                for t in outs[u]:
                    if t == s:
                        found = dist[u] + 1
                        break
                    if t not in dist:
                        dist[t] = dist[u] + 1
                        nxt.append(t)
                if found is not None:
                    break
            frontier = nxt
        if found is not None and (best is None or found < best):
            best = found
    return best


def reach_sets(keys, adj, order):
    """reach[u] = nodes reachable from u by a path of length >= 1 (DAG)."""
    outs = {k: set(adj[k]) for k in keys}
    reach = {}
    for u in reversed(order):
        r = set()
        for t in outs[u]:
            r.add(t)
            r |= reach[t]
        reach[u] = r
    return reach


def facts(keys, adj, order):
    """Textbook facts of an accepted graph: layer, nlayer, reach, rin, crit outs, crit ins."""
    outs = {k: set(adj[k]) for k in keys}
    insets = {k: set() for k in keys}
    for k in keys:
        for t in outs[k]:
            insets[t].add(k)
    layer = {}
    for u in order:
        layer[u] = 1 + max((layer[p] for p in insets[u]), default=-1)
    nlayer = 1 + max(layer.values(), default=-1)
    reach = reach_sets(keys, adj, order)
    rin = {k: set() for k in keys}
    for u in keys:
        for t in reach[u]:
            rin[t].add(u)
    crit = {}
    for u in keys:
        mids = [w for w in reach[u] if reach[w]]        # only a node that reaches something can bridge
        crit[u] = sorted(v for v in outs[u] if not any(v in reach[w] for w in mids if w != v))
    critin = {k: [] for k in keys}
    for u in sorted(keys):
        for v in crit[u]:
            critin[v].append(u)
    return outs, insets, layer, nlayer, reach, rin, crit, critin


def verdict_of(keys, adj):
    keyset = set(keys)
    if any(t not in keyset for k in keys for t in adj[k]):
        return "missing"
    return "ok" if topo_or_none(keys, adj) is not None else "circle"


def derived_ok(got, exp_adj, what, bad):
    """got: observed derived graph; exp_adj: dict key -> list (expected, in order)."""
    g = {e["k"]: e["adj"] for e in got.get("g") or []}
    if g != exp_adj or len(got.get("g") or []) != len(exp_adj):
        bad.append(("ops-" + what, "%s returned %r, expected %r" % (what, g, exp_adj)))
        return
    want = verdict_of(list(exp_adj), exp_adj)
    if got.get("v") != want:
        bad.append(("ops-" + what + "-verdict", "CheckDAG on the result of %s says %r, it is %r" % (what, got.get("v"), want)))


def ops_oracle(c, bad):
    """Remove / SubGraph / Rename / Closure / a second LayoutMap / AllInsSorted / LayoutJSON, read off
    what they are documented to return and the property's own clauses applied to the results."""
    o = c["obs"]
    oo = o.get("ops")
    oi = c.get("ops")
    if not oi or not oo:
        return
    keys, adj = case_graph(c)
    keyset = set(keys)
    x = oi["rm"]
    derived_ok(oo["rm"], {k: [t for t in adj[k] if t != x] for k in keys if k != x}, "Remove", bad)
    S = set(oi["sub"]) & keyset
    derived_ok(oo["sub"], {k: [t for t in adj[k] if t in S] for k in keys if k in S}, "SubGraph", bad)
    if not oo.get("insame"):
        bad.append(("ops-input-modified", "Remove/SubGraph/Rename changed the graph they were called on"))
    ren = oo["ren"]
    to = {k: oi["ren"][p] for p, k in enumerate(keys) if p < len(oi["ren"])}
    missing = any(t not in keyset for k in keys for t in adj[k])
    if 0 <= oi["renerr"] < len(keys):
        if ren.get("e") != "ferr" or not ren.get("nil"):
            bad.append(("ops-Rename-error", "the callback failed%s, Rename returned %r (graph nil: %s)"
                        % (" (and returned a name too)" if oi.get("errname") else "", ren.get("e") or "a graph", bool(ren.get("nil")))))
    elif missing:
        if ren.get("e") != "missing" or not ren.get("nil"):
            bad.append(("ops-Rename-error", "a list names something that is not a node, Rename returned %r" % (ren.get("e") or "a graph")))
    elif ren.get("e"):
        bad.append(("ops-Rename-error", "Rename failed (%s) on a graph whose names are all nodes" % ren["e"]))
    elif oi.get("inj"):
        exp = {to[k]: sorted(to[t] for t in adj[k]) for k in keys}
        got = {e["k"]: e["adj"] for e in ren.get("g") or []}
        if got != exp:
            bad.append(("ops-Rename", "Rename returned %r, expected %r" % (got, exp)))
        elif ren.get("v") != o.get("v"):
            bad.append(("ops-Rename-verdict", "the renamed graph is judged %r, the graph itself %r" % (ren.get("v"), o.get("v"))))
    else:
        got = {e["k"]: e["adj"] for e in ren.get("g") or []}
        pre = {}
        for k in keys:
            pre.setdefault(to[k], []).append(sorted(to[t] for t in adj[k]))
        if set(got) != set(pre) or any(got[k] not in pre[k] for k in got):
            bad.append(("ops-Rename", "Rename (two nodes with one new name) returned %r" % got))
    # a call sequence on ONE *Graph that the caller edits in between: every result against the
    # content the graph has at that moment
    for n, st in enumerate(oo.get("gseq") or []):
        pre = "graph sequence %s, step %d (%s)" % (oi.get("gseq"), n, st["op"])
        if st.get("bad", "").startswith("panic"):
            bad.append(("gseq-panic", "%s: %s" % (pre, st["bad"][:120])))
            break
        ck_, ca = [e["k"] for e in st.get("cur") or []], {e["k"]: e["adj"] for e in st.get("cur") or []}
        names = set(ck_) | {t for k in ck_ for t in ca[k]}
        if not st.get("same", True):
            bad.append(("gseq-input-modified", "%s changed the graph it was called on" % pre))
            break
        if st["op"] == "R":
            want = {t: sorted(k for k in ck_ for x in ca[k] if x == t) for t in names}
            got = {e["k"]: e["adj"] for e in st.get("got") or []}
            if got != want:
                bad.append(("gseq-reverse", "%s: Reverse returned %r, the reverse of the graph as it is now is %r" % (pre, got, want)))
                break
        elif st["op"] == "T":
            want = {t: sorted(ca.get(t, [])) for t in names}
            got = {e["k"]: e["adj"] for e in st.get("got") or []}
            if got != want:
                bad.append(("gseq-reverse-twice", "%s: reversing twice gave %r, the graph is %r" % (pre, got, want)))
                break
        elif st["op"] == "V":
            rk = sorted(names)
            radj = {t: sorted(k for k in ck_ for x in ca[k] if x == t) for t in names}
            want = verdict_of(rk, radj)
            if st.get("v") != want:
                bad.append(("gseq-revlayout-verdict", "%s: RevLayout says %r, the graph as it is now is %r" % (pre, st.get("v"), want)))
                break
            if st.get("bad"):
                bad.append(("gseq-revlayout", "%s: %s" % (pre, st["bad"])))
                break
    if o.get("v") != "ok":
        return
    order = topo_or_none(keys, adj)
    if order is None:
        bad.append(("accepted-cyclic", "the graph has a cycle (or an edge to a missing node) but was accepted"))
        return
    outs, insets, layer, nlayer, reach, rin, crit, critin = facts(keys, adj, order)
    # AllInsSorted: the indirect inputs in layer order, names breaking ties
    if 0 <= oi["aisof"] < len(keys):
        k = keys[oi["aisof"]]
        want = sorted(rin[k], key=lambda u: (layer[u], u))
        if oo.get("ais") != want:
            bad.append(("ops-AllInsSorted", "AllInsSorted(%d) = %r, expected %r" % (k, oo.get("ais"), want)))
    # a second LayoutMap on the same Map is a layout again
    re_ = {n["k"]: n for n in oo.get("re") or []}
    w, h = oo.get("rewh", [0, 0])
    if set(re_) != keyset or w != nlayer or not oo.get("resets"):
        bad.append(("ops-relayout", "second LayoutMap: node set, width %r (layers %d) or node sets changed" % (w, nlayer)))
    else:
        pos = {}
        for k in keys:
            xk, yk = re_[k]["x"], re_[k]["y"]
            if not (0 <= xk < w and 0 <= yk < h):
                bad.append(("ops-relayout", "second LayoutMap: node %d at (%d,%d) outside %dx%d" % (k, xk, yk, w, h)))
            if (xk, yk) in pos:
                bad.append(("ops-relayout", "second LayoutMap: nodes %d and %d both at (%d,%d)" % (pos[(xk, yk)], k, xk, yk)))
            pos[(xk, yk)] = k
        for u in keys:
            if any(not re_[u]["x"] < re_[v]["x"] for v in outs[u]):
                bad.append(("ops-relayout", "second LayoutMap: an edge from %d is not strictly left to right" % u))
                break
    if oo.get("jsonbad"):
        bad.append(("ops-json", "LayoutJSON differs from the view: %s" % oo["jsonbad"]))
    # a call sequence on ONE Map object: every layout it produces is a layout of the Map's orientation
    # at that moment (edges strictly left to right, distinct coordinates, inside width x height)
    for n, st in enumerate(oo.get("seq") or []):
        pre = "call sequence %s, step %d (%s, map %s)" % (oi.get("seq"), n, st["op"], "reversed" if st.get("flip") else "as built")
        if st.get("bad"):
            bad.append(("seq-panic", "%s: %s" % (pre, st["bad"][:120])))
            break
        if st["op"] in ("Y", "V", "L"):
            nd = {x["k"]: x for x in st.get("nodes") or []}
            w, h = st.get("wh", [0, 0])
            if set(nd) != keyset or w != nlayer:
                bad.append(("seq-layout", "%s: node set or width %r (layers %d)" % (pre, w, nlayer)))
                break
            pos = {}
            ok = True
            for k in keys:
                xk, yk = nd[k]["x"], nd[k]["y"]
                if not (0 <= xk < w and 0 <= yk < h):
                    bad.append(("seq-layout", "%s: node %d at (%d,%d) outside %dx%d" % (pre, k, xk, yk, w, h)))
                    ok = False
                    break
                if (xk, yk) in pos:
                    bad.append(("seq-layout", "%s: nodes %d and %d both at (%d,%d)" % (pre, pos[(xk, yk)], k, xk, yk)))
                    ok = False
                    break
                pos[(xk, yk)] = k
            for u in keys:
                if not ok:
                    break
                for v in outs[u]:
                    a, b = (v, u) if st.get("flip") else (u, v)      # an edge of the current orientation
                    if not nd[a]["x"] < nd[b]["x"]:
                        bad.append(("seq-layout", "%s: edge %d->%d of the map's current orientation is drawn right to left "
                                                  "(x %d -> %d)" % (pre, a, b, nd[a]["x"], nd[b]["x"])))
                        ok = False
                        break
            if not ok:
                break
        elif st["op"] == "S":
            lay = {}
            for i, l in enumerate(st.get("layers") or []):
                for v in l:
                    lay[v] = i
            if set(lay) != keyset or any(not (lay[v] < lay[u] if st.get("flip") else lay[u] < lay[v]) for u in keys for v in outs[u]):
                bad.append(("seq-layers", "%s: SortedLayers does not order the map's current orientation" % pre))
                break
    # Closure
    clo = oi["clo"]
    if any(t not in keyset for t in clo):
        if not oo.get("clobad"):
            bad.append(("ops-Closure", "Closure accepted a name that is not a node"))
        return
    if oo.get("clobad"):
        bad.append(("ops-Closure", "Closure of nodes %r: %s" % (clo, oo["clobad"][:120])))
        return
    anc, desc = set(), set()
    for t in clo:
        anc |= rin[t]
        desc |= reach[t]
    cs = set(clo) | (anc & desc)
    ckeys = sorted(cs)
    cadj = {k: sorted(t for t in outs[k] if t in cs) for k in ckeys}
    corder = topo_or_none(ckeys, cadj)
    if corder is None:
        return
    couts, cins, clayer, cnl, creach, crin, ccrit, ccritin = facts(ckeys, cadj, corder)
    got = {n["k"]: n for n in oo.get("clo") or []}
    if set(got) != cs:
        bad.append(("ops-Closure", "Closure(%r) has nodes %r; the nodes and what lies between them are %r"
                    % (clo, sorted(got), ckeys)))
        return
    for k in ckeys:
        n = got[k]
        if n["ins"] != sorted(cins[k]) or n["outs"] != sorted(couts[k]) or n["ai"] != sorted(crin[k]) or \
                n["ao"] != sorted(creach[k]) or n["ci"] != ccritin[k] or n["co"] != ccrit[k]:
            bad.append(("ops-Closure", "Closure(%r): the sets of node %d are not those of the induced sub-graph" % (clo, k)))
            break
    want_n = [sum(len(cadj[k]) for k in ckeys), sum(len(ccrit[k]) for k in ckeys), cnl]
    if list(oo.get("clon") or []) != want_n:
        bad.append(("ops-Closure", "Closure(%r): Nedge/Ncrit/Nlayer %r, expected %r" % (clo, oo.get("clon"), want_n)))


def impl_oracle(c):
    """Reads the property off the observed results only.  Returns a list of
    (class, description)."""
    bad = impl_oracle_main(c)
    if c["obs"].get("v") != "crash":
        ops_oracle(c, bad)
    return bad


def impl_oracle_main(c):
    o = c["obs"]
    bad = []
    if o.get("v") == "crash":
        why = o.get("crash", "")
        kind = "timeout" if "timeout" in why else ("out-of-memory" if "out of memory" in why else "panic")
        return [("no-result:" + kind, "the package returned no result on this graph: %s" % why[:200])]
    keys, adj = case_graph(c)
    keyset = set(keys)
    missing = any(t not in keyset for k in keys for t in adj[k])
    order = None if missing else topo_or_none(keys, adj)
    expect = "missing" if missing else ("ok" if order is not None else "circle")
    if o.get("v") != expect:
        bad.append(("verdict", "CheckDAG says %r, the graph is %r" % (o.get("v"), expect)))
        return bad
    if not o.get("agree"):
        bad.append(("verdict-disagree", "CheckDAG, NewMap and TopoSort classify the graph differently"))

    # Graph.Reverse twice
    universe = set(keys)
    for k in keys:
        universe |= set(adj[k])
    exp_r2 = {k: sorted(adj.get(k, [])) for k in universe}
    if o.get("r2names"):
        bad.append(("reverse", "Reverse twice introduced names %r" % o["r2names"]))
    if o.get("r2same"):
        if missing or any(adj[k] != sorted(adj[k]) for k in keys):
            bad.append(("reverse", "Reverse twice reported identical although it cannot be"))
    else:
        got = {e["k"]: e["adj"] for e in o.get("r2", [])}
        if got != exp_r2:
            bad.append(("reverse", "Reverse twice does not give the graph back (as sorted lists, plus "
                                   "dangling names as nodes)"))
        elif not missing and all(adj[k] == sorted(adj[k]) for k in keys):
            bad.append(("reverse", "Reverse twice reported different although equal"))

    if expect == "circle":
        cyc = o.get("c") or []
        gl = girth(keys, adj)
        if not cyc or any(x not in keyset for x in cyc):
            bad.append(("cycle-names", "the reported cycle names something that is not a node: %r" % o.get("msg", cyc)))
        else:
            ok = all(cyc[(i + 1) % len(cyc)] in adj[cyc[i]] for i in range(len(cyc)))
            if not ok:
                bad.append(("cycle-not-real", "the reported cycle %r does not follow edges" % cyc))
            if len(cyc) != gl:
                bad.append(("cycle-not-minimal", "reported cycle has length %d, the shortest has %d" % (len(cyc), gl)))
        if o.get("c2") != gl:
            bad.append(("cycle-not-minimal", "NewMap's cycle has length %r, the shortest has %d" % (o.get("c2"), gl)))
        return bad
    if expect == "missing":
        return bad

    # accepted graph
    outs = {k: set(adj[k]) for k in keys}
    insets = {k: set() for k in keys}
    for k in keys:
        for t in outs[k]:
            insets[t].add(k)
    layer = {}
    for u in order:
        layer[u] = 1 + max((layer[p] for p in insets[u]), default=-1)
    nlayer = 1 + max(layer.values(), default=-1)
    reach = reach_sets(keys, adj, order)
    rin = {k: set() for k in keys}
    for u in keys:
        for t in reach[u]:
            rin[t].add(u)
    crit = {}
    for u in keys:
        mids = [w for w in reach[u] if reach[w]]        # only a node that reaches something can bridge
        crit[u] = sorted(v for v in outs[u] if not any(v in reach[w] for w in mids if w != v))
    critin = {k: [] for k in keys}
    for u in sorted(keys):
        for v in crit[u]:
            critin[v].append(u)

    if o.get("nlayer") != nlayer:
        bad.append(("layers", "Nlayer %r, longest path has %d nodes" % (o.get("nlayer"), nlayer)))
    got_layer = {}
    for i, l in enumerate(o.get("layers") or []):
        for v in l:
            if v in got_layer:
                bad.append(("layers", "node %d is in two layers" % v))
            got_layer[v] = i
    if got_layer != layer:
        bad.append(("layers", "layers differ from 1 + highest predecessor layer"))
    for u in keys:
        for v in outs[u]:
            if not got_layer.get(u, -1) < got_layer.get(v, -1):
                bad.append(("layers", "edge %d->%d does not go to a higher layer" % (u, v)))
                break
    if o.get("nedge") != sum(len(adj[k]) for k in keys):
        bad.append(("counts", "Nedge %r" % o.get("nedge")))
    if o.get("ncrit") != sum(len(crit[k]) for k in keys):
        bad.append(("counts", "Ncrit %r" % o.get("ncrit")))
    nodes = {n["k"]: n for n in o.get("nodes") or []}
    if set(nodes) != keyset:
        bad.append(("nodes", "Map.Nodes is not the node set"))
        return bad
    pos = {}
    for k in keys:
        n = nodes[k]
        if n["ins"] != sorted(insets[k]) or n["outs"] != sorted(outs[k]):
            bad.append(("ins-outs", "Ins/Outs of %d" % k))
        if n["ai"] != sorted(rin[k]) or n["ao"] != sorted(reach[k]):
            bad.append(("closure", "AllIns/AllOuts of %d differ from reachability" % k))
        if n["ci"] != critin[k] or n["co"] != crit[k]:
            bad.append(("crit", "CritIns/CritOuts of %d differ from the transitive reduction" % k))
        if n["vci"] != critin[k] or n["vco"] != crit[k]:
            bad.append(("crit", "MapNodeView crit lists of %d differ from the transitive reduction" % k))
        x, y = n["x"], n["y"]
        if not (0 <= x < o.get("w", 0) and 0 <= y < o.get("h", 0)):
            bad.append(("layout-bounds", "node %d at (%d,%d) outside %dx%d" % (k, x, y, o.get("w", 0), o.get("h", 0))))
        if (x, y) in pos:
            bad.append(("layout-overlap", "nodes %d and %d both at (%d,%d)" % (pos[(x, y)], k, x, y)))
        pos[(x, y)] = k
    for u in keys:
        for v in outs[u]:
            if not nodes[u]["x"] < nodes[v]["x"]:
                bad.append(("layout-order", "edge %d->%d is not strictly left to right" % (u, v)))
                break
    if o.get("w") != nlayer:
        bad.append(("layout-bounds", "width %r, layers %d" % (o.get("w"), nlayer)))
    topo = o.get("topo") or []
    tpos = {v: i for i, v in enumerate(topo)}
    if sorted(topo) != sorted(keys) or any(tpos[u] >= tpos[v] for u in keys for v in outs[u] if u in tpos and v in tpos):
        bad.append(("topo", "TopoSort is not a topological order of the nodes"))
    if not o.get("maprev2"):
        bad.append(("reverse", "Map.Reverse twice does not restore the node sets"))
    if o.get("revbad"):
        bad.append(("revlayout", "RevLayout: %s" % o["revbad"]))
    return bad


# ----------------------------------------------------------------- JSON -> Coq

def cl(xs):
    return "[" + ";".join(str(x) for x in xs) + "]"


def coq_graph(entries):
    return "[" + ";".join("(%d,%s)" % (k, cl(a)) for k, a in entries) + "]"


def coq_obs(o):
    v = o.get("v")
    if v == "missing":
        return "OMissing"
    if v == "circle":
        return "(OCircle %d)" % len(o.get("c") or [])
    if v != "ok":
        return "(OBad 0)"
    nodes = ";".join(
        "mkN %d %s %s %s %s %s %s %s %s %d (%d)" % (n["k"], cl(n["ins"]), cl(n["outs"]), cl(n["ai"]), cl(n["ao"]),
                                                     cl(n["ci"]), cl(n["co"]), cl(n["vci"]), cl(n["vco"]),
                                                     max(n["x"], 0), n["y"])
        for n in o.get("nodes") or [])
    layers = "[" + ";".join(cl(l) for l in o.get("layers") or []) + "]"
    return "(OOk %d %d %d %s %s [%s] %d (%d))" % (o.get("nedge", 0), o.get("ncrit", 0), o.get("nlayer", 0), layers,
                                                 cl(o.get("topo") or []), nodes, max(o.get("w", 0), 0), o.get("h", 0))


VCLS = {"ok": 0, "missing": 1, "circle": 2}


def coq_gobs(g):
    return "(mkG %s %d)" % (coq_graph((e["k"], e["adj"]) for e in g.get("g") or []), VCLS.get(g.get("v"), 9))


def coq_ops(c, keys):
    oi, oo = c["ops"], c["obs"]["ops"]
    ren = "[" + ";".join("(%d,%d)" % (k, oi["ren"][p]) for p, k in enumerate(keys) if p < len(oi["ren"])) + "]"
    err = "(Some %d)" % keys[oi["renerr"]] if 0 <= oi["renerr"] < len(keys) else "None"
    res = {"": 0, "ferr": 1, "missing": 2}.get(oo["ren"].get("e", ""), 9)
    nodes = ";".join("mkN %d %s %s %s %s %s %s [] [] 0 0" % (n["k"], cl(n["ins"]), cl(n["outs"]), cl(n["ai"]), cl(n["ao"]),
                                                          cl(n["ci"]), cl(n["co"])) for n in oo.get("clo") or [])
    e, cr, l = (list(oo.get("clon") or []) + [0, 0, 0])[:3]
    sops, start_rev = [], False
    for st in oo.get("seq") or []:
        if st["op"] == "V":
            start_rev = True
        elif st["op"] == "R":
            sops.append("SRev")
        elif st["op"] in ("Y", "L"):
            sops.append("SLay [%s] %d (%d)" % (";".join("(%d,(%d%%nat,(%d)%%Z))" % (x["k"], max(x["x"], 0), x["y"])
                                                         for x in st.get("nodes") or []), max(st["wh"][0], 0), st["wh"][1]))
        elif st["op"] == "!":
            sops.append("SLay [] 0 (-1)")
    gsteps = []
    for st in oo.get("gseq") or []:
        cur = coq_graph((e["k"], e["adj"]) for e in st.get("cur") or [])
        if st["op"] == "R":
            gsteps.append("GSRev %s %s" % (cur, coq_graph((e["k"], e["adj"]) for e in st.get("got") or [])))
        elif st["op"] == "T":
            gsteps.append("GSRev2 %s %s" % (cur, coq_graph((e["k"], e["adj"]) for e in st.get("got") or [])))
        elif st["op"] == "V":
            gsteps.append("GSLay %s %d" % (cur, VCLS.get(st.get("v"), 9)))
    return "(mkO %d %s %s %s %s %s %s %d %s %s %s [%s] (%d, %d, %d)%%nat %s [%s] [%s])" % (
        max(oi["rm"], 0) if oi["rm"] >= 0 else 4294967295, coq_gobs(oo["rm"]), cl(oi["sub"]), coq_gobs(oo["sub"]), ren, err,
        "true" if oi.get("inj") else "false", res, coq_gobs(oo["ren"]), cl(oi["clo"]),
        "true" if oo.get("clobad") else "false", nodes, e, cr, l, "true" if start_rev else "false", "; ".join(sops),
        "; ".join(gsteps))


def to_coq(c):
    o = c["obs"]
    if c.get("f") == "m":
        return "CM %d %d %s" % (c.get("n", 0), c.get("mask", 0), coq_obs(o))
    keys, adj = case_graph(c)
    ent = sorted((k, adj[k]) for k in keys)
    if o.get("r2same"):
        r2 = "None"
    else:
        r2 = "(Some %s)" % coq_graph((e["k"], e["adj"]) for e in o.get("r2") or [])
    if c.get("ops") and o.get("ops"):
        return "CGO %s %s %s %s" % (coq_graph(ent), coq_obs(o), r2, coq_ops(c, keys))
    return "CG %s %s %s" % (coq_graph(ent), coq_obs(o), r2)


HEADER = ("From Coq Require Import List NArith ZArith.\n"
          "From Verif Require Import Dag.Model Dag.DagCorr.\n"
          "Import ListNotations.\nLocal Open Scope N_scope.\n")


def run_harness(ck, binp, extra, timeout=3000):
    rc, out, err = vlib.sh2([binp] + extra, timeout=timeout)
    if rc != 0:
        ck.broken.append({"what": "harness run failed", "detail": err[-1500:]})
    cases, summary = [], None
    for line in out.splitlines():
        if line.startswith("{"):
            o = json.loads(line)
            if o.get("summary"):
                summary = o
            elif o.get("aborted"):
                ck.coverage["harness_aborted"] = o
                ck.notes.append("harness stopped after %d cases without a result" % o.get("crashes", 0))
            else:
                cases.append(o)
    return cases, summary


def coq_mismatches(ck, cases, idxs, tag, nshard=16):
    """Evaluate Dag/DagCorr.v on cases[idxs]; returns the sorted list of
    disagreeing indices, or None if the evaluation itself failed."""
    shards = [idxs[s::nshard] for s in range(nshard)]
    shards = [s for s in shards if s]

    def ev(job):
        si, part = job
        txt = (HEADER + "Definition cases : list ccase := [\n  "
               + ";\n  ".join(to_coq(cases[i]) for i in part) + "\n].\n"
               "Definition M := Eval vm_compute in mismatches cases.\nPrint M.\n")
        rc, out = ck.coq_eval("%s_%d" % (tag, si), txt, timeout=3000)
        got = vlib.parse_coq_list_of_nat(out, "M") if rc == 0 else None
        return si, part, got, out

    mism, ok = [], True
    with ThreadPoolExecutor(max_workers=min(nshard, os.cpu_count() or 4)) as ex:
        for si, part, got, out in ex.map(ev, list(enumerate(shards))):
            if got is None:
                ck.broken.append({"what": "correspondence evaluation failed", "shard": "%s_%d" % (tag, si),
                                  "detail": out[-1500:]})
                ok = False
                continue
            mism += [part[j] for j in got]
    return sorted(mism) if ok or mism else None


def as_general(c):
    """A case in the general family (so that nodes and edges can be removed)."""
    if c.get("f") != "m":
        return {"s": c["s"], "f": "g", "names": list(c.get("names") or []), "keys": list(c.get("keys") or []),
                "adj": [list(a) for a in c.get("adj") or []]}
    n = c.get("n", 0)
    keys, adj = case_graph(c)
    return {"s": c["s"], "f": "g", "names": ["a", "b", "c", "d", "e", "f"][:n], "keys": keys,
            "adj": [adj[k] for k in keys]}


def shrink(ck, binp, case, fails, budget=40):
    """Greedy delta debugging: drop a node or one list entry while the case
    still fails in the same way (fails(list of observed cases) -> index or
    None).  The real code is re-run on every candidate."""
    best = as_general(case)
    last = None
    d = os.path.join(vlib.BUILD, "cases", ck.pid)
    os.makedirs(d, exist_ok=True)
    for _ in range(budget):
        keys, adjl = best["keys"], best["adj"]
        cands = []
        for p in range(len(keys)):
            cands.append(dict(best, keys=keys[:p] + keys[p + 1:],
                              adj=[[t for t in a if t != keys[p]] for a in adjl[:p] + adjl[p + 1:]]))
        for p in range(len(keys)):
            for q in range(len(adjl[p])):
                a2 = [list(a) for a in adjl]
                del a2[p][q]
                cands.append(dict(best, adj=a2))
        if not cands or len(cands) > 4000:
            break
        fn = os.path.join(d, "shrink.jsonl")
        with open(fn, "w") as f:
            for c in cands:
                f.write(json.dumps(c) + "\n")
        rc, out, err = vlib.sh2([binp, "-cases", fn, "-timeout", "5s"], timeout=600)
        got = [json.loads(l) for l in out.splitlines() if l.startswith("{")]
        if len(got) != len(cands):
            break
        pick = fails(got)
        if pick is None:
            break
        last = got[pick]
        best = {"s": last["s"], "f": "g", "names": last.get("names") or [], "keys": last.get("keys") or [],
                "adj": last.get("adj") or []}
    return last


def run(ck):
    nrand = 300 if not ck.thorough else 3000
    ck.gen()
    built = ck.coq_make(MODEL + PROOFS, clean=ck.thorough, timeout=2400)
    ck.obligations = ck.count_statements(STATEMENT_FILES)
    proofs_ok = all(built.get(x) for x in PROOFS)
    if proofs_ok:
        if ck.audit("theories/Props/C19.v"):
            ck.discharged = list(ck.obligations)
    if ck.thorough and proofs_ok:
        ck.coqchk(["Verif.Props.C19"])

    binp = ck.build_harness("c19")
    cases = []
    # layer widths of the wide stream: both sides of every integer the package names (literals and
    # constants above 8, listed by the translator), else fixed sizes beyond anything random graphs reach
    lits = []
    try:
        m = re.search(r"gen_int_literals : list N := \[([^\]]*)\]", open(os.path.join(vlib.COQ, "theories", "Gen", "DagsSrc.v")).read())
        lits = [int(x.replace("%N", "")) for x in m.group(1).split(";") if x.strip()] if m else []
    except OSError:
        pass
    widths = sorted({w for l in lits if l <= 40000 for w in (l - 1, l, l + 1, 2 * l + 1)})
    if not widths:
        widths = [4097, 5000] + ([9000] if ck.thorough else [])
    ck.coverage["wide_layer_widths"] = widths
    if binp:
        cases, _ = run_harness(ck, binp, ["-seed", str(ck.seed), "-n", str(nrand), "-n4=true", "-wide", ",".join(map(str, widths)),
                                         "-big=%s" % ("true" if ck.thorough else "false")])
        if ck.thorough:
            # every graph on 5 nodes against the in-harness oracles; all the acyclic ones, a seeded
            # sample of the cyclic ones and every flagged one also go through checks/c19.py and the model
            ex, summary = run_harness(ck, binp, ["-seed", str(ck.seed), "-exhaust", "5", "-sample", "2000",
                                                 "-workers", str(max(2, (os.cpu_count() or 4) - 2))], timeout=6000)
            if summary:
                ck.coverage["exhaustive_5_nodes"] = summary
                st = ck.streams.setdefault("all-5-nodes-harness-oracle", {"n": 0, "nontrivial": 0})
                st["n"] += summary["graphs"] - len(ex)
                st["nontrivial"] += summary["graphs"] - len(ex)
                ck.evaluations += summary["graphs"] - len(ex)
            else:
                ck.broken.append({"what": "exhaustive 5-node run gave no summary"})
            cases += ex
    # conc: 8 goroutines, each checking ONLY its own graphs (rings, rings with a chord, a DAG laid out both
    # ways) at the same time; every result judged against the caller's own graph.  Once more under the race
    # detector (fewer rounds).
    if binp:
        for race in (False, True):
            b2 = ck.build_harness("c19", race=True) if race else binp
            if not b2:
                continue
            rounds = 4 if race else (40 if not ck.thorough else 200)
            rc, out, err = vlib.sh2([b2, "-conc", "8", "-rounds", str(rounds)], timeout=600)
            n = 0
            for line in out.splitlines():
                if not line.startswith("{"):
                    continue
                r = json.loads(line)
                n += 1
                ck.count("conc-race" if race else "conc", key=("conc", race, r["worker"], r["graph"]))
                if r.get("fail"):
                    key = {"cycle-not-in-graph": "impl:conc-cycle-not-in-graph", "panic": "impl:conc-panic",
                           "verdict": "impl:conc-verdict"}.get(r["fail"], "impl:conc-" + r["fail"])
                    ck.violation(key, "goroutine %d, checking only its own graph %s while 7 others check theirs: %s"
                                 % (r["worker"], r["graph"], r.get("detail", "")[:300]),
                                 {"stream": "conc", "worker": r["worker"], "graph": r["graph"], "rounds": r["rounds"],
                                  "replay": "%s -conc 8 -rounds %d" % (os.path.basename(b2), rounds), "detail": r.get("detail")})
            if race and ("DATA RACE" in err or rc == 66):
                ck.violation("impl:data-race", "the race detector reports a data race between goroutines that each check "
                             "only their own graph", {"race_report": err[err.find("WARNING: DATA RACE"):][:1800],
                                                      "replay": "c19-race -conc 8 -rounds %d" % rounds})
            elif rc != 0 and not n:
                ck.broken.append({"what": "conc harness run failed", "race": race, "detail": err[-1200:]})
    ck.log("harness: %d cases" % len(cases))

    # implementation-only oracle (also the search for a failing input)
    failing = {}
    for idx, c in enumerate(cases):
        keys, adj = case_graph(c)
        ck.count(c["s"], key=(tuple(keys), tuple(tuple(adj[k]) for k in keys)), trivial=len(keys) == 0)
        found = impl_oracle(c)
        msg = c["obs"].get("msg", "")
        if msg.startswith("harness-oracle: ") and not found:
            found = [("harness-oracle:" + msg[len("harness-oracle: "):], "the in-harness oracle rejects this graph")]
        for cls, why in found:
            failing.setdefault(idx, []).append(cls)
    for c in cases[4:6] + cases[4000:4002] + cases[-2:]:
        ck.sample({k: c[k] for k in c if k != "i"})
    ck.log("oracle done: %d failing cases" % len(failing))

    # one violation per failure class, on the smallest failing graph of that class, shrunk further
    by_cls = {}
    for idx, clss in failing.items():
        for cls in clss:
            n = len(case_graph(cases[idx])[0])
            if cls not in by_cls or n < by_cls[cls][0]:
                by_cls[cls] = (n, idx)
    count_cls = {}
    for clss in failing.values():
        for cls in clss:
            count_cls[cls] = count_cls.get(cls, 0) + 1
    for cls, (n, idx) in sorted(by_cls.items()):
        c = cases[idx]
        why = [w for k, w in (impl_oracle(c) or []) if k == cls]
        why = why[0] if why else "the in-harness oracle rejects this graph (%s)" % cls
        small = None
        if binp and n > 3 and not cls.startswith("no-result"):
            def still(got, cls=cls):
                for j, g in enumerate(got):
                    if any(k == cls for k, _ in impl_oracle(g)):
                        return j
                return None
            small = shrink(ck, binp, c, still)
        body = {"case": small or c, "expected": "the graph-theoretic answer (independent oracle in checks/c19.py)",
                "observed": (small or c)["obs"], "cases_of_this_class": count_cls[cls]}
        if small:
            body["shrunk_from"] = {k: c[k] for k in c if k not in ("obs", "i")}
        for _ in range(count_cls[cls]):
            ck.violation("impl:" + cls, why, body)

    # correspondence: the model evaluated inside Coq on the same graphs
    model_ok = all(built.get(x) for x in MODEL)
    # vm_compute of the list-based model costs ~n^3: graphs with more than 100 nodes (thorough tier only)
    # are checked against the independent oracles above but not evaluated in the model
    limit = 100
    evald = [i for i, c in enumerate(cases)
             if c["obs"].get("v") != "crash" and (len(case_graph(c)[0]) <= limit or c["s"].startswith("corpus"))]
    ck.coverage["model_not_evaluated_over_%d_nodes" % limit] = len(cases) - len(evald)
    if evald and model_ok:
        mism = coq_mismatches(ck, cases, evald, "cases")
        if mism is not None:
            ck.coverage["correspondence_cases"] = len(evald)
            ck.coverage["correspondence_mismatches"] = len(mism)
            shrunk_one = False
            for i in mism[:50]:
                c = cases[i]
                ck.broken.append({"what": "correspondence: model and implementation disagree",
                                  "stream": c["s"], "case_index": i})
            pure = sorted((len(case_graph(cases[i])[0]), i) for i in mism if i not in failing)
            for rank, (n, i) in enumerate(pure[:50]):
                c = cases[i]
                small = None
                if rank == 0 and binp and n > 3:
                    def still(got):
                        bad = coq_mismatches(ck, got, [j for j, g in enumerate(got)
                                                       if g["obs"].get("v") != "crash"], "shrink", nshard=4)
                        return bad[0] if bad else None
                    small = shrink(ck, binp, c, still, budget=15)
                body = {"case": small or c, "model": "Dag/Model.v evaluated by vm_compute disagrees",
                        "observed": (small or c)["obs"]}
                if small:
                    body["shrunk_from"] = {k: c[k] for k in c if k not in ("obs", "i")}
                ck.violation("corr:%s:%s" % (c["s"], c["obs"].get("v")),
                             "implementation output differs from the proved model of dags", body)
    elif cases and not model_ok:
        ck.broken.append({"what": "model does not compile; correspondence not evaluated"})

    return ck.finish(
        level="proof",
        checker_cmd="bin/check C19 (gen -> make -C coq theories/Props/C19.vo -> Print Assumptions audit -> harness c19 "
                    "vs vm_compute of Dag/DagCorr.v + independent oracles)",
        trusted=["Coq 8.16.1 kernel + vm_compute", "translator gen/dags.go (sort keys, reserved slots, snap rules, function texts)", "harness/cmd/c19 + checks/c19.py (name ranks, comparison, oracles)",
                 "modelled not verified: Go map semantics and iteration order (permutation oracle), sort.Sort"],
        rule="fixed corpus; every graph on <= 3 nodes with lists drawn from the nodes plus one non-node name (each with "
             "seeded Remove / SubGraph / Rename (callback errors with and without a name, non-injective) / Closure "
             "(node lists incl. unknown names) / second LayoutMap / AllInsSorted / LayoutJSON, as every general-family "
             "graph up to 40 nodes); all "
             "65 536 graphs on 4 nodes; seeded (splitmix64) sparse/dense/layered DAGs, DAGs with back edges, rings "
             "with tails and chords, malformed graphs (dangling targets, self loops, duplicate and unsorted "
             "entries); a case is trivial only if it has no node; distinct = distinct (keys, lists)",
        assumptions=["names are compared as Go strings; the model uses their ranks in sorted order",
                     "sort.Sort returns the unique sorted arrangement for a strict total order"])
