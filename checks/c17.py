"""C17 — archive extraction never writes outside the destination; ZipDir/UnzipDir round trip (DESIGN.md §7 C17)."""
import concurrent.futures
import hashlib
import json
import os
import shutil

import code_tie
import vlib

META = {
    "category": "proof",
    "text": "Coq theorems over an executable model of ziputil.UnzipDir and dock.writeTarToDir on a symlink-free "
            "file-system model (positions = lists of path elements; MkdirAll, open(O_CREAT|O_TRUNC), Chmod, "
            "RemoveAll; umask): for ALL entry lists, destinations, working directories and initial file systems, "
            "every position whose content changes lies at or beneath the destination (or is a missing ancestor "
            "of the destination created as a directory), entries failing the containment test are refused before "
            "any write; and for every well-formed tree, extracting ZipDir's entry list reproduces the tree (paths, "
            "contents, file modes exactly, directory modes under the umask) and touches nothing else.  The model is "
            "tied to the code by differential runs inside a chroot sandbox (result and the whole file system before/"
            "after compared inside Coq), exhaustive small-string runs of filepath.Join/Rel/Dir, and a translator "
            "obligation on the call skeleton of both extractors.  Round 3: ANY sequence of zip/tar extractions into one "
            "destination is confined; TarZipFile followed by the tar extractor is confined and, without a directory "
            "prefix, reproduces ZipDir's tree; under umask 0 the zip round trip gives the tree itself; the exported "
            "Cont.CopyOut / CopyOutFile and writeFirstFileAs are tied to the modelled extractors by decidable obligations "
            "on their regenerated call skeletons; the harness also drives OpenInTemp, the exported dock entry points over "
            "a scripted daemon, sequences of calls, every destination spelling with clear, contents around the copy "
            "buffers and producer-side errors.",
    "note": "Trusted: Coq kernel + vm_compute; translator gen/arch.go; harness (chroot sandbox) and dock/verif_export.go "
            "shim; archive/zip and archive/tar byte formats and their readers' views (names, modes) are taken as "
            "reported; GODEBUG zipinsecurepath/tarinsecurepath at the module defaults; no symbolic links inside the "
            "destination; the process runs as root (permission-denied behaviour of read-only directories is not "
            "observable; the unreadable-directory case runs as uid 65534); the tar round trip with a directory prefix "
            "is stated, not proved (stmt_tar_roundtrip_prefixed); no axioms.",
    "technique": "Coq proof (frame lemmas per file-system operation, induction over the entry list) + vm_compute "
                 "correspondence on sandboxed extractions + go/ast call skeleton",
}

MODEL = ["theories/Arch/ExtractCorr.vo"]
PROOFS = ["theories/Props/C17.vo"]
STATEMENT_FILES = ["theories/Props/C17.v", "theories/Arch/ExtractGen.v"]
SEMANTIC_TIE = code_tie.functions("C17")   # Go bodies proved equal to the model (Props/C17Code.v)

RES = {"ok": 0, "refused": 1, "oserr": 2, "unsupported": 3, "notfound": 4}


def cb(s):
    return "[" + ";".join(str(b) for b in s.encode("latin-1", "replace")) + "]"


def cbool(b):
    return "true" if b else "false"


def ckey(path):
    return "[" + "; ".join(cb(s) for s in path.split("/") if s != "") + "]"


def cdata(s):
    """contents: the model only moves them around, so a long one travels as its digest"""
    if len(s) > 200:
        s = "sha256:" + hashlib.sha256(s.encode("latin-1", "replace")).hexdigest()
    return cb(s)


def cnode(n):
    if n["d"]:
        return "NDir %d" % n["m"]
    return "NFile %d %s" % (n["m"], cdata(n.get("c", "")))


def cfs(nodes):
    return "[" + "; ".join("(%s, %s)" % (ckey(n["p"]), cnode(n)) for n in nodes or []) + "]"


def centries(es):
    kind = {"file": "KFile", "dir": "KDir", "other": "KOther"}
    return "[" + "; ".join("{| e_name := %s; e_kind := %s; e_perm := %d; e_data := %s |}"
                           % (cb(e["n"]), kind[e["k"]], e["m"], cdata(e.get("c", ""))) for e in es or []) + "]"


def to_coq(c):
    op = c["op"]
    if op == "fjoin":
        return ["CFJoin %s %s %s" % (cb(c["a"]), cb(c["b"]), cb(c["out"]))]
    if op == "rel":
        return ["CRel %s %s %s %s" % (cb(c["a"]), cb(c["b"]), cbool(c["res"] == "ok"), cb(c["out"]))]
    if op == "dir":
        return ["CDir %s %s" % (cb(c["a"]), cb(c["out"]))]
    if op == "tarzip":
        out = ["CTarZip %s %s %s" % (cb(c["a"]), "[" + "; ".join(cb(e["n"]) for e in c.get("seen") or []) + "]",
                                    "[" + "; ".join(cb(n) for n in c.get("outs") or []) + "]")]
        if c.get("res") == "ok":
            out.append("CTarZipFull %s %s %s" % (cb(c["a"]), centries(c.get("seen")), centries(c.get("outents"))))
        return out
    if op == "ziperr" or c.get("cut") or c.get("res") in ("intemp-error", "daemon-error") or "after" not in c:
        return []       # producer-side errors, streams cut short, a daemon that refuses: oracle only
    if has_links(c):
        return []       # the file-system model has no symbolic links: observed, not modelled
    cfg = "{| cwd := %s; umask := %d |}" % (ckey(c.get("cwd", "/")), c["umask"])
    res = RES.get(c["res"], 9)
    out = []
    if op == "firstfile":
        return ["CFirstFile %s %s %s %s %d %s" % (cfg, cb(c.get("dest", "")), centries(c.get("seen")),
                                                 cfs(c.get("before")), res, cfs(c.get("after")))]
    if op in ("untar", "tzround"):
        out.append("CUntar %s %s %s %s %d %s" % (cfg, cb(c.get("dest", "")), centries(c.get("seen")),
                                                 cfs(c.get("before")), res, cfs(c.get("after"))))
        if op == "tzround":
            out.append("CTarZipFull %s %s %s" % (cb(c["a"]), centries(c.get("zseen")), centries(c.get("seen"))))
    else:
        out.append("CUnzip %s %s %s %s %s %d %s" % (cfg, cb(c.get("dest", "")), cbool(c["clear"]), centries(c.get("seen")),
                                                    cfs(c.get("before")), res, cfs(c.get("after"))))
    if op == "roundtrip":
        out.append("CZipDir %s %s" % (cfs(c["tree"]), centries(c.get("seen"))))
    return out


def has_links(c):
    return any(n.get("x") for n in (c.get("before") or []) + (c.get("after") or []))


def link_targets(c):
    """absolute targets of the symbolic links the destination held before the extraction"""
    out = []
    for n in c.get("before") or []:
        if n.get("x") == "symlink":
            t = n.get("l", "")
            base = n["p"].rsplit("/", 1)[0]
            segs = (t if t.startswith("/") else base + "/" + t).split("/")
            st = []
            for s_ in segs:
                if s_ in ("", "."):
                    continue
                if s_ == "..":
                    if st:
                        st.pop()
                    continue
                st.append(s_)
            out.append("/" + "/".join(st))
    return out


# ---- implementation-only oracle ----

def under(p, d):
    return p == d or p.startswith(d.rstrip("/") + "/")


def changed_paths(c):
    b = {n["p"]: n for n in c.get("before") or []}
    a = {n["p"]: n for n in c.get("after") or []}
    out = []
    for p in sorted(set(a) | set(b)):
        if a.get(p) != b.get(p):
            out.append((p, b.get(p), a.get(p)))
    return out


def goclean(p):
    """path.Clean"""
    if p == "":
        return "."
    rooted = p.startswith("/")
    out = []
    for s_ in p.split("/"):
        if s_ in ("", "."):
            continue
        if s_ == "..":
            if out and out[-1] != "..":
                out.pop()
            elif not rooted:
                out.append("..")
            continue
        out.append(s_)
    r = ("/" if rooted else "") + "/".join(out)
    return r or "."


def tarzip_oracle(dir_, zes, tes):
    """TarZipFile: same entries in the same order, named path.Join(dir, name)"""
    if len(zes) != len(tes):
        return "%d zip entries became %d tar entries" % (len(zes), len(tes))
    for z, t in zip(zes, tes):
        want = z["n"] if dir_ == "" else goclean(dir_ + "/" + z["n"])
        if t["n"] != want:
            return "entry %r is named %r in the tar stream, not %r" % (z["n"], t["n"], want)
        if t["k"] != z["k"] or t["m"] != z["m"]:
            return "entry %r: kind/mode %s %o became %s %o" % (z["n"], z["k"], z["m"], t["k"], t["m"])
        if z["k"] == "file" and t.get("c", "") != z.get("c", ""):
            return "entry %r: %d bytes of content became %d bytes (or differ)" % (z["n"], len(z.get("c", "")), len(t.get("c", "")))
    return None


def impl_oracle(c):
    if c.get("crash"):
        return ("impl:crash:%s" % c["op"], "%s crashed: %s" % (c["op"], c["crash"][:200]))
    op = c["op"]
    if op == "ziperr":
        if c["res"] == "ok":
            names = sorted(n.rstrip("/") for n in c.get("outs") or [])
            return ("impl:ziperr:%s-reported-as-success" % c["a"],
                    "ZipDir/ZipFile returned nil although %s; the archive holds %r of the tree %r"
                    % ({"missing": "the directory does not exist", "filemissing": "the file does not exist",
                        "writer": "the writer failed", "writerfile": "the writer failed",
                        "writerlate": "the writer failed (seen when the archive is closed)",
                        "writerfilelate": "the writer failed (seen when the archive is closed)",
                        "unreadable": "a sub-directory could not be read"}.get(c["a"], c["a"]),
                       names, [n["p"] for n in c.get("tree") or []]))
        return None
    if op == "tarzip" and c.get("res") != "ok" and c.get("seen"):
        return ("impl:tarzip:failed", "TarZipFile(dir=%r) failed on a zip file of regular files and directories %r: %s"
                % (c.get("a"), [e["n"] for e in c["seen"]], c.get("err")))
    if op == "tarzip" and c.get("res") == "ok" and "outents" in c:
        why = tarzip_oracle(c.get("a", ""), c.get("seen") or [], c.get("outents") or [])
        return ("impl:tarzip:entries-differ", "TarZipFile(dir=%r): %s" % (c.get("a"), why)) if why else None
    if c.get("via") in ("tempfail", "tempcut") and c["res"] != "intemp-error":
        return ("impl:intemp:accepted-a-failed-or-truncated-input",
                "OpenInTemp returned a reader and no error for an input that %s"
                % ("failed half-way" if c["via"] == "tempfail" else "ends 30 bytes early"))
    if op not in ("unzip", "untar", "roundtrip", "zipfile", "firstfile", "tzround") or "after" not in c:
        return None
    if c.get("via") == "copyout404":
        if c["res"] != "daemon-error" or changed_paths(c):
            return ("impl:copyout:daemon-error-ignored", "the daemon answered 404: result %s, changed %r"
                    % (c["res"], [p for p, _, _ in changed_paths(c)][:3]))
        return None
    dest = c["destabs"]
    # an extraction never creates a link, a device, a fifo or a socket
    bx = {n["p"]: n.get("x") for n in c.get("before") or []}
    for n in c.get("after") or []:
        if n.get("x") and bx.get(n["p"]) != n.get("x"):
            return ("impl:created-special:%s" % op,
                    "%s created a %s at %s (entries %r)" % (op, n["x"], n["p"], [e["n"] for e in c.get("seen") or []]))
    followed = link_targets(c)
    esc = []
    for p, b, a in changed_paths(c):
        if under(p, dest):
            continue
        if under(dest, p) and b is None and a is not None and a["d"]:
            continue            # a missing ancestor of the destination, created as a directory
        if any(under(p, t) for t in followed):
            # written through a symbolic link that was already inside the destination: outside the
            # property (the archive did not and cannot create it); counted, not a violation
            c["_followed"] = c.get("_followed", 0) + 1
            continue
        esc.append((p, b, a))
    removed = [p for p, b, a in esc if a is None]
    if removed and c.get("clear"):
        return ("impl:escape:clear-deleted-outside",
                "%s with clear=true into the destination spelled %r (= %s) deleted %s beside it (and %d more path(s)); "
                "entries %r" % (op, (c.get("dest") or "").replace(c.get("sandbox") or "\0", "%S"), dest, removed[0],
                                len(removed) - 1, [e["n"] for e in c.get("seen") or []]))
    if esc:
        p, b, a = esc[0]
        what = "created" if b is None else ("removed" if a is None else "modified")
        return ("impl:escape:%s" % op,
                "%s %s %s, outside the destination %s (entries %r)"
                % (op, what, p, dest, [e["n"] for e in c.get("seen") or []]))
    if c.get("via") in ("temp", "temp2") and c["res"] == "intemp-error":
        return ("impl:intemp:failed-on-a-good-archive", "OpenInTemp failed: %s" % c.get("err"))
    if op == "tzround":
        why = tarzip_oracle(c.get("a", ""), c.get("zseen") or [], c.get("seen") or [])
        if why:
            return ("impl:tarzip:entries-differ", "TarZipFile(dir=%r): %s" % (c.get("a"), why))
        if c["res"] != "ok":
            return ("impl:tzround:failed", "extracting TarZipFile's stream of ZipDir's archive failed: %s" % c.get("err"))
        a = {n["p"]: n for n in c["after"]}
        b = {n["p"]: n for n in c["before"]}
        sub = goclean(c.get("a", "") or ".")
        root = dest if sub == "." else dest + "/" + sub
        for n in c["tree"]:
            p = root if n["p"] == "" else root + "/" + n["p"]
            got = a.get(p)
            if got is None or got["d"] != n["d"]:
                return ("impl:tzround:missing", "%r of the original tree is missing under %s" % (n["p"], root))
            if not n["d"]:
                if got.get("c", "") != n.get("c", ""):
                    return ("impl:tzround:content", "content of %r differs after zip -> tar -> extraction" % n["p"])
                if got["m"] != n["m"] & ~c["umask"]:
                    return ("impl:tzround:filemode", "mode of %r: %o became %o (umask %o)" % (n["p"], n["m"], got["m"], c["umask"]))
            elif p not in b and got["m"] != n["m"] & 0o1777 & ~c["umask"]:
                return ("impl:tzround:dirmode", "mode of directory %r: %o became %o (umask %o)" % (n["p"], n["m"], got["m"], c["umask"]))
    if c.get("expect") is not None and c["res"] != "ok":
        return ("impl:%s:good-archive-failed" % c["stream"], "a good archive could not be extracted (%s%s): %s"
                % (c.get("via") or "a later call on the same destination", ", " + c["pre"] if c.get("pre") else "", c.get("err")))
    if c.get("expect") is not None and c["res"] == "ok":
        a = {n["p"]: n for n in c["after"]}
        want = {dest + "/" + n["p"]: n for n in c["expect"]}
        got = {p: n for p, n in a.items() if under(p, dest) and p != dest}
        for p in sorted(set(want) | set(got)):
            w, g = want.get(p), got.get(p)
            if w is None or g is None or w["d"] != g["d"]:
                return ("impl:%s:dest-differs" % c["stream"], "after call %d of the sequence %s is %s, expected %s"
                        % (c["i"] - (c.get("seqof") or c["i"] + 1) + 2, p, "absent" if g is None else "present",
                           "absent" if w is None else ("a directory" if w["d"] else "a file")))
            if not w["d"] and (g.get("c", "") != w.get("c", "") or g["m"] != w["m"]):
                return ("impl:%s:dest-differs" % c["stream"], "after a later call of the sequence %s holds %r mode %o, expected %r mode %o"
                        % (p, g.get("c", "")[:20], g["m"], w.get("c", "")[:20], w["m"]))
            if w["d"] and g["m"] != w["m"] & 0o1777 & ~c["umask"]:
                return ("impl:%s:dest-differs" % c["stream"], "directory %s has mode %o, expected %o" % (p, g["m"], w["m"] & ~c["umask"]))
    if op == "roundtrip":
        if c["res"] != "ok":
            if c["clear"]:
                return ("impl:roundtrip:failed", "extracting ZipDir's own archive failed: %s" % c.get("err"))
            return None
        a = {n["p"]: n for n in c["after"]}
        b = {n["p"]: n for n in c["before"]}
        for n in c["tree"]:
            p = dest if n["p"] == "" else dest + "/" + n["p"]
            got = a.get(p)
            if got is None or got["d"] != n["d"]:
                return ("impl:roundtrip:missing", "%r of the original tree is missing after the round trip" % n["p"])
            if not n["d"]:
                if got.get("c", "") != n.get("c", ""):
                    return ("impl:roundtrip:content", "content of %r differs after the round trip" % n["p"])
                if got["m"] != n["m"]:
                    return ("impl:roundtrip:filemode", "mode of %r: %o became %o" % (n["p"], n["m"], got["m"]))
            elif c["clear"] or p not in b:
                want = n["m"] & 0o1777 & ~c["umask"]     # mkdir(2): no set-user/group-ID; umask applies
                if got["m"] != want:
                    return ("impl:roundtrip:dirmode", "mode of directory %r: %o became %o (umask %o)"
                            % (n["p"], n["m"], got["m"], c["umask"]))
        if c["clear"]:
            want = set(dest if n["p"] == "" else dest + "/" + n["p"] for n in c["tree"])
            extra = [p for p in a if under(p, dest) and p not in want]
            if extra:
                return ("impl:roundtrip:extra", "round trip produced %r, not in the original tree" % extra[:3])
    if op == "zipfile":
        if c["res"] != "ok":
            return ("impl:zipfile:failed", "extracting ZipFile's own archive failed: %s" % c.get("err"))
        n = c["tree"][0]
        got = {x["p"]: x for x in c["after"]}.get(dest + "/" + n["p"])
        if got is None or got["d"] or got.get("c", "") != n.get("c", "") or got["m"] != n["m"]:
            return ("impl:zipfile:differs", "ZipFile/UnzipDir of %r gave %r" % (n, got))
    return None


def trivial(c):
    if c["op"] == "ziperr":
        return False
    if c["op"] in ("fjoin", "rel"):
        return c["a"] == "" and c["b"] == ""
    if c["op"] == "dir":
        return c["a"] == ""
    return not c.get("seen")


def run(ck):
    n = 400 if not ck.thorough else 6000
    ck.gen()
    built = ck.coq_make(MODEL + PROOFS, clean=ck.thorough)
    ck.obligations = ck.count_statements(STATEMENT_FILES)
    proofs_ok = all(built.get(x) for x in PROOFS)
    if proofs_ok and ck.audit("theories/Props/C17.v"):
        ck.discharged = list(ck.obligations)
    if ck.thorough and proofs_ok:
        ck.coqchk(["Verif.Props.C17"])
    code_tie.run(ck, "C17")

    scratch = os.environ.get("VERIF_SCRATCH") or os.path.join(vlib.BUILD, "scratch")
    scratch = os.path.join(scratch, "c17")
    os.makedirs(scratch, exist_ok=True)
    binp = ck.build_harness("c17")
    cases = []
    if binp:
        args = [binp, "-seed", str(ck.seed), "-n", str(n), "-scratch", scratch]
        if ck.thorough:
            args.append("-thorough")
        rc, out, err = vlib.sh2(args, timeout=2400)
        shutil.rmtree(scratch, ignore_errors=True)
        if rc != 0:
            ck.broken.append({"what": "harness run failed", "detail": err[-1500:]})
        for line in out.splitlines():
            if line.startswith("{"):
                cases.append(json.loads(line))

    # archives the writers refuse to build are not cases
    dropped = [c for c in cases if str(c.get("res", "")).startswith("other:build") or c.get("res") == "skipped"]
    cases = [c for c in cases if c not in dropped] if dropped else cases
    ck.coverage["archives_not_buildable_or_skipped"] = len(dropped)
    modes = {}
    results = {}
    for c in cases:
        if c.get("mode"):
            modes[c["mode"]] = modes.get(c["mode"], 0) + 1
            results[c["op"] + ":" + c["res"][:12]] = results.get(c["op"] + ":" + c["res"][:12], 0) + 1
        sb = c.get("sandbox") or "\0"
        ck.count(c["stream"], key=(c["op"], c.get("a"), c.get("b"), (c.get("dest") or "").replace(sb, "%S"),
                                   (c.get("cwd") or "").replace(sb, "%S"), c.get("umask"),
                                   c.get("clear"), c.get("via"), c.get("drel"), c.get("pre"), c.get("cut"), c.get("zarg"), c.get("zcwd"),
                                   (c["i"] - c["seqof"]) if c.get("seqof") else None, json.dumps(c.get("setup")),
                                   json.dumps(c.get("seen")).replace(sb, "%S"),
                                   json.dumps(c.get("tree"))), trivial=trivial(c))
        why = impl_oracle(c)
        if why:
            small = {k: c[k] for k in c if k not in ("before", "after")}
            ck.violation(why[0], why[1], {
                "case": small, "before": c.get("before"), "after": c.get("after"),
                "expected": "only paths at or beneath the destination change; ZipDir/UnzipDir reproduces the tree",
                "observed": why[1]})
    ck.coverage["sandbox_modes"] = modes
    ck.coverage["writes_through_preexisting_links_observed"] = sum(1 for c in cases if c.get("_followed"))
    ck.coverage["results"] = results
    ck.coverage["exhaustive"] = False
    for i in (0, 12, 200, 700, len(cases) - 1):
        if 0 <= i < len(cases):
            ck.sample({k: cases[i][k] for k in cases[i] if k not in ("i", "before", "after")})

    model_ok = all(built.get(x) for x in MODEL)
    if cases and model_ok:
        items = []      # (case index, coq text)
        for i, c in enumerate(cases):
            for t in to_coq(c):
                items.append((i, t))
        nsh = max(1, min(16, (len(items) + 399) // 400))     # interleaved shards: equal mix of heavy cases
        head = ("From Coq Require Import List NArith Bool.\n"
                "From Verif Require Import Lib.Path Arch.Extract Arch.ZipRound Arch.ExtractCorr.\n"
                "Import ListNotations.\nLocal Open Scope N_scope.\n"
                "Definition cases : list ccase := [\n  ")

        def ev(s):
            part = items[s::nsh]
            txt = (head + ";\n  ".join(t for _, t in part) + "\n].\n"
                   "Definition M := Eval vm_compute in mismatches cases.\nPrint M.\n")
            rc, out = ck.coq_eval("cases_%d" % s, txt)
            return s, (vlib.parse_coq_list_of_nat(out, "M") if rc == 0 else None), out

        mism = set()
        with concurrent.futures.ThreadPoolExecutor(max_workers=16) as ex:
            for s, got, out in ex.map(ev, range(nsh)):
                if got is None:
                    ck.broken.append({"what": "correspondence evaluation failed", "detail": out[-1500:]})
                    continue
                for j in got:
                    mism.add(items[s + j * nsh][0])
        mism = sorted(mism)
        ck.coverage["correspondence_cases"] = len(items)
        ck.coverage["correspondence_mismatches"] = len(mism)
        for i in mism[:50]:
            c = cases[i]
            ck.broken.append({"what": "correspondence: model and implementation disagree",
                              "stream": c["stream"], "op": c["op"], "case_index": i, "res": c.get("res")})
            if impl_oracle(c) is None:
                ck.violation("corr:%s:%s" % (c["stream"], c["op"]),
                             "implementation behaviour differs from the proved model",
                             {"case": c, "model": "Arch/ExtractCorr.v check_case evaluated by vm_compute disagrees",
                              "observed": {k: c.get(k) for k in ("res", "err", "out")}})
    elif cases and not model_ok:
        ck.broken.append({"what": "model does not compile; correspondence not evaluated"})

    return ck.finish(
        level="proof",
        checker_cmd="bin/check C17 (gen -> make -C coq theories/Props/C17.vo -> Print Assumptions audit"
                    " -> harness c17 in a chroot sandbox vs vm_compute of Arch/ExtractCorr.v)",
        trusted=["Coq 8.16.1 kernel + vm_compute", "translator gen/arch.go (call skeleton and literal modes of both "
                 "extractors)", "harness/cmd/c17 (chroot sandbox, snapshots) + checks/c17.py comparison and oracle",
                 "dock/verif_export.go shim",
                 "modelled not verified: archive/zip, archive/tar, os.MkdirAll/OpenFile/Chmod/RemoveAll, "
                 "filepath.Join/Rel/Dir (each exercised by a correspondence stream), the kernel's path resolution"],
        rule="fixed corpus (parent references, sibling with the destination's name as prefix, absolute names, empty "
             "destination) + every name of a 40-name hostile corpus alone as file and as directory through both "
             "extractors + seeded archives of 1-4 entries (one quarter hostile names, the rest benign and colliding "
             "names) over 12 destination spellings x 4 initial destinations x 4 umasks, with and without clear + random "
             "trees (with set-user/group-ID and sticky bits) round-tripped through ZipDir/UnzipDir and ZipFile + entry "
             "types (zip entries with symlink/fifo/device/socket modes, tar symlink/hardlink/char/block/fifo/cont "
             "entries, each followed by an entry named through it) + destinations already holding symbolic links "
             "(observed only) + writeFirstFileAs + tarutil.TarZipFile names, kinds, modes and contents + round-3 usage patterns "
             "(sequences of calls on one destination incl. after a refusal and after the destination was removed; clear=true "
             "for every destination spelling over absent / populated / regular-file destinations; contents around the 32 KiB "
             "and 64 KiB copy buffers; zip reader obtained through OpenInTemp on a fresh and a reused temp file, failing and "
             "truncated inputs; the exported Cont.CopyOut / CopyOutFile over a scripted daemon; tar streams cut short; eight "
             "spellings of ZipDir's and six of ZipFile's argument; ZipDir -> TarZipFile -> tar extraction; producer-side "
             "errors: missing directory, unreadable sub-directory as uid 65534, writers failing early and at Close) "
             "+ filepath.Join/Rel on all pairs over {a,.,/} "
             "up to length 3 (4 thorough) and filepath.Dir up to length 6 (8). A case is trivial when its archive is "
             "empty or its strings are empty; distinct = distinct (op, destination, cwd, umask, setup, entries)",
        assumptions=["a symbolic link that already exists inside the destination is followed by the kernel: out of the "
                     "property's scope (archives cannot create links: tar link/device entries are refused, zip entries "
                     "with link/device modes are written as regular files - theorems + oracle rule impl:created-special); "
                     "such writes are observed and counted (stream dest-links), the file-system model has no links",
                     "process runs as root: permission checks are bypassed, set-user/group-ID survive chmod+write",
                     "mode bits: files reproduce all of 07777; directories 01777 under the umask (mkdir(2) drops "
                     "set-user/group-ID)",
                     "GODEBUG zipinsecurepath / tarinsecurepath at the module defaults (insecure names reach the code)",
                     "ASCII entry names", "directory modes are reproduced modulo the process umask (mkdir)"])
