"""C11 — caco3: build graphs load soundly: cycles, duplicates and order (DESIGN.md §7 C11)."""
import json
import os
import tempfile

import vlib
from vlib import coq_str

META = {
    "category": "proof",
    "text": "Coq theorems over an executable model of caco3's loader and build walk (readBuildFile recursion "
            "through sub_builds, register, load1 with the on-stack tracer and the loaded memo, buildNode's "
            "depth-first walk): loading terminates for every set of build files and every sub-directory "
            "reference relation; an error is reported exactly when an unnamed rule, a duplicated rule or output "
            "name, or a dependency cycle or dangling dependency reachable from the targets exists, and then "
            "nothing is executed; otherwise exactly the reachable rules execute, once each, dependencies first, "
            "independent of declaration order.  The model is tied to the code on every run by the real "
            "caco3.Builder building generated workspaces (all graphs on <=3 rules, every declaration order of "
            "small rule sets, random graphs up to 40 rules with sub-build trees), compared inside Coq; every "
            "workspace is built twice on the same Builder (the second call must report the same errors and, with "
            "AlwaysRebuild, execute the same rules in the same order: loader tables, tracer and memo are per "
            "call); sequences of Build calls on one Builder (good targets, targets over a dangling dependency, "
            "over a cycle, again, other targets) are judged call by call; the lifetime of the loader is explicit "
            "in the model (Caco/LoadSession.v: with the loader made per call - decided from the translator's "
            "extraction of the current source - every call of a sequence is the call alone; refuted for a kept "
            "loader), cycles through output files have their own theorem, and after a fatal crash a probe "
            "process tells whether the stack ran away in the loader or in the build walk after the loader had "
            "accepted the graph (impl:cycle-not-reported); the arguments of Build are the caller's: the harness "
            "hands the very same []string to every call asking for the same targets (Builders at the root and "
            "inside package directories, a nested package pkg/pkg with rules of equal base names) and compares it "
            "after each call (impl:arguments-modified), the model states that the result is a function of the "
            "values passed (Caco/LoadArgs.v; refuted for names resolved in place), and the translator extracts "
            "every write to a slice or map parameter (gen_params_not_written); build files that are symbolic links "
            "(to another package's build file, to a file outside src, dangling, to a directory, chains, with "
            "sub-builds below them) are what the path resolves to (Caco/LoadLinks.v; refuted for a test by lstat; "
            "gen_build_file_follows_links: readBuildFile tests through osutil.IsRegular = os.Stat).",
    "note": "Trusted: Coq kernel + vm_compute; harness/cmd/c11 + checks/c11.py comparison and error-message "
            "projection; name resolution (makeRelPath/makePath) is C12's subject and enters as resolved names; "
            "JSONx parsing, os.Lstat and the file system are modelled, not verified; only file_set and bundle "
            "rules (docker-backed rules cannot run offline); no axioms.",
    "technique": "Coq proof (DFS invariants, topological order of the loaded list, fuel = recursion depth) + "
                 "vm_compute correspondence against the real Builder + independent graph oracle",
}

MODEL = ["theories/Caco/LoadCorr.vo"]
PROOFS = ["theories/Props/C11.vo"]
STATEMENT_FILES = ["theories/Props/C11.v", "theories/Caco/LoadGen.v", "theories/Caco/LoadSessionGen.v"]


# ------------------------------------------------------------ case -> Coq

def cl(xs):
    return "[" + "; ".join(coq_str(x) for x in xs or []) + "]"


def decl_to_coq(d):
    """The declaration as written (the Coq model resolves the names itself)."""
    if d["k"] == "raw":
        return "RJunk"
    if d["k"] == "sub":
        return "RSub %s" % cl(d.get("dirs"))
    if d["k"] == "bundle":
        return "RBundle %s %s" % (coq_str(d.get("name", "")), cl(d.get("deps")))
    return "RFileSet %s %s %s" % (coq_str(d.get("name", "")), cl(d.get("files")), cl(d.get("include")))


# name resolution, independent of the Coq model and of the Go code
def rsegs(x):
    st = []
    for seg in x.split("/"):
        if seg in ("", "."):
            continue
        if seg == "..":
            if st:
                st.pop()
        else:
            st.append(seg)
    return st


def make_rel_path(p, f):
    return "/".join(rsegs(p) + rsegs(f))


def make_path(p, f):
    return "/".join(rsegs(f)) if f.startswith("/") else make_rel_path(p, f)


def resolved(p, d):
    """(kind, name, deps, outs, subdirs) of a declaration of package p."""
    if d["k"] == "raw":
        return ("bad", "parse", [], [], [])
    if d["k"] == "sub":
        return ("sub", "", [], [], [make_rel_path(p, x) for x in d.get("dirs") or []])
    name = make_rel_path(p, d.get("name", ""))
    if name == p or name == "":
        return ("bad", "unnamed", [], [], [])
    if d["k"] == "bundle":
        return ("rule", name, [make_path(p, x) for x in d.get("deps") or []], [], [])
    files = sorted(set(make_path(p, x) for x in d.get("files") or []))
    return ("rule", name, files + list(d.get("include") or []), [name + ".fileset"], [])


def derived_tree(c):
    files = set(c.get("srcs") or [])
    for f in c["files"]:
        if f["dir"] != "":
            files.add(f["dir"] + "/BUILD.caco3")
    dirs = {""}
    for f in files:
        parts = f.split("/")[:-1]
        for i in range(1, len(parts) + 1):
            dirs.add("/".join(parts[:i]))
    return sorted(files), sorted(dirs)


def tree(c):
    o = c["obs"]
    if o.get("tree_dirs"):
        return o.get("tree_files") or [], o.get("tree_dirs") or []
    return derived_tree(c)


def err_to_coq(e):
    k = e["k"]
    if k == "unnamed":
        return "EUnnamed"
    if k == "emptyname":
        return "EEmptyName"
    if k == "selectnone":
        return "ESelectNone"
    if k == "dup":
        return "EDup %s" % coq_str(e.get("n", ""))
    if k == "prev":
        return "EPrev"
    if k == "cycle":
        return "ECycle %s" % cl(e.get("stack"))
    if k == "stat":
        return "EStat %s" % coq_str(e.get("n", ""))
    if k == "resolve":
        return "EResolve %s" % coq_str(e.get("n", ""))
    return "EOther"


def obs_to_coq(o):
    if o.get("crash"):
        return "OCrash"
    if o.get("errs"):
        return "(OErr [%s])" % "; ".join(err_to_coq(e) for e in o["errs"])
    return "(OExec %s)" % cl(o.get("exec"))


def ws_key(c):
    return json.dumps([c["files"], c["roots"], tree(c), bool(c.get("loose"))], sort_keys=True)


def group_to_coq(cs):
    """Consecutive cases on the same workspace become one ccase with several runs."""
    c = cs[0]
    fs = "[" + "; ".join("(%s, [%s])" % (coq_str(f["dir"]), "; ".join(decl_to_coq(d) for d in f["decls"]))
                         for f in c["files"]) + "]"
    files, dirs = tree(c)
    runs = "; ".join("(%s, %s)" % (cl(x["targets"]), obs_to_coq(x["obs"])) for x in cs)
    return "mkCase %s %s %s %s %s [%s]" % (
        fs, cl(c["roots"]), cl(files), cl(dirs), "true" if c.get("loose") else "false", runs)


def cases_to_coq(part):
    groups = []
    for c in part:
        if groups and ws_key(groups[-1][0]) == ws_key(c):
            groups[-1].append(c)
        else:
            groups.append([c])
    return ";\n  ".join(group_to_coq(g) for g in groups)


# ----------------------------------------------- independent graph oracle

def spec(c):
    """What the property demands for this workspace, computed from the
    declarations alone (no model, no implementation): ('err', reasons) or
    ('ok', reachable rule set, edges)."""
    byd = {f["dir"]: [resolved(f["dir"], d) for d in f["decls"]] for f in c["files"]}
    reasons = []
    seen, todo = set(), sorted(set(c["roots"]))
    good = []
    while todo:
        d = todo.pop(0)
        if d in seen:
            continue
        seen.add(d)
        ds = byd.get(d)
        if ds is None:
            continue
        if any(x[0] == "bad" for x in ds):
            reasons += [x[1] for x in ds if x[0] == "bad"]
            continue
        good.append(d)
        for x in ds:
            if x[0] == "sub":
                todo += x[4]
    nodes = {}
    for d in good:
        for x in byd[d]:
            if x[0] != "rule":
                continue
            for nm, typ, deps in [(x[1], "rule", x[2])] + [(o, "out", [x[1]]) for o in x[3]]:
                if nm == "":
                    reasons.append("emptyname")
                elif nm in nodes:
                    reasons.append("dup")
                else:
                    nodes[nm] = (typ, deps)
    files, dirs = tree(c)
    files = set(files)
    # reachability, cycles, dangling
    state = {}
    reach_rules = set()

    def visit(n, stack):
        if n in stack:
            reasons.append("cycle")
            return
        if state.get(n) == 2:
            return
        if n not in nodes:
            if n not in files:
                reasons.append("dangling")
            state[n] = 2
            return
        typ, deps = nodes[n]
        if typ == "rule":
            reach_rules.add(n)
        stack.append(n)
        for d in deps:
            visit(d, stack)
        stack.pop()
        state[n] = 2

    import sys
    sys.setrecursionlimit(10000)
    for t in c["targets"]:
        visit(t, [])
    if reasons:
        return ("err", sorted(set(reasons)), None, None)
    return ("ok", [], reach_rules, nodes)


def trans_rule_deps(nodes, n, memo):
    if n in memo:
        return memo[n]
    memo[n] = set()
    out = set()
    for d in nodes.get(n, ("", []))[1]:
        if d in nodes:
            if nodes[d][0] == "rule":
                out.add(d)
            out |= trans_rule_deps(nodes, d, memo)
    memo[n] = out
    return out


def impl_oracle(c):
    """Reads the property off the observed result. Returns (key, text) or None."""
    o = c["obs"]
    if o.get("crash"):
        kind = "stack-overflow" if "stack exceeds" in o["crash"] else \
               ("timeout" if "timeout" in o["crash"] else "crash")
        if o.get("crash_in") == "build":
            # Build reaches buildNode only after loadNodes returned without an error: the loader
            # accepted these build files, and the failure is the build walk's
            verdict, reasons, _, _ = spec(c)
            if verdict == "err":
                what = "cycle" if "cycle" in reasons else reasons[0]
                return ("impl:%s-not-reported" % what if what == "cycle" else "impl:error-not-reported:" + what,
                        "build files with %s reachable from the targets %s were loaded WITHOUT an error; the "
                        "build walk then ran away inside Builder.buildNode (%s) after executing %s"
                        % (",".join(reasons), c["targets"], kind, o.get("exec") or "nothing"))
            return ("impl:build-does-not-terminate:" + kind,
                    "loading accepted a sound set of build files, then the build walk did not terminate "
                    "normally: %s" % o["crash"][:200])
        return ("impl:load-does-not-terminate:" + kind,
                "loading did not terminate normally: %s" % o["crash"][:200])
    verdict, reasons, reach, nodes = spec(c)
    errs = o.get("errs") or []
    exe = o.get("exec") or []
    if verdict == "err":
        if not errs:
            if "cycle" in reasons:
                return ("impl:cycle-not-reported",
                        "build files with a dependency cycle reachable from the targets %s were loaded without an "
                        "error (executed: %s)" % (c["targets"], exe))
            return ("impl:error-not-reported:" + reasons[0],
                    "build files with %s were loaded without an error" % ",".join(reasons))
        if exe:
            return ("impl:built-despite-error", "rules %s were executed although loading failed" % exe[:5])
        return None
    if errs:
        kinds = sorted(set(e["k"] for e in errs))
        return ("impl:spurious-error:" + kinds[0],
                "a sound set of build files was rejected with %s" % json.dumps(errs[:3]))
    if len(set(exe)) != len(exe):
        return ("impl:executed-twice", "a rule was executed more than once: %s" % exe)
    if set(exe) - reach:
        return ("impl:unreachable-executed", "executed but not reachable from the targets: %s"
                % sorted(set(exe) - reach))
    if reach - set(exe):
        return ("impl:reachable-not-executed", "reachable rules not executed on an empty cache: %s"
                % sorted(reach - set(exe)))
    pos = {n: i for i, n in enumerate(exe)}
    memo = {}
    for n in exe:
        for d in trans_rule_deps(nodes, n, memo):
            if pos[d] > pos[n]:
                return ("impl:dependency-after-dependent", "%s executed before its dependency %s" % (n, d))
    return None


def again_oracle(c):
    """A second Build call with the same targets on the same Builder: nothing a Builder holds between
    calls (loader tables, tracer, memo) may change the verdict.  Returns (key, text) or None."""
    o = c["obs"]
    if not o.get("again"):
        return None
    e1 = [(e["k"], e.get("n"), tuple(e.get("stack") or [])) for e in o.get("errs") or []]
    e2 = [(e["k"], e.get("n"), tuple(e.get("stack") or [])) for e in o.get("errs2") or []]
    if e1 != e2:
        return ("impl:second-build-on-same-builder-differs:errors",
                "the first Build call reported %s, the second call on the same Builder %s"
                % (json.dumps(o.get("errs") or [])[:200], json.dumps(o.get("errs2") or [])[:200]))
    if e1:
        loaderr = any(k != "other" for k, _, _ in e1)
        if loaderr and o.get("exec2"):
            return ("impl:second-build-on-same-builder-differs:built-despite-error",
                    "the second call executed %s although loading failed" % o["exec2"][:5])
        return None
    if c.get("always"):
        if (o.get("exec2") or []) != (o.get("exec") or []):
            return ("impl:second-build-on-same-builder-differs:order",
                    "with AlwaysRebuild the first call executed %s, the second call on the same Builder %s"
                    % (o.get("exec"), o.get("exec2")))
    elif o.get("exec2"):
        return ("impl:second-build-on-same-builder-differs:rebuilt",
                "nothing changed, but the second call on the same Builder executed %s" % o["exec2"][:8])
    return None


def expand_seq(cases):
    """A case with a sequence of Build calls on one Builder becomes one case per call (same workspace,
    that call's targets and observation): what a Builder holds between calls is no part of the property,
    so the oracle and the model are evaluated per call.  After a crash only the crashing call is known."""
    out = []
    for c in cases:
        seq = c.get("seq") or []
        calls = [c["targets"], c["targets"]] + seq
        o = c["obs"]
        if not seq and not (o.get("crash") and o.get("crash_call")):
            out.append(c)
            continue
        if o.get("crash"):
            k = o.get("crash_call") or 0
            v = dict(c, targets=calls[k], call=k, on_one_builder_after=calls[:k])
            out.append(v)
            continue
        out.append(dict(c, call=0, on_one_builder_after=[]))
        for k, m in enumerate(o.get("more") or []):
            vo = {"errs": m.get("errs") or [], "exec": m.get("exec") or [],
                  "tree_files": o.get("tree_files"), "tree_dirs": o.get("tree_dirs")}
            out.append(dict(c, targets=seq[k], obs=vo, call=k + 2, on_one_builder_after=calls[:k + 2]))
    return out


def args_oracle(c):
    """Arguments passed by reference (the []string handed to Build, the *Config handed to NewBuilder) are
    the caller's: unchanged after the call.  Returns (key, text) or None."""
    mods = c["obs"].get("arg_mods") or []
    if not mods:
        return None
    m = mods[0]
    return ("impl:arguments-modified",
            "call %d changed its argument %s: %r before, %r after (the same slice handed to a later call then "
            "means other targets)" % (m["call"], m["what"], m["before"], m["after"]))


def is_trivial(c):
    return not any(d["k"] != "sub" for f in c["files"] for d in f["decls"]) or not c["targets"]


def spelling_stats(cases):
    """How many declared names / references are not written in their resolved form."""
    n = 0
    for c in cases:
        for f in c["files"]:
            for d in f["decls"]:
                if d["k"] in ("bundle", "file_set"):
                    if "/" in d.get("name", "") or d.get("name", "").startswith("."):
                        n += 1
                    n += sum(1 for x in (d.get("deps") or []) + (d.get("files") or [])
                             if "/./" in x or "/../" in x or x.startswith("./") or x.endswith("/.")
                             or x.endswith("/") or "//" in x[1:])
    return n


# -------------------------------------------------------------------- run

def run_harness(ck, binp, shards):
    from concurrent.futures import ThreadPoolExecutor
    scratch = os.environ.get("VERIF_SCRATCH") or os.path.join(tempfile.gettempdir(), "verif-caco")

    def one(s):
        args = [binp, "-seed", str(ck.seed), "-tier", ck.tier, "-shards", str(shards), "-shard", str(s),
                "-scratch", scratch]
        return vlib.sh2(args, timeout=3000)

    with ThreadPoolExecutor(max_workers=shards) as ex:
        results = list(ex.map(one, range(shards)))
    cases = []
    for rc, out, err in results:
        if rc != 0:
            ck.broken.append({"what": "harness run failed", "detail": (err or "")[-1500:]})
        for line in out.splitlines():
            if line.startswith("{"):
                cases.append(json.loads(line))
    cases.sort(key=lambda c: c["i"])
    return cases


def run(ck):
    import time
    ck.gen()
    built = ck.coq_make(MODEL + PROOFS, clean=ck.thorough)
    ck.obligations = ck.count_statements(STATEMENT_FILES)
    proofs_ok = all(built.get(x) for x in PROOFS)
    if proofs_ok:
        if ck.audit("theories/Props/C11.v"):
            ck.discharged = list(ck.obligations)
    if ck.thorough and proofs_ok:
        ck.coqchk(["Verif.Props.C11"])

    binp = ck.build_harness("c11")
    cases = []
    if binp:
        t = time.time()
        cases = expand_seq(run_harness(ck, binp, 12))
        ck.timings["harness"] = round(time.time() - t, 2)

    # implementation-only oracle
    groups = {}
    for c in cases:
        ck.count(c["stream"], key=(json.dumps(c["files"], sort_keys=True), c["roots"], c["targets"],
                                   c.get("srcs")), trivial=is_trivial(c))
        bad = impl_oracle(c)
        if bad:
            key, why = bad
            ck.violation(key, why, {"case": c, "observed": c["obs"],
                                    "expected": "terminates; error iff unnamed/duplicate/cycle/dangling; "
                                                "else exactly the reachable rules, once, dependencies first"})
        bad = args_oracle(c) if not c.get("call") else None
        if bad:
            key, why = bad
            ck.violation(key, why, {"case": c, "observed": c["obs"],
                                    "expected": "the target slice and the Config handed to the Builder are unchanged "
                                                "after every call"})
        bad = again_oracle(c)
        if bad:
            key, why = bad
            ck.violation(key, why, {"case": c, "observed": c["obs"],
                                    "expected": "a second Build call with the same targets on the same Builder "
                                                "reports the same errors; with AlwaysRebuild it executes the same "
                                                "rules in the same order, otherwise nothing"})
        if c.get("group"):
            groups.setdefault(c["group"], []).append(c)
    for g, cs in groups.items():
        def verdict(c):
            o = c["obs"]
            if o.get("crash"):
                return ("crash",)
            if o.get("errs"):
                return ("err",)
            return ("ok", tuple(sorted(o.get("exec") or [])))
        vs = set(verdict(c) for c in cs)
        if len(vs) > 1:
            a = cs[0]
            b = next(c for c in cs if verdict(c) != verdict(a))
            ck.violation("impl:declaration-order-matters",
                         "the same rules declared in another order gave another verdict or executed set",
                         {"case": a, "other_order": b, "verdicts": sorted(map(str, vs))})
    hist = {}
    for c in cases:
        o = c["obs"]
        k = "crash" if o.get("crash") else ("err:" + o["errs"][0]["k"] if o.get("errs")
                                             else "exec:%d" % min(len(o.get("exec") or []), 9))
        hist[k] = hist.get(k, 0) + 1
    ck.coverage["observed_histogram"] = hist
    ck.coverage["names_not_in_resolved_form"] = spelling_stats(cases)
    picks = [c for c in cases if c["stream"].startswith("corpus")][:2] + \
            [c for c in cases if c["stream"] == "rand"][:2] + [c for c in cases if c["stream"] == "perm"][:1]
    for c in picks:
        ck.sample({k: c[k] for k in c if k != "i"})

    # correspondence: the model evaluated inside Coq on the same workspaces
    model_ok = all(built.get(x) for x in MODEL)
    if cases and model_ok:
        from concurrent.futures import ThreadPoolExecutor
        shard = max(100, (len(cases) + 11) // 12)
        mism = []
        tags = {}

        def evaluate(s):
            part = cases[s:s + shard]
            txt = ("From Coq Require Import List String.\n"
                   "From Verif Require Import Caco.Load Caco.LoadNames Caco.LoadCorr.\n"
                   "Import ListNotations.\nLocal Open Scope string_scope.\n"
                   "Definition cases : list ccase := [\n  "
                   + cases_to_coq(part) + "\n].\n"
                   "Definition M := Eval vm_compute in mismatches cases.\nPrint M.\n"
                   "Definition T := Eval vm_compute in tags cases.\nPrint T.\n")
            return s, ck.coq_eval("cases_%d" % (s // shard), txt)

        t = time.time()
        with ThreadPoolExecutor(max_workers=12) as ex:
            results = list(ex.map(evaluate, range(0, len(cases), shard)))
        ck.timings["coq_eval_wall"] = round(time.time() - t, 2)
        for s, (rc, out) in results:
            got = vlib.parse_coq_list_of_nat(out, "M") if rc == 0 else None
            if got is None:
                ck.broken.append({"what": "correspondence evaluation failed", "detail": out[-1500:]})
                break
            mism += [s + i for i in got]
            for tg in vlib.parse_coq_list_of_nat(out, "T") or []:
                tags[tg] = tags.get(tg, 0) + 1
        names = ["exec", "exec-nothing", "unnamed", "dup", "cycle", "stat", "resolve", "other", "err-other",
                 "missing", "out-of-fuel"]
        ck.coverage["model_branches"] = {names[k]: v for k, v in sorted(tags.items())}
        ck.coverage["correspondence_cases"] = len(cases)
        ck.coverage["correspondence_mismatches"] = len(mism)
        for i in mism[:50]:
            c = cases[i]
            ck.broken.append({"what": "correspondence: model and implementation disagree",
                              "stream": c["stream"], "case_index": c["i"]})
            if impl_oracle(c) is None:
                ck.violation("corr:%s" % c["stream"].split("-")[0],
                             "the real loader/builder departs from the proved model on this workspace "
                             "(error list or execution order)",
                             {"case": c, "model": "Caco/Load.v evaluated by vm_compute disagrees",
                              "observed": c["obs"]})
    elif cases and not model_ok:
        ck.broken.append({"what": "model does not compile; correspondence not evaluated"})

    return ck.finish(
        level="proof",
        checker_cmd="bin/check C11 (gen -> make -C coq theories/Props/C11.vo -> Print Assumptions audit -> "
                    "harness c11 (real caco3.Builder) vs vm_compute of Caco/LoadCorr.v + graph oracle)",
        trusted=["Coq 8.16.1 kernel + vm_compute", "harness/cmd/c11 (workspace writer, error-message projection)",
                 "checks/c11.py (case -> Coq, independent graph oracle)",
                 "resolved names are supplied by the generator (name resolution is C12)",
                 "modelled not verified: JSONx parsing, os.Lstat, map iteration + sort.Strings"],
        rule="fixed corpus (self-referencing and doubly referenced sub-build directories, cycles, duplicates, "
             "unnamed rules, dangling dependencies) + every directed graph with self loops on <=3 bundles over "
             "two packages and a sub-build directory with target subsets + every declaration order of random "
             "2-4 rule sets + seeded random graphs of 2-40 bundles/file sets with sub-build trees and injected "
             "flaws + BUILD files with syntax errors; trivial = no rule declared or no target; distinct = "
             "distinct (build files, roots, sources, targets)",
        assumptions=["names are the strings after makeRelPath/makePath", "no symlinked directories",
                     "file_set and bundle rules only; rules do not fail while executing (C10 covers failures)"])
