"""Shared pipeline of the three jsonx properties (C07, C08, C09): build, audit,
run the harness in one mode, turn observed cases into Coq terms, evaluate the
model on them inside Coq (Jsonx/Corr.v : mismatches)."""
import json
import os
from concurrent.futures import ThreadPoolExecutor

import re as _re
import sys

import vlib

sys.setrecursionlimit(20000)   # deeply nested values of the "big" streams

MODEL = ["theories/Jsonx/Corr.vo"]

ERR = {
    "escNotTerm": 1, "lexing.unknownESC": 2, "illegalEscChar": 3, "invalidCodePoint": 4,
    "lexing.unexpectedEOF": 5, "lexing.unexpectedEndl": 6, "jsonx.illegalChar": 7,
    "shellIllegalChar": 8, "shellarg.invalidStr": 9, "lexing.unexpected": 10,
    "jsonx.expectOp": 11, "jsonx.stringLit": 12, "jsonx.floatLit": 13,
    "jsonx.expectObjectEntry": 14, "jsonx.unexpectedKeyword": 15, "jsonx.expectNumber": 16,
    "jsonx.expectOperand": 17, "jsonx.expectTypeName": 18, "jsonx.unknownType": 19,
    "jsonx.marshalJSON": 20, "encode": 21,
}

TY = {"keyword": 0, "ident": 1, "string": 2, "int": 3, "float": 4, "operator": 5, "semi": 6,
      "endl": 7, "eof": 8, "comment": 9, "illegal": 10, "bare": 11}

TRUSTED = [
    "Coq 8.16.1 kernel + vm_compute",
    "translator gen/jsonx.go (keyword set, token codes, operator runes, exponent signs, error cap, SkipErrStmt loop condition, "
    "every write to the error state and the delegation skeleton of the helpers that reach it) and gen/jsonx_own.go (origin of "
    "every []byte result, package-level buffers and pools, how files are opened for writing)",
    "harness/cmd/jsonx + checks/jsonx_common.py comparison; jsonx/verif_export.go shim",
    "modelled, compared on every run, not verified: bufio.ReadRune UTF-8 decoding, strconv.Unquote, strconv.Quote, "
    "json.Marshal of strings, big.Int SetString/String, encoding/json as the reference JSON reader",
    "abstract (Section variables with stated laws): strconv.ParseFloat, json.Marshal of float64, unicode.IsPrint",
    "not modelled: positions of parser errors (checked to be token starts), error message texts; the user's TypeMaker is a parameter of the model (a type is "
    "unknown, or comes with the predicate 'strict decoding accepts this JSON text', which the harness computes with "
    "encoding/json itself)",
]


def nlist(xs):
    return "[" + ";".join(str(int(x)) for x in xs) + "]"


def nnlist(xss):
    return "[" + ";".join(nlist(x) for x in xss) + "]"


def ascii_list(s):
    return nlist(s.encode("utf-8"))


def errs(names):
    return nlist(ERR.get(n, 99) for n in (names or []))


def toks(ts):
    return "[" + ";".join("(%d,%s)" % (TY.get(t["t"], 99), nlist(t.get("l") or [])) for t in ts or []) + "]"


def ftable(fs):
    parts = []
    for f in fs or []:
        r = "Some %s" % ascii_list(f.get("j", "")) if f.get("ok") else "None"
        parts.append("(%s,%s)" % (ascii_list(f["l"]), r))
    return "[" + ";".join(parts) + "]"


def opt(x):
    return "None" if x is None else "(Some %s)" % x


def jtree(t):
    k = t["k"]
    if k == "null":
        return "JNull"
    if k == "bool":
        return "(JBool %s)" % ("true" if t["b"] else "false")
    if k == "num":
        return "(JNum %s)" % ascii_list(t["t"])
    if k == "str":
        return "(JStr %s)" % nlist(t.get("r") or [])
    if k == "arr":
        return "(JArr [" + ";".join(jtree(x) for x in t.get("a") or []) + "])"
    if k == "obj":
        return "(JObj [" + ";".join("(%s,%s)" % (nlist(m[0] or []), jtree(m[1])) for m in t.get("m") or []) + "])"
    raise ValueError(k)


def ptree(t):
    k = t["k"]
    if k == "null":
        return "PNull"
    if k == "bool":
        return "(PBool %s)" % ("true" if t["b"] else "false")
    if k == "num":
        return "(PNum %s)" % ascii_list(t["t"])
    if k == "str":
        return "(PStr %s)" % nlist(t.get("r") or [])
    if k == "arr":
        return "(PArr [" + ";".join(ptree(x) for x in t.get("a") or []) + "])"
    if k == "obj":
        return "(PObj [" + ";".join("(%s,%s)" % (nlist(m[0] or []), ptree(m[1])) for m in t.get("m") or []) + "])"
    raise ValueError(k)


def inbytes(c):
    return nlist(bytes.fromhex(c["in"]))


def to_coq(c):
    """Coq term for one observed case, or None when the observation cannot be
    expressed (crash, output that is not UTF-8): those count as mismatches."""
    o = c["obs"]
    if o.get("crash") or o.get("outhex"):
        return None
    op = c["op"]
    if op in ("file", "gort", "runes", "reuse", "targets", "lexfn", "hold", "bigrt", "deep", "reread", "bigfile"):
        return "CUtf8 [] []"      # compared by the oracle only
    if op in ("rstream", "rseries") and c.get("rmode") in (6, 7):
        return "CUtf8 [] []"      # a failing reader: oracle only (usage_oracle)
    if op == "rstream":
        op = "stream"             # the model does not depend on how the reader delivers the bytes
    if op == "rseries":
        op = "series"
    if op == "fhist":
        if c.get("pre") in ("dir", "missingdir"):
            return "CUtf8 [] []"   # must be an error: oracle only
        steps, nonprint = [], set()
        for tree, st in zip(c.get("pvs") or [], o.get("fsteps") or []):
            if st.get("werr") or st.get("out") is None:
                return None
            nonprint.update(st.get("nonprint") or [])
            steps.append("(%s,%s)" % (ptree(tree), nlist(st.get("out") or [])))
        return "CFileHist %s [%s]" % (nlist(sorted(nonprint)), ";".join(steps))
    if op == "script":
        steps = []
        for st in o.get("steps") or []:
            if st["op"] == "M":
                steps.append("SOMore %s" % ("true" if st.get("more") else "false"))
            elif st["op"] == "D":
                if st.get("ok"):
                    steps.append("SODec (Some %s) 0 []" % nlist(st.get("out") or []))
                else:
                    steps.append("SODec None %d %s" % (st.get("fin", 0), errs(st.get("errs"))))
            else:
                if st.get("ok"):
                    its = "[" + ";".join("(%s,%s)" % (nlist(it[0] or []), nlist(it[1] or []))
                                         for it in st.get("items") or []) + "]"
                    steps.append("SOSer (Some %s) []" % its)
                else:
                    steps.append("SOSer None %s" % errs(st.get("errs")))
        known = "[" + ";".join(ascii_list(k) for k in c.get("known") or []) + "]"
        ops = nlist({"M": 0, "D": 1, "S": 2}[ch] for ch in c.get("script", ""))
        return "CScript %s %s %s %s [%s]" % (inbytes(c), ftable(o.get("floats")), known, ops, ";".join(steps))
    if op == "utf8":
        return "CUtf8 %s %s" % (inbytes(c), nlist(o.get("out") or []))
    if op == "raw":
        return "CRaw %s %s %s" % (inbytes(c), toks(o.get("toks")), errs(o.get("errs")))
    if op == "rawpos":
        pl = o.get("pos") or []
        if not pl:
            return None
        pp = lambda xy: "(%d,%d)" % (xy[0], xy[1])
        if any(x < 0 for xy in pl + (o.get("epos") or []) for x in xy):
            return None
        return "CRawPos %s [%s] %s [%s]" % (inbytes(c), ";".join(pp(x) for x in pl[:-1]), pp(pl[-1]),
                                          ";".join(pp(x) for x in o.get("epos") or []))
    if op == "filtered":
        return "CFiltered %s %s %s" % (inbytes(c), toks(o.get("toks")), errs(o.get("errs")))
    if op == "ptokens":
        return "CPTokens %s %s %s" % (inbytes(c), toks(o.get("toks")), errs(o.get("errs")))
    if op == "tojson":
        out = nlist(o.get("out") or []) if o.get("ok") else None
        return "CToJson %s %s %s %s" % (inbytes(c), ftable(o.get("floats")), opt(out), errs(o.get("errs")))
    if op == "unmarshal":
        r = o.get("res")
        if r == "ok":
            ob = "(OOk %s)" % nlist(o.get("out") or [])
        elif r == "err":
            ob = "(OErr %d)" % ERR.get(o.get("first"), 99)
        elif r == "json":
            ob = "OJsonErr"
        else:
            ob = "OMore"
        return "CUnmarshal %s %s %s" % (inbytes(c), ftable(o.get("floats")), ob)
    if op == "series":
        out = None
        if o.get("ok"):
            out = "[" + ";".join("(%s,%s)" % (nlist(it[0] or []), nlist(it[1] or [])) for it in o.get("items") or []) + "]"
        known = "[" + ";".join(ascii_list(k) for k in c.get("known") or []) + "]"
        return "CSeries %s %s %s [] %s %s" % (inbytes(c), ftable(o.get("floats")), known, opt(out), errs(o.get("errs")))
    if op == "tseries":
        out = None
        if o.get("ok"):
            out = "[" + ";".join("(%s,%s)" % (nlist(it[0] or []), nlist(it[1] or [])) for it in o.get("items") or []) + "]"
        known = "[" + ";".join(ascii_list(k) for k in c.get("known") or []) + "]"
        rej = "[" + ";".join("(%s,%s)" % (nlist(it[0] or []), nlist(it[1] or [])) for it in o.get("rejects") or []) + "]"
        return "CSeries %s %s %s %s %s %s" % (inbytes(c), ftable(o.get("floats")), known, rej, opt(out),
                                              errs(o.get("errs")))
    if op == "stream":
        if o.get("note", "").startswith("More()"):
            return None
        return "CStream %s %s %s %d %s" % (inbytes(c), ftable(o.get("floats")), nnlist(o.get("vals") or []),
                                           o.get("fin", 0), errs(o.get("errs")))
    if op == "shell":
        out = nnlist(o.get("strs") or []) if o.get("ok") else None
        return "CShell %s %s %s" % (inbytes(c), opt(out), errs(o.get("errs")))
    if op == "unquote":
        out = nlist(o.get("out") or []) if o.get("ok") else None
        return "CUnquote %s %s" % (inbytes(c), opt(out))
    if op == "jsonquote":
        return "CJsonQuote %s %s" % (inbytes(c), nlist(o.get("out") or []))
    if op == "jsonparse":
        out = jtree(o["tree"]) if o.get("ok") else None
        return "CJsonParse %s %s" % (inbytes(c), opt(out))
    if op == "intlit":
        out = nlist(o.get("out") or []) if o.get("ok") else None
        return "CIntLit %s %s" % (inbytes(c), opt(out))
    if op == "goquote":
        return "CGoQuote %s %s %s" % (inbytes(c), nlist(o.get("nonprint") or []), nlist(o.get("out") or []))
    if op == "print":
        if not o.get("ok"):
            return None
        return "CPrint %s %s %s" % (ptree(c["pv"]), nlist(o.get("nonprint") or []), nlist(o.get("out") or []))
    raise ValueError(op)


HEADER = ("From Coq Require Import List NArith Bool.\n"
          "From Verif Require Import Lib.Utf8 Jsonx.Lex Jsonx.Json Jsonx.Print Jsonx.Corr.\n"
          "Import ListNotations.\nLocal Open Scope N_scope.\n")


def named_sizes(ck):
    """The integers >= 256 that lexing/, jsonx/ and strtoken/ name (gen/jsonx_own.go gen_int_literals): the
    bigtoken stream puts single tokens of these sizes through both round trips."""
    try:
        txt = open(os.path.join(vlib.COQ, "theories", "Gen", "JsonxOwn.v")).read()
        m = _re.search(r"gen_int_literals : list N := \[([^\]]*)\]", txt)
        vals = [int(x) for x in _re.findall(r"(\d+)%N", m.group(1))] if m else []
    except OSError:
        vals = []
    ck.coverage["integers_named_in_source"] = vals
    return ",".join(str(v) for v in vals)


def run_harness(ck, mode, n, timeout=1500):
    binp = ck.build_harness("jsonx")
    cases = []
    if not binp:
        return cases
    rc, out, err = vlib.sh2([binp, "-mode", mode, "-seed", str(ck.seed), "-n", str(n), "-sizes", named_sizes(ck)],
                            timeout=timeout)
    if rc != 0:
        ck.broken.append({"what": "harness run failed", "detail": err[-1500:]})
    for line in out.splitlines():
        if line.startswith("{"):
            cases.append(json.loads(line))
    skipped = [c for c in cases if (c.get("obs") or {}).get("note") == "skipped"]
    if skipped:
        ck.notes.append("%d cases not run: their operation stopped returning" % len(skipped))
        ck.coverage["cases_skipped_after_repeated_no_return"] = len(skipped)
    return [c for c in cases if (c.get("obs") or {}).get("note") != "skipped"]


def correspondence(ck, cases, shard=1000):
    """Evaluate the model on every case; returns the list of mismatching case
    indices (into cases) or None if evaluation itself failed."""
    terms = []
    mism = []
    for i, c in enumerate(cases):
        t = to_coq(c)
        if t is None:
            mism.append(i)
        else:
            terms.append((i, t))
    # round robin, so that a stream of expensive cases is spread over all shards
    nsh = max(1, -(-len(terms) // shard))
    shards = [terms[k::nsh] for k in range(nsh)]

    def ev(k):
        part = shards[k]
        txt = (HEADER + "Definition cases : list ccase := [\n  "
               + ";\n  ".join(t for _, t in part) + "\n].\n"
               "Definition M := Eval vm_compute in mismatches cases.\nPrint M.\n")
        rc, out = ck.coq_eval("cases_%d" % k, txt, timeout=300)
        got = vlib.parse_coq_list_of_nat(out, "M") if rc == 0 else None
        return k, got, out

    failed = False
    with ThreadPoolExecutor(max_workers=12) as ex:
        for k, got, out in ex.map(ev, range(len(shards))):
            if got is None:
                ck.broken.append({"what": "correspondence evaluation failed", "shard": k, "detail": out[-1500:]})
                failed = True
                continue
            mism += [shards[k][j][0] for j in got]
    ck.coverage["correspondence_cases"] = len(cases)
    ck.coverage["correspondence_mismatches"] = len(mism)
    return None if failed else sorted(mism)


def slim(c):
    """A case without bulky fields, for samples and replays."""
    d = {k: c[k] for k in c if k not in ("i", "pv", "pvs")}
    return d


def crash_kind(o):
    cr = o.get("crash") or ""
    if not cr:
        return None
    if "timeout" in cr or "out of memory" in cr or "cannot allocate" in cr:
        return "no-return"
    return "panic"


import re as _re

_NUM = _re.compile(r"n(-?\d*)\|([0-9a-f]+|inf)")


def same_value(want, got):
    """Compare two canonical value strings (harness canonJSON / canonV).  The
    skeletons (everything but numbers) must be equal; a number whose intended
    spelling is an integer literal must be reproduced exactly, any other
    number must read as the same float64."""
    if want is None or got is None:
        return False
    if _NUM.sub("N", want) != _NUM.sub("N", got):
        return False
    w, g = _NUM.findall(want), _NUM.findall(got)
    if len(w) != len(g):
        return False
    for (we, wb), (ge, gb) in zip(w, g):
        if we != "":
            if ge != we:
                return False
        elif wb != gb:
            return False
    return True


def run_one(binp, op, data, stream="replay", limit="700ms"):
    """Run the implementation on one input; returns the observed case or None."""
    rc, out, err = vlib.sh2([binp, "-oneop", op, "-onein", data.hex(), "-onestream", stream,
                             "-limit", limit], timeout=60)
    for line in out.splitlines():
        if line.startswith("{"):
            return json.loads(line)
    return None


def shrink(ck, case, still_fails, budget=120):
    """Delta-debugging on the input bytes of a failing case, re-running the
    implementation only (the oracle decides).  Returns the smallest failing
    case found (possibly the original)."""
    if case["op"] not in ("tojson", "unmarshal", "series", "tseries", "stream", "shell", "ptokens", "raw", "rawpos", "filtered"):
        return case
    binp = os.path.join(vlib.BUILD, "bin", "jsonx")
    if not os.path.exists(binp):
        return case
    best, data = case, bytes.fromhex(case["in"])
    n = 2
    tries = 0
    while len(data) >= 2 and tries < budget:
        chunk = max(1, len(data) // n)
        reduced = False
        for i in range(0, len(data), chunk):
            cand = data[:i] + data[i + chunk:]
            if not cand:
                continue
            tries += 1
            c2 = run_one(binp, case["op"], cand, case["stream"])
            if c2 is not None:
                for k in ("want", "reject"):
                    c2.pop(k, None)
                if still_fails(c2):
                    best, data, reduced = c2, cand, True
                    n = max(n - 1, 2)
                    break
            if tries >= budget:
                break
        if not reduced:
            if chunk == 1:
                break
            n = min(n * 2, len(data))
    return best


def scan_state(data):
    """Independent of the model: is the end of `data` inside a string, a block
    comment, or an unclosed bracket?  Used only on cuts of documents that are
    valid as a whole."""
    i, n, depth = 0, len(data), 0
    while i < n:
        c = data[i:i + 1]
        if c == b'"':
            i += 1
            while True:
                if i >= n:
                    return "string"
                if data[i:i + 1] == b"\\":
                    i += 2
                    if i > n:
                        return "string"
                    continue
                if data[i:i + 1] == b"\n":
                    return "string"
                if data[i:i + 1] == b'"':
                    i += 1
                    break
                i += 1
            continue
        if c == b"`":
            j = data.find(b"`", i + 1)
            if j < 0:
                return "string"
            i = j + 1
            continue
        if data[i:i + 2] == b"/*":
            j = data.find(b"*/", i + 2)
            if j < 0:
                return "comment"
            i = j + 2
            continue
        if data[i:i + 2] == b"//":
            j = data.find(b"\n", i)
            if j < 0:
                return None if depth == 0 else "bracket"
            i = j
            continue
        if c in (b"{", b"["):
            depth += 1
        elif c in (b"}", b"]"):
            depth -= 1
        i += 1
    return "bracket" if depth > 0 else None


def _shape(what, ok, es):
    """value xor errors; at most 20 errors"""
    if not ok and not es:
        return "neither", "%s returned neither a result nor an error" % what
    if ok and es:
        return "value-and-error", "%s returned a result and errors %s" % (what, es[:3])
    if len(es) > 20:
        return "cap", "%s returned %d errors, more than the cap of 20" % (what, len(es))
    return None


def usage_oracle(c):
    """Implementation-only oracle of the usage-pattern ops (round 3): a script
    of calls on one Decoder, shaped and failing readers, reuse of results,
    decoding targets, the other exported lexers, the spelling of raw tokens."""
    o, op = c["obs"], c["op"]
    if op == "script":
        if o.get("note"):
            return "decoder-script", o["note"]
        steps = o.get("steps") or []
        if len(steps) != len(c.get("script", "")):
            return "decoder-script", "the script %s ended after %d calls" % (c.get("script"), len(steps))
        want = c.get("wantsteps") or []
        for k, st in enumerate(steps):
            what = {"M": "More", "D": "Decode", "S": "DecodeSeries"}[st["op"]] + " (call %d of %s)" % (k + 1, c["script"])
            if st["op"] != "M":
                bad = _shape(what, st.get("ok"), st.get("errs") or [])
                if bad:
                    return bad
            if k >= len(want) or want[k] == "":
                continue
            w = want[k]
            if st["op"] == "M":
                if (w == "true") != bool(st.get("more")):
                    return "decoder-script", "%s returned %s, %s values are still to come" % (
                        what, st.get("more"), "some" if w == "true" else "no")
            elif w == "!":
                if st.get("ok"):
                    return "decoder-script", "%s returned a value (%s) where there is none" % (what, st.get("got"))
            elif not st.get("ok"):
                return "decoder-script", "%s failed (%s) on a valid document" % (what, (st.get("errs") or [])[:3])
            elif st["op"] == "D":
                if "E(" not in w and not same_value(w, st.get("got")):
                    return "meaning", "%s returned %s, the input denotes %s" % (what, st.get("got"), w)
            else:
                ws, gs = w.split("#"), (st.get("got") or "").split("#")
                if len(ws) != len(gs) or any(
                        a.split(" ", 1)[0] != b.split(" ", 1)[0] or
                        ("E(" not in a and not same_value(a.split(" ", 1)[1], b.split(" ", 1)[1] if " " in b else None))
                        for a, b in zip(ws, gs)):
                    return "meaning", "%s returned %s, the input denotes %s" % (what, st.get("got"), w)
        return None
    if op in ("rstream", "rseries"):
        if o.get("note"):
            return "reader-shape", o["note"]
        es = o.get("errs") or []
        failed = (not o.get("ok")) if op == "rseries" else o.get("fin", 0) != 0
        bad = _shape(op, not failed, es)
        if bad:
            return bad
        if c.get("rmode") in (6, 7):
            cut = bytes.fromhex(c["in"])[:c.get("cut", 0)]
            if op == "rseries" and (o.get("ok") or es != ["reader"]):
                return "reader-error-dropped", ("the reader failed after %d bytes; DecodeSeries returned %s" % (
                    c.get("cut", 0), "a result" if o.get("ok") else es[:3]))
            if op == "rstream" and o.get("ok") and scan_state(cut) in ("string", "bracket"):
                return "truncated-accepted", "the reader failed inside a %s; the Decode loop ended without an error" % scan_state(cut)
        return None
    if op in ("reuse", "targets", "lexfn"):
        if o.get("note"):
            return op, o["note"]
        return None
    if op == "deep":
        if o.get("note"):
            return "deep-nesting", o["note"]
        return None
    if op == "bigfile":
        if o.get("note"):
            return "file-truncated", o["note"]
        return None
    if op == "reread":
        if o.get("note"):
            return "file-reread", o["note"]
        return None
    if op == "bigrt":
        if o.get("note") or not o.get("ok"):
            return "token-size:%s" % c.get("pre"), o.get("note") or "failed"
        return None
    if op == "fhist":
        if o.get("note"):
            return "file-history", o["note"]
        if c.get("pre") in ("dir", "missingdir"):
            return None
        wants = c.get("wants") or []
        steps = o.get("fsteps") or []
        hist = "over %s" % {"": "a fresh path", "mode0600": "a file of mode 0600", "mode0444": "a file of mode 0444",
                            "longold": "a longer file that was there before", "symlink": "a symbolic link to a file",
                            "dangling": "a dangling symbolic link"}.get(c.get("pre", ""), c.get("pre"))
        for k, st in enumerate(steps):
            what = "WriteFile %d of %d on one path (%s)" % (k + 1, len(steps), hist)
            if st.get("werr"):
                if c.get("pre") == "mode0444":
                    return None   # not writable for this user: an error is right, and the history ends
                return "file-history", "%s failed: %s" % (what, st["werr"])
            if not st.get("same"):
                return "file-history", "%s: the file holds %s, which is not the text Marshal prints for the value" % (
                    what, st.get("text"))
            if st.get("rerr"):
                return "file-history", "%s: ReadFile rejects what WriteFile wrote (%s); the file holds %s" % (
                    what, st["rerr"], st.get("text"))
            if k < len(wants) and "E(" not in wants[k] and not same_value(wants[k], st.get("got")):
                return "file-history", "%s: ReadFile returned %s, the value written is %s" % (what, st.get("got"), wants[k])
        if len(steps) != len(wants):
            return "file-history", "the history ended after %d of %d steps" % (len(steps), len(wants))
        return None
    if op == "raw" and o.get("note"):
        return "spelling", "the raw tokens do not spell the input: %s" % o["note"]
    return None


def hold_oracle(ck, cases, k):
    """op hold: results kept since the previous hold case were looked at again
    after the cases in between ran.  A result that changed is reported with
    the batch of cases as replay."""
    c = cases[k]
    o = c["obs"]
    un = o.get("unstable") or []
    if not un:
        return False
    first = un[0]
    lo = first["i"]
    by_i = {x.get("i"): x for x in cases[max(0, k - 40):k + 1]}
    batch = [slim(by_i[j]) for j in range(lo, c.get("i", k)) if j in by_i and by_i[j]["op"] != "hold"]
    for b in batch:
        b.pop("obs", None)
    ck.violation("impl:result-overwritten:%s" % first["op"],
                 "%s by case %d (%s %s) changed while the %d following cases ran: returned %s, now %s "
                 "(%d of %d results held over this batch changed)" % (
                     first["what"], first["i"], first["op"], first["src"], len(batch) - 1,
                     first["before"], first["after"], o.get("fin", 0), o.get("n", 0)),
                 {"batch": batch, "changed": un, "expected": "a result stays what was returned until its owner changes it",
                  "observed": o})
    return True


def order_oracle(c):
    """Repeated keys: JSON objects are unordered, so a re-ordering of distinct keys keeps the meaning; but of a key
    that occurs more than once in an object the last occurrence wins: the occurrence that is last in the source
    must be last in the emitted JSON.  c["order"] / obs["order"]: for every object and every repeated key of it,
    the number of occurrences and the value of the last one (harness keyOrderJSON)."""
    o = c["obs"]
    if not c.get("order") or not o.get("ok") or "E(" in c["order"]:
        return None
    got_order = o.get("order")
    if got_order is None and c["op"] in ("tojson", "unmarshal") and o.get("valid"):
        got_order = ""          # the emitted JSON has no repeated key at all
    if got_order is not None and got_order != c["order"]:
        a, b = c["order"].split(" "), got_order.split(" ")
        diff = [x for x in a if x not in b][:1] or a[:1]
        got = [y for y in b if diff and y.split("=<")[0] == diff[0].split("=<")[0] and y not in a][:1]
        return "dup-key-order", ("a key that occurs more than once in an object - the last occurrence wins: in the source "
                                 "it is %s, in the emitted JSON %s (%s)" % (
                                     diff[0][:200] if diff else "?", got[0][:200] if got else b[:1], c.get("src", "")[:100]))
    return None


def file_oracle(c):
    """The file-level entry points (WriteFile, Fprint, Sprint, ReadFile,
    ReadFileMaybeJSON, ReadSeriesFile) must agree with the in-memory ones."""
    if c["op"] == "file" and (c["obs"].get("note") or not c["obs"].get("ok")):
        return "file-entry-point", "file-level entry point disagrees: %s" % (c["obs"].get("note") or c["obs"])
    return None
