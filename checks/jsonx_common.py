"""Shared pipeline of the three jsonx properties (C07, C08, C09): build, audit,
run the harness in one mode, turn observed cases into Coq terms, evaluate the
model on them inside Coq (Jsonx/Corr.v : mismatches)."""
import json
import os
from concurrent.futures import ThreadPoolExecutor

import vlib

MODEL = ["theories/Jsonx/Corr.vo"]

ERR = {
    "escNotTerm": 1, "lexing.unknownESC": 2, "illegalEscChar": 3, "invalidCodePoint": 4,
    "lexing.unexpectedEOF": 5, "lexing.unexpectedEndl": 6, "jsonx.illegalChar": 7,
    "shellIllegalChar": 8, "shellarg.invalidStr": 9, "lexing.unexpected": 10,
    "jsonx.expectOp": 11, "jsonx.stringLit": 12, "jsonx.floatLit": 13,
    "jsonx.expectObjectEntry": 14, "jsonx.unexpectedKeyword": 15, "jsonx.expectNumber": 16,
    "jsonx.expectOperand": 17, "jsonx.expectTypeName": 18, "jsonx.unknownType": 19,
    "jsonx.marshalJSON": 20, "encode": 21,
}

TY = {"keyword": 0, "ident": 1, "string": 2, "int": 3, "float": 4, "operator": 5, "semi": 6,
      "endl": 7, "eof": 8, "comment": 9, "illegal": 10, "bare": 11}

TRUSTED = [
    "Coq 8.16.1 kernel + vm_compute",
    "translator gen/jsonx.go (keyword set, token codes, operator runes, exponent signs, error cap, SkipErrStmt loop condition)",
    "harness/cmd/jsonx + checks/jsonx_common.py comparison; jsonx/verif_export.go shim",
    "modelled, compared on every run, not verified: bufio.ReadRune UTF-8 decoding, strconv.Unquote, strconv.Quote, "
    "json.Marshal of strings, big.Int SetString/String, encoding/json as the reference JSON reader",
    "abstract (Section variables with stated laws): strconv.ParseFloat, json.Marshal of float64, unicode.IsPrint",
    "not modelled: positions of parser errors (checked to be token starts), error message texts; the user's TypeMaker is a parameter of the model (a type is "
    "unknown, or comes with the predicate 'strict decoding accepts this JSON text', which the harness computes with "
    "encoding/json itself)",
]


def nlist(xs):
    return "[" + ";".join(str(int(x)) for x in xs) + "]"


def nnlist(xss):
    return "[" + ";".join(nlist(x) for x in xss) + "]"


def ascii_list(s):
    return nlist(s.encode("utf-8"))


def errs(names):
    return nlist(ERR.get(n, 99) for n in (names or []))


def toks(ts):
    return "[" + ";".join("(%d,%s)" % (TY.get(t["t"], 99), nlist(t.get("l") or [])) for t in ts or []) + "]"


def ftable(fs):
    parts = []
    for f in fs or []:
        r = "Some %s" % ascii_list(f.get("j", "")) if f.get("ok") else "None"
        parts.append("(%s,%s)" % (ascii_list(f["l"]), r))
    return "[" + ";".join(parts) + "]"


def opt(x):
    return "None" if x is None else "(Some %s)" % x


def jtree(t):
    k = t["k"]
    if k == "null":
        return "JNull"
    if k == "bool":
        return "(JBool %s)" % ("true" if t["b"] else "false")
    if k == "num":
        return "(JNum %s)" % ascii_list(t["t"])
    if k == "str":
        return "(JStr %s)" % nlist(t.get("r") or [])
    if k == "arr":
        return "(JArr [" + ";".join(jtree(x) for x in t.get("a") or []) + "])"
    if k == "obj":
        return "(JObj [" + ";".join("(%s,%s)" % (nlist(m[0] or []), jtree(m[1])) for m in t.get("m") or []) + "])"
    raise ValueError(k)


def ptree(t):
    k = t["k"]
    if k == "null":
        return "PNull"
    if k == "bool":
        return "(PBool %s)" % ("true" if t["b"] else "false")
    if k == "num":
        return "(PNum %s)" % ascii_list(t["t"])
    if k == "str":
        return "(PStr %s)" % nlist(t.get("r") or [])
    if k == "arr":
        return "(PArr [" + ";".join(ptree(x) for x in t.get("a") or []) + "])"
    if k == "obj":
        return "(PObj [" + ";".join("(%s,%s)" % (nlist(m[0] or []), ptree(m[1])) for m in t.get("m") or []) + "])"
    raise ValueError(k)


def inbytes(c):
    return nlist(bytes.fromhex(c["in"]))


def to_coq(c):
    """Coq term for one observed case, or None when the observation cannot be
    expressed (crash, output that is not UTF-8): those count as mismatches."""
    o = c["obs"]
    if o.get("crash") or o.get("outhex"):
        return None
    op = c["op"]
    if op in ("file", "gort", "runes"):
        return "CUtf8 [] []"      # compared by the oracle only
    if op == "utf8":
        return "CUtf8 %s %s" % (inbytes(c), nlist(o.get("out") or []))
    if op == "raw":
        return "CRaw %s %s %s" % (inbytes(c), toks(o.get("toks")), errs(o.get("errs")))
    if op == "rawpos":
        pl = o.get("pos") or []
        if not pl:
            return None
        pp = lambda xy: "(%d,%d)" % (xy[0], xy[1])
        if any(x < 0 for xy in pl + (o.get("epos") or []) for x in xy):
            return None
        return "CRawPos %s [%s] %s [%s]" % (inbytes(c), ";".join(pp(x) for x in pl[:-1]), pp(pl[-1]),
                                          ";".join(pp(x) for x in o.get("epos") or []))
    if op == "filtered":
        return "CFiltered %s %s %s" % (inbytes(c), toks(o.get("toks")), errs(o.get("errs")))
    if op == "ptokens":
        return "CPTokens %s %s %s" % (inbytes(c), toks(o.get("toks")), errs(o.get("errs")))
    if op == "tojson":
        out = nlist(o.get("out") or []) if o.get("ok") else None
        return "CToJson %s %s %s %s" % (inbytes(c), ftable(o.get("floats")), opt(out), errs(o.get("errs")))
    if op == "unmarshal":
        r = o.get("res")
        if r == "ok":
            ob = "(OOk %s)" % nlist(o.get("out") or [])
        elif r == "err":
            ob = "(OErr %d)" % ERR.get(o.get("first"), 99)
        elif r == "json":
            ob = "OJsonErr"
        else:
            ob = "OMore"
        return "CUnmarshal %s %s %s" % (inbytes(c), ftable(o.get("floats")), ob)
    if op == "series":
        out = None
        if o.get("ok"):
            out = "[" + ";".join("(%s,%s)" % (nlist(it[0] or []), nlist(it[1] or [])) for it in o.get("items") or []) + "]"
        known = "[" + ";".join(ascii_list(k) for k in c.get("known") or []) + "]"
        return "CSeries %s %s %s [] %s %s" % (inbytes(c), ftable(o.get("floats")), known, opt(out), errs(o.get("errs")))
    if op == "tseries":
        out = None
        if o.get("ok"):
            out = "[" + ";".join("(%s,%s)" % (nlist(it[0] or []), nlist(it[1] or [])) for it in o.get("items") or []) + "]"
        known = "[" + ";".join(ascii_list(k) for k in c.get("known") or []) + "]"
        rej = "[" + ";".join("(%s,%s)" % (nlist(it[0] or []), nlist(it[1] or [])) for it in o.get("rejects") or []) + "]"
        return "CSeries %s %s %s %s %s %s" % (inbytes(c), ftable(o.get("floats")), known, rej, opt(out),
                                              errs(o.get("errs")))
    if op == "stream":
        if o.get("note", "").startswith("More()"):
            return None
        return "CStream %s %s %s %d %s" % (inbytes(c), ftable(o.get("floats")), nnlist(o.get("vals") or []),
                                           o.get("fin", 0), errs(o.get("errs")))
    if op == "shell":
        out = nnlist(o.get("strs") or []) if o.get("ok") else None
        return "CShell %s %s %s" % (inbytes(c), opt(out), errs(o.get("errs")))
    if op == "unquote":
        out = nlist(o.get("out") or []) if o.get("ok") else None
        return "CUnquote %s %s" % (inbytes(c), opt(out))
    if op == "jsonquote":
        return "CJsonQuote %s %s" % (inbytes(c), nlist(o.get("out") or []))
    if op == "jsonparse":
        out = jtree(o["tree"]) if o.get("ok") else None
        return "CJsonParse %s %s" % (inbytes(c), opt(out))
    if op == "intlit":
        out = nlist(o.get("out") or []) if o.get("ok") else None
        return "CIntLit %s %s" % (inbytes(c), opt(out))
    if op == "goquote":
        return "CGoQuote %s %s %s" % (inbytes(c), nlist(o.get("nonprint") or []), nlist(o.get("out") or []))
    if op == "print":
        if not o.get("ok"):
            return None
        return "CPrint %s %s %s" % (ptree(c["pv"]), nlist(o.get("nonprint") or []), nlist(o.get("out") or []))
    raise ValueError(op)


HEADER = ("From Coq Require Import List NArith Bool.\n"
          "From Verif Require Import Lib.Utf8 Jsonx.Lex Jsonx.Json Jsonx.Print Jsonx.Corr.\n"
          "Import ListNotations.\nLocal Open Scope N_scope.\n")


def run_harness(ck, mode, n, timeout=1500):
    binp = ck.build_harness("jsonx")
    cases = []
    if not binp:
        return cases
    rc, out, err = vlib.sh2([binp, "-mode", mode, "-seed", str(ck.seed), "-n", str(n)], timeout=timeout)
    if rc != 0:
        ck.broken.append({"what": "harness run failed", "detail": err[-1500:]})
    for line in out.splitlines():
        if line.startswith("{"):
            cases.append(json.loads(line))
    skipped = [c for c in cases if (c.get("obs") or {}).get("note") == "skipped"]
    if skipped:
        ck.notes.append("%d cases not run: their operation stopped returning" % len(skipped))
        ck.coverage["cases_skipped_after_repeated_no_return"] = len(skipped)
    return [c for c in cases if (c.get("obs") or {}).get("note") != "skipped"]


def correspondence(ck, cases, shard=1200):
    """Evaluate the model on every case; returns the list of mismatching case
    indices (into cases) or None if evaluation itself failed."""
    terms = []
    mism = []
    for i, c in enumerate(cases):
        t = to_coq(c)
        if t is None:
            mism.append(i)
        else:
            terms.append((i, t))
    shards = [terms[s:s + shard] for s in range(0, len(terms), shard)]

    def ev(k):
        part = shards[k]
        txt = (HEADER + "Definition cases : list ccase := [\n  "
               + ";\n  ".join(t for _, t in part) + "\n].\n"
               "Definition M := Eval vm_compute in mismatches cases.\nPrint M.\n")
        rc, out = ck.coq_eval("cases_%d" % k, txt, timeout=300)
        got = vlib.parse_coq_list_of_nat(out, "M") if rc == 0 else None
        return k, got, out

    failed = False
    with ThreadPoolExecutor(max_workers=8) as ex:
        for k, got, out in ex.map(ev, range(len(shards))):
            if got is None:
                ck.broken.append({"what": "correspondence evaluation failed", "shard": k, "detail": out[-1500:]})
                failed = True
                continue
            mism += [shards[k][j][0] for j in got]
    ck.coverage["correspondence_cases"] = len(cases)
    ck.coverage["correspondence_mismatches"] = len(mism)
    return None if failed else sorted(mism)


def slim(c):
    """A case without bulky fields, for samples and replays."""
    d = {k: c[k] for k in c if k not in ("i", "pv")}
    return d


def crash_kind(o):
    cr = o.get("crash") or ""
    if not cr:
        return None
    if "timeout" in cr or "out of memory" in cr or "cannot allocate" in cr:
        return "no-return"
    return "panic"


import re as _re

_NUM = _re.compile(r"n(-?\d*)\|([0-9a-f]+|inf)")


def same_value(want, got):
    """Compare two canonical value strings (harness canonJSON / canonV).  The
    skeletons (everything but numbers) must be equal; a number whose intended
    spelling is an integer literal must be reproduced exactly, any other
    number must read as the same float64."""
    if want is None or got is None:
        return False
    if _NUM.sub("N", want) != _NUM.sub("N", got):
        return False
    w, g = _NUM.findall(want), _NUM.findall(got)
    if len(w) != len(g):
        return False
    for (we, wb), (ge, gb) in zip(w, g):
        if we != "":
            if ge != we:
                return False
        elif wb != gb:
            return False
    return True


def run_one(binp, op, data, stream="replay", limit="700ms"):
    """Run the implementation on one input; returns the observed case or None."""
    rc, out, err = vlib.sh2([binp, "-oneop", op, "-onein", data.hex(), "-onestream", stream,
                             "-limit", limit], timeout=60)
    for line in out.splitlines():
        if line.startswith("{"):
            return json.loads(line)
    return None


def shrink(ck, case, still_fails, budget=120):
    """Delta-debugging on the input bytes of a failing case, re-running the
    implementation only (the oracle decides).  Returns the smallest failing
    case found (possibly the original)."""
    if case["op"] not in ("tojson", "unmarshal", "series", "tseries", "stream", "shell", "ptokens", "raw", "rawpos", "filtered"):
        return case
    binp = os.path.join(vlib.BUILD, "bin", "jsonx")
    if not os.path.exists(binp):
        return case
    best, data = case, bytes.fromhex(case["in"])
    n = 2
    tries = 0
    while len(data) >= 2 and tries < budget:
        chunk = max(1, len(data) // n)
        reduced = False
        for i in range(0, len(data), chunk):
            cand = data[:i] + data[i + chunk:]
            if not cand:
                continue
            tries += 1
            c2 = run_one(binp, case["op"], cand, case["stream"])
            if c2 is not None:
                for k in ("want", "reject"):
                    c2.pop(k, None)
                if still_fails(c2):
                    best, data, reduced = c2, cand, True
                    n = max(n - 1, 2)
                    break
            if tries >= budget:
                break
        if not reduced:
            if chunk == 1:
                break
            n = min(n * 2, len(data))
    return best


def file_oracle(c):
    """The file-level entry points (WriteFile, Fprint, Sprint, ReadFile,
    ReadFileMaybeJSON, ReadSeriesFile) must agree with the in-memory ones."""
    if c["op"] == "file" and (c["obs"].get("note") or not c["obs"].get("ok")):
        return "file-entry-point", "file-level entry point disagrees: %s" % (c["obs"].get("note") or c["obs"])
    return None
