"""C07 — jsonx: Marshal followed by Unmarshal returns the same value
(DESIGN.md §7 C07)."""
import vlib
import jsonx_common as J

META = {
    "category": "proof",
    "text": "Coq theorems over the executable model of the JSONx printer, lexer, parser and encoder: every number "
            "literal, quoted string and key the printer can emit is lexed back as exactly one token covering the whole "
            "literal, and decoding the printed document yields the JSON text of the original value, for every nesting "
            "of arrays and objects (induction on the value); the bytes Marshal returns are owned by the caller (origin of "
            "every []byte result extracted from the source, heap model with caller writes); after any history of "
            "WriteFile calls ReadFile returns the last value written (the file as state; how WriteFile opens the file "
            "is extracted from the source). Tied to the code by a translator of constants and by "
            "differential runs of Marshal and Unmarshal (printer output, decoder output, strconv.Quote) evaluated in Coq.",
    "note": "Trusted: Coq kernel + vm_compute; translator gen/jsonx.go; harness + shim; strconv.Quote / Unquote and "
            "encoding/json are modelled and compared on every run, not verified; unicode.IsPrint and float "
            "formatting are abstract (the number text is whatever json.Marshal printed).",
    "technique": "Coq proof (lexer compositionality + induction on the value) + go/ast translation of constants + "
                 "vm_compute correspondence",
}

PROOFS = ["theories/Props/C07.vo"]
STATEMENT_FILES = ["theories/Props/C07.v", "theories/Jsonx/ConstsGen.v"]


def impl_oracle(c):
    o = c["obs"]
    kind = J.crash_kind(o)
    if kind:
        return kind, "%s: %s" % (c["op"], o["crash"][:160])
    if c["op"] == "file":
        return J.file_oracle(c)
    if c["op"] in ("reuse", "fhist", "bigrt", "reread"):
        return J.usage_oracle(c)
    if c["op"] == "gort":
        r = o.get("res")
        if r in ("marshal-mismatch", "unmarshalerr", "json-rejects") or not o.get("ok"):
            return "go-value-" + (r or "failed"), "%s (%s)" % (o.get("note"), c.get("src"))
        if r == "ok" and not o.get("deep"):
            loose = c.get("loose") or o.get("canon") is False
            if not (loose and o.get("jsoneq") and J.same_value(o.get("want2"), o.get("got"))):
                return "go-value-changed", ("Marshal printed %s; Unmarshal into the same Go type gives %s, "
                                            "encoding/json's own round trip gives %s" % (
                                                o.get("text"), o.get("got"), o.get("want2")))
    if c["op"] == "runes":
        if not o.get("ok"):
            return "code-point", o.get("note") or "failed"
    if c["op"] == "print":
        if not o.get("ok"):
            return "marshal-failed", "Marshal failed: %s" % o.get("note")
        if o.get("res") != "ok":
            return "not-accepted", "Unmarshal rejects what Marshal printed (%s): %s" % (o.get("text"), o.get("note"))
        if not J.same_value(c.get("want"), o.get("got")):
            return "value-changed", "Marshal printed %s; Unmarshal read %s, the original is %s" % (
                o.get("text"), o.get("got"), c.get("want"))
    return None


def run(ck):
    n = 5000 if not ck.thorough else 50000
    ck.gen()
    built = ck.coq_make(J.MODEL + PROOFS, clean=ck.thorough)
    ck.obligations = ck.count_statements(STATEMENT_FILES)
    proofs_ok = all(built.get(x) for x in PROOFS)
    if proofs_ok and ck.audit("theories/Props/C07.v"):
        ck.discharged = list(ck.obligations)
    if ck.thorough and proofs_ok:
        ck.coqchk(["Verif.Props.C07"])

    cases = J.run_harness(ck, "c07", n)
    for k, c in enumerate(cases):
        if c["op"] == "hold":
            ck.coverage["results_held_across_later_cases"] = ck.coverage.get("results_held_across_later_cases", 0) + (c["obs"].get("n") or 0)
            if not J.crash_kind(c["obs"]):
                J.hold_oracle(ck, cases, k)
                continue
        trivial = c["op"] == "print" and c["in"] in ("6e756c6c",)
        if c["op"] == "gort":
            o = c["obs"]
            ck.coverage["go_values_" + (o.get("res") or "crash")] = ck.coverage.get("go_values_" + (o.get("res") or "crash"), 0) + 1
            if o.get("ident"):
                ck.coverage["go_values_identical"] = ck.coverage.get("go_values_identical", 0) + 1
            if o.get("res") == "ok" and not o.get("deep"):
                ck.coverage["go_values_json_equal_only"] = ck.coverage.get("go_values_json_equal_only", 0) + 1
        if c["op"] == "runes":
            ck.coverage["code_points_swept"] = ck.coverage.get("code_points_swept", 0) + (c["obs"].get("n") or 0)
        ck.count(c["stream"] + ":" + c["op"], key=(c["op"], c["in"], c.get("pre"), c.get("cut")), trivial=trivial)
        bad = impl_oracle(c)
        if bad:
            ck.violation("impl:%s:%s" % (bad[0], c["stream"]), bad[1],
                         {"case": J.slim(c), "expected": c.get("want"), "observed": c["obs"]})
    for c in cases[:2] + cases[100:102] + cases[-2:]:
        ck.sample(J.slim(c))

    model_ok = all(built.get(x) for x in J.MODEL)
    if cases and model_ok:
        mism = J.correspondence(ck, cases)
        for i in (mism or [])[:60]:
            c = cases[i]
            ck.broken.append({"what": "correspondence: model and implementation disagree",
                              "stream": c["stream"], "op": c["op"], "case_index": i, "input": c.get("src")})
            if impl_oracle(c) is None:
                ck.violation("corr:%s" % c["op"],
                             "implementation output differs from the proved model of jsonx",
                             {"case": J.slim(c), "model": "Jsonx/Corr.v check_case = false", "observed": c["obs"]})
    elif cases:
        ck.broken.append({"what": "model does not compile; correspondence not evaluated"})

    return ck.finish(
        level="proof",
        checker_cmd="bin/check C07 (gen -> make -C coq theories/Props/C07.vo -> Print Assumptions audit -> "
                    "harness jsonx -mode c07 vs vm_compute of Jsonx/Corr.v)",
        trusted=J.TRUSTED,
        rule="fixed values first (1000000, 1e21, -1.5, 2^63+1, -2^53-1, ...); seeded (splitmix64) Go values: floats "
             "from a pool covering every formatting regime and from random bit patterns, int64/uint64 extremes, "
             "json.Number, strings over control / quote / backslash / U+2028 / astral / U+FFFD code points, maps with "
             "identifier, keyword and arbitrary keys, structs, containers 0..3 deep. Each value goes through Marshal "
             "then Unmarshal; the printed text also goes through the model's printer and decoder. Go values of concrete "
             "types (struct tags incl. '-', omitempty, ',string', embedded and unexported fields; maps keyed by int, "
             "TextMarshaler, number-like and keyword-like strings; nested pointers; json.Number; []byte (base64); "
             "RawMessage, time.Time, a Marshaler writing unusual but valid JSON; NaN/Inf, channels, cycles, which "
             "json.Marshal rejects; uint64 above 2^53 in interface{}) go through Marshal -> Unmarshal into a new value "
             "of the same type and are compared (reflect.DeepEqual, else JSON equality for holders of JSON text) with "
             "encoding/json's own round trip. Code points: both ends and neighbours of every range of every Unicode "
             "category (sampled in the quick tier) through strconv.Quote and the printer against the model with the "
             "unicode.IsPrint table; blocks of 1024 code points (all 1088 blocks in the thorough tier, a seeded tenth "
             "plus everything below U+3000 otherwise) through strconv.Quote per code point and the real round trip as "
             "value and as key. Usage patterns (round 3): every integer -130..130, powers of ten and their "
             "neighbours in every Go integer and float type, short json.Number spellings; strings and keys longer "
             "than 4096 bytes, wide and deep containers; two to five values through Marshal one after the other "
             "(the bytes of the first result intact after the next call, the same text twice) and from 8 goroutines "
             "(Marshal, Sprint); Fprint into writers that fail at Write call k (for good, or once) must return an "
             "error; WriteFile into a missing directory. File histories on ONE path: two to eight WriteFile calls over "
             "the same file (texts shrinking, growing, of equal length, scalars over objects, empty containers), each "
             "followed by a byte comparison of the file with Marshal's output and by ReadFile; over a fresh path, a "
             "file of mode 0600 / 0444, a longer file WriteFile did not write, a symbolic link to a file, a dangling "
             "link; a directory and a missing directory must be errors. Single tokens of the sizes the source names (every "
             "integer >= 256 in lexing/, jsonx/, strtoken/ as extracted by the translator: l-3 .. l+1 and 2l+1) and of "
             "64 KiB, 1 MiB-1, 1 MiB, 1 MiB+1, 3 MiB: a string, an all-escapes string, a quoted key, a bare key, a "
             "[]byte (one base64 string), an integer literal (up to 128 KiB) through Marshal -> Unmarshal and "
             "WriteFile -> ReadFile (implementation only). Re-reading: WriteFile(v1), ReadFile, ReadFile again, "
             "WriteFile(v2) of the same text length with the time stamp restored, rewrites through os.WriteFile, "
             "another length, a second path with the same content, a text that does not parse, a series file - every "
             "ReadFile / ReadFileMaybeJSON / ReadSeriesFile must return what the bytes on disk hold at that moment. "
             "Trivial = the value "
             "nil; distinct = distinct (operation, json.Marshal of the value).",
        assumptions=["values are those json.Marshal can encode", "unicode.IsPrint(0x0A) = false"])
