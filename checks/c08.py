"""C08 — jsonx/lexing: parsing terminates on every input, with a value or an
error (DESIGN.md §7 C08)."""
import json

import code_tie
import vlib
import jsonx_common as J

META = {
    "category": "proof",
    "text": "Coq theorems over an executable model of lexing/, jsonx/ and strtoken: for every byte string the lexer "
            "yields a finite token list without panicking (structural), the fuel-driven recursive-descent parser "
            "(value, typed series with SkipErrStmt recovery, ToJSON, Unmarshal, command-line splitting) never runs out "
            "of fuel 2*|tokens|+8 and never panics, every entry point returns a value or at least one error, one Decoder "
            "driven by any sequence of More / Decode / DecodeSeries calls returns at every call (and is unusable after a "
            "parse error), and input cut inside a string, a block comment or an open bracket is rejected (end to end, read "
            "off the tokens of the whole input; strtoken.Parse included). The model is tied to the code on every "
            "run by a translator (keyword set, token codes, operator runes, exponent signs, error cap, the loop condition "
            "of SkipErrStmt) and by differential runs of the real code in a watched child process, evaluated inside Coq.",
    "note": "Trusted: Coq kernel + vm_compute; translator gen/jsonx.go; harness + shim; bufio.ReadRune decoding and "
            "strconv.Unquote are modelled and compared, not verified; strconv.ParseFloat is abstract; token positions, "
            "message texts and the caller's TypeMaker are not modelled; no axioms.",
    "technique": "Coq proof (structural recursion for the lexer, fuel + measure for the parser) + go/ast translation of "
                 "constants and the recovery-loop condition + vm_compute correspondence under a watchdog",
}

PROOFS = ["theories/Props/C08.vo"]
STATEMENT_FILES = ["theories/Props/C08.v", "theories/Jsonx/ConstsGen.v"]
SEMANTIC_TIE = code_tie.functions("C08")   # Go bodies proved equal to the model (Props/C08Code.v)


scan_state = J.scan_state


def impl_oracle(c):
    """The property read off the implementation's behaviour alone."""
    o = c["obs"]
    kind = J.crash_kind(o)
    if kind == "no-return":
        if c["op"] == "deep":
            return "no-return", "Unmarshal / ToJSON / DecodeSeries did not return within the watchdog's limit on %s" % c.get("src")
        return "no-return", "%s did not return (watchdog): %s" % (c["op"], o["crash"][:160])
    if kind == "panic":
        return "panic", "%s panicked: %s" % (c["op"], o["crash"][:200])
    op = c["op"]
    if op == "file":
        return J.file_oracle(c)
    if op in ("script", "rstream", "rseries", "reuse", "targets", "lexfn", "raw", "deep"):
        return J.usage_oracle(c)
    if op == "rawpos" and o.get("note"):
        return "position", o["note"]
    if op in ("tseries", "stream") and o.get("note"):
        return ("value-and-error" if "together" in o["note"] else "decoder"), "%s: %s" % (op, o["note"])
    if op in ("tojson", "series", "shell") and o.get("note"):
        return "value-and-error", "%s: %s" % (op, o["note"])
    # what the caller sees of the error list: never empty on failure, never a
    # result with errors, never more than the cap of lexing.ErrorList (the
    # strings strconv.Unquote rejects in strtoken.Parse are a plain slice)
    if op in ("tojson", "series", "tseries", "shell", "stream"):
        es = o.get("errs") or []
        failed = (not o.get("ok")) if op != "stream" else o.get("fin", 0) != 0
        if failed and not es:
            return "neither", "%s returned neither a result nor an error" % op
        if not failed and es:
            return "value-and-error", "%s returned a result and errors %s" % (op, es[:3])
        if len(es) > 20 and not (op == "shell" and set(es) == {"shellarg.invalidStr"}):
            return "cap", "%s returned %d errors, more than the cap of 20" % (op, len(es))
    if op == "tojson" and o.get("ok") and o.get("out") is None and not o.get("outhex"):
        return "neither", "ToJSON returned neither output nor error"
    if c["stream"] in ("prefix", "cut", "corpus") and op in ("unmarshal", "series"):
        data = bytes.fromhex(c["in"])
        if op == "series" and c["stream"] == "cut":
            pass
        st = scan_state(data)
        if st and o.get("ok"):
            return "truncated-accepted", "%s accepted input that ends inside a %s" % (op, st)
    return None


def run(ck):
    n = 3000 if not ck.thorough else 30000
    ck.gen()
    built = ck.coq_make(J.MODEL + PROOFS, clean=ck.thorough)
    ck.obligations = ck.count_statements(STATEMENT_FILES)
    proofs_ok = all(built.get(x) for x in PROOFS)
    if proofs_ok and ck.audit("theories/Props/C08.v"):
        ck.discharged = list(ck.obligations)
    if ck.thorough and proofs_ok:
        ck.coqchk(["Verif.Props.C08"])
    code_tie.run(ck, "C08")

    cases = J.run_harness(ck, "c08", n)
    shrunk = set()
    for k, c in enumerate(cases):
        if c["op"] == "hold":
            ck.coverage["results_held_across_later_cases"] = ck.coverage.get("results_held_across_later_cases", 0) + (c["obs"].get("n") or 0)
            if not J.crash_kind(c["obs"]):
                J.hold_oracle(ck, cases, k)
                continue
        data = bytes.fromhex(c["in"])
        ck.count(c["stream"] + ":" + c["op"], key=(c["op"], c["in"], tuple(c.get("known") or []), c.get("script"), c.get("rmode"), c.get("cut")),
                 trivial=len(data) == 0)
        bad = impl_oracle(c)
        if bad:
            key = "impl:%s:%s" % (bad[0], c["op"])
            rep = {"case": J.slim(c), "expected": "returns within the deadline, without panic, with a result "
                                                  "or at least one error; truncated input rejected",
                   "observed": c["obs"]}
            if key not in shrunk and bad[0] in ("no-return", "panic"):
                shrunk.add(key)
                small = J.shrink(ck, c, lambda c2: (impl_oracle(c2) or (None,))[0] == bad[0], budget=40)
                if small is not c:
                    rep["minimized_case"] = J.slim(small)
            ck.violation(key, bad[1], rep)
    for c in cases[:1] + cases[30:31] + cases[400:402] + cases[-2:]:
        ck.sample(J.slim(c))

    model_ok = all(built.get(x) for x in J.MODEL)
    if cases and model_ok:
        mism = J.correspondence(ck, cases)
        for i in (mism or [])[:60]:
            c = cases[i]
            ck.broken.append({"what": "correspondence: model and implementation disagree",
                              "stream": c["stream"], "op": c["op"], "case_index": i, "input": c.get("src")})
            if impl_oracle(c) is None:
                ck.violation("corr:%s" % c["op"],
                             "implementation output differs from the proved model of lexing/jsonx",
                             {"case": J.slim(c), "model": "Jsonx/Corr.v check_case = false", "observed": c["obs"]})
    elif cases:
        ck.broken.append({"what": "model does not compile; correspondence not evaluated"})

    return ck.finish(
        level="proof",
        checker_cmd="bin/check C08 (gen -> make -C coq theories/Props/C08.vo -> Print Assumptions audit -> "
                    "harness jsonx -mode c08 in watched child processes vs vm_compute of Jsonx/Corr.v)",
        trusted=J.TRUSTED,
        rule="fixed failing inputs first; documents with 19, 20, 21, 22, 40 errors of each kind (bad type name, missing "
             "comma, no operand, bad object entry, sign without number, missing separator, lexing errors, unknown type) "
             "followed by each kind of truncated tail; every prefix of 12 documents; single-token deletions and insertions; all "
             "token sequences of length <= 3 over a 16/12/8-symbol alphabet rendered to text; seeded (splitmix64) "
             "malformed bytes, invalid UTF-8, mutated documents, generated valid documents and their cuts; sequences of "
             "0-4 values read by one Decoder (for More() { Decode }) and their cuts; typed series decoded into real "
             "struct types (unknown fields, type mismatches, unknown types) and their cuts; command "
             "lines; (line, column) of every raw token, of EOF and of every lexing error on documents (LF and CRLF), "
             "multi-line strings and comments, non-ASCII and invalid UTF-8, against the model's positions, and every "
             "error position of ToJSON / DecodeSeries must be the start of a token. "
             "Each input is run through DecodeSeries / Unmarshal / ToJSON / the token chain / strtoken.Parse. "
             "Usage patterns (round 3): ONE Decoder driven by a script of More / Decode / DecodeSeries calls (Decode "
             "without More, More repeated, calls after a call that failed, a series after a header value, a series "
             "twice), with intended values for valid documents and the proved model Jsonx/Script.v for every script; "
             "Decoders fed by io.Readers of every legal shape (one byte per Read, small chunks, data together with "
             "EOF, empty reads, 4096-k chunks) and by readers that fail after k bytes (DecodeSeries must return "
             "exactly the reader's error); two to five documents through ToJSON / Unmarshal / DecodeSeries / "
             "strtoken.Parse one after the other and from 8 goroutines (results not sharing memory, inputs not "
             "written to); the exported lexers no entry point reaches (comment lexer, word lexer, '-quoted literals, "
             "a lexer without LexFunc) - tokens must spell the input; TypeMakers returning a non-pointer, a nil "
             "pointer, a map by value, a filled value, *chan; every token kind and a 4-byte rune across byte 4096 "
             "of the input (bufio's buffer), tokens longer than it, nesting 1000 deep; every string up to length 4 "
             "over a \" \\ space LF x 4 and command lines ending inside a quote or an escape; the raw tokens of "
             "every raw case must spell the input. Deep nesting: l-1, l, l+1, 2l+1 levels of '[' and of '{a:' for every "
             "integer l the source names (up to 25000) and for 1000 / 10001 / 20001, closed, not closed, half closed, "
             "through Unmarshal, ToJSON and DecodeSeries under the watchdog (implementation only). "
             "A case is trivial if its input is empty; distinct = distinct (operation, input bytes).",
        assumptions=["the io.Reader given to the lexer does not fail (inputs are byte slices / strings)",
                     "strconv.ParseFloat terminates and returns a value or an error",
                     "the TypeMaker and json decoding into the caller's value terminate"])
