"""C04 — sniproxy: loss or shutdown of an endpoint never strands a caller (DESIGN.md §7 C04)."""
import json
import os

import rpc_common
import vlib

META = {
    "category": "proof",
    "text": "Coq theorems over an interleaving model of the transport's blocking structure (serve loop and its "
            "deferred exit, reader hand-off, any number of callers with never-cancelled / cancellable contexts, "
            "closeAll), whose select arms are read off /repo on every run: once serveDone is closed every caller "
            "and the reader are enabled in every state, each returns (and closeAll closes the front connection) "
            "within 4 own steps under any scheduling of the others, hence -- under weak fairness -- in every "
            "infinite schedule; the loss of the connection leads to serveDone in 3 serve steps nobody can disable; "
            "serve's exit leaves no pending call "
            "uncompleted and no queued call lost; Accept/Close/sendAccept/mailbox selects have a guard arm; the "
            "pinned tree's shape is kept as a refuted counter-model (a closeAll thread and the reader provably "
            "stuck for ever). Fault scenarios (loss while idle / mid-call / after a failed write / during "
            "shutdown, late calls) run against the real transport and are replayed on the model inside Coq; "
            "end-to-end runs with a real Server, Endpoint, TLS backend and front connections, the server thread "
            "held in the stranding window, check front EOF, unregistration, ServeFront return and the goroutine "
            "profile. Endpoint side of the shutdown: an interleaving model of the endpoint's serve loop (exit, "
            "conns.shutdown(), closing the returned connections, callWait.Wait()), its connection set, any number "
            "of dial handlers (sendAccept's select with the arms and the backlog capacity read off the source, "
            "conns.add failing once the set is shut down), read/write/close handlers, and the application's Accept "
            "and Close; which exits of handleDial close the connection is computed by symbolic execution of the "
            "statements the translator extracts, with the obligation that every exit that does not register the "
            "connection closes it. Proved for every interleaving: a connection handed to Accept is closed, or in a "
            "set still to be cleaned, or its handler has not finished; when serve has returned every connection "
            "ever handed out is closed; after the loop is left some goroutine of the endpoint can always step, "
            "their steps are bounded, serve returns without help from the application or the peer. The shape of "
            "seeded change C04-e (no close after a failed conns.add) is kept as a refuted counter-model with a "
            "concrete schedule. The accept-backlog scenarios (backlog of 10 full, 5-30 more dials parked in "
            "sendAccept, control connection severed on either side / kicked / shut down / endpoint closed by the "
            "application, then the application drains Accept) run against a real Server and Endpoint: Accept "
            "returns, every accepted connection's pending Read, later Read and Write return, Endpoint.Close "
            "returns, every front connection is closed, nothing is left; also in the side modes, and there also with an "
            "application-supplied websocket dialer and a proxy that never answers the side upgrade (the side handler's "
            "dial is bounded by a deadline of its own: read off sideConn, theorem, unbounded variant refuted). endpointClient.Close "
            "(kick, ServeBackName's defer) reaches c.conn.Close() within its time-out for {hint first | not} x {peer "
            "answers | silent}: the blocking points of transport.shutdown are read off the source with the obligation "
            "that each has an arm on the caller's context; a bare receive on serveDone is kept as a refuted "
            "counter-model.",
    "note": "Partial (runtime): the theorems give enabledness and a bound on own steps; that an enabled goroutine "
            "runs is Go's scheduler; TCP close/reset timing, the websocket close handshake and Go timers are not "
            "modelled (10 s observation bounds stand in for bounded time). Trusted: Coq kernel + vm_compute; "
            "translator gen/sni_rpc.go; harness/cmd/c04 + sniproxy/verif_rpc.go + verif_point.go.",
    "technique": "Coq proof (progress from guardedness of regenerated select arms, inductive invariants over an "
                 "interleaving semantics, refuted legacy model) + forced-schedule fault injection with vm_compute "
                 "correspondence + goroutine-profile observation",
}

MODEL = ["theories/Sni/ShutdownCorr.vo"]
PROOFS = ["theories/Props/C04.vo"]
STATEMENT_FILES = ["theories/Props/C04.v", "theories/Sni/ShutdownGen.v", "theories/Sni/ShutdownDialGen.v"]

BACKLOG = 10        # cap(Endpoint.incoming), checked against the source by gen_newEndpoint_frozen


def b(x):
    return "true" if x else "false"


def env(st):
    op = st["op"]
    if op == "new":
        ctx = "CtxNever" if st.get("ctx") == "never" else "CtxOpen"
        return "EnvNew %d %s %s %s %s" % (st["k"], ctx, b(st.get("kind") == "shutdown"),
                                          b(st.get("kind") == "closeall"), b(st.get("kind") == "sidedial"))
    if op == "deliver":
        return "EnvDeliver %d" % st["k"]
    if op == "reply":
        return "EnvFrame %d %s" % (st["k"], b(st.get("good")))
    if op == "sever":
        return "EnvSever"
    if op == "break":
        return "EnvBreak"
    if op == "cancel":
        return "EnvCancel %d" % st["k"]
    raise ValueError(op)


def envs(c):
    out = []
    for st in c["steps"]:
        if st["op"] == "stall":
            continue            # the peer stops reading: no event of the model
        if st["op"] == "burst":
            for j in range(st.get("n", 0)):
                out.append(env({"op": "new", "k": st["k"] + j, "ctx": "never", "kind": st.get("kind")}))
        else:
            out.append(env(st))
    return out


def to_coq(c):
    return "mkCase [%s] [%s] %s %s" % (
        "; ".join(envs(c)),
        "; ".join("(%d%%N, (%s, %s))" % (x["k"], b(x["returned"]), b(x["front"])) for x in c.get("callers", [])),
        b(c.get("reader_alive")), b(c.get("serve_done")))


def impl_oracle(c):
    """Model-free reading of the property."""
    out = []
    if c.get("crash"):
        return [("crash", "the process crashed: %s" % c["crash"][:200])]
    if c.get("hang"):
        out.append(("hang", "no progress within the observation bound: %s" % c["hang"]))
    if c["stream"] == "tl":
        # every scenario ends with the connection gone: nobody may be left waiting
        for x in c.get("callers", []):
            if not x["returned"]:
                out.append(("caller-stranded",
                            "%s call %d (context %s) had not returned %s after the control connection was lost"
                            % (x["kind"], x["k"], x["ctx"], "10 s")))
            elif x["kind"] == "closeall" and not x["front"]:
                out.append(("front-not-closed", "closeAll %d returned without closing the front connection" % x["k"]))
        if c.get("reader_alive"):
            out.append(("reader-stranded", "a goroutine is still inside transport.serveRead/handleMessage "
                                           "after the connection was lost"))
        if not c.get("serve_done"):
            out.append(("serve-not-done", "the serve loop did not exit after the connection was lost"))
        return out
    if c["stream"] == "epb":
        return epb_oracle(c, out)
    if c["stream"] == "ep":
        for x in c.get("ep", []):
            if not x["returned"]:
                out.append(("%s-stuck" % x["kind"],
                            "endpoint side, scenario '%s': a goroutine in %s had not returned after 10 s"
                            % (c["fault"], {"accept": "Endpoint.Accept", "close": "Endpoint.Close",
                                            "dial": "Dial (sendAccept on the endpoint)"}[x["kind"]])))
            elif c["fault"] == "sendaccept-close" and x["kind"] == "dial" and x.get("after_ms", 0) > 3000:
                out.append(("sendaccept-not-released",
                            "a dial whose sendAccept was waiting for somebody to accept returned only %d ms after "
                            "Endpoint.Close had returned (p.closed must release it at once)" % x["after_ms"]))
        if c.get("sendaccept_left", 0) > 0:
            out.append(("sendaccept-not-released",
                        "%d goroutine(s) are still waiting in Endpoint.sendAccept 3 s after Endpoint.Close returned "
                        "(closing p.closed must release them at once)" % c["sendaccept_left"]))
        if c.get("close_ms", 0) > 8000:
            out.append(("close-slow", "Endpoint.Close took %d ms (its graceful wait is bounded by a 5 s timer)"
                        % c["close_ms"]))
        if c.get("leak"):
            out.append(("goroutine-left", "goroutines still inside sniproxy/netutil after teardown: %s"
                        % ", ".join(sorted(set(c["leak"]))[:4])))
        return out
    # e2e
    fc = c.get("front_closed") or []
    side = c["fault"].startswith("side-")
    if c.get("mid_dial") == "stuck":
        out.append(("side-dial-stranded", "a front connection whose side dial was in flight when the endpoint was "
                                          "kicked is still waiting 12 s later"))
    if not all(fc) and not side:      # (side connections are not multiplexed over the control connection)
        out.append(("front-not-closed", "%d of %d tunnelled front connections were not closed by the proxy within "
                                        "10 s of the fault '%s'" % (len([x for x in fc if not x]), len(fc), c["fault"])))
    if not c.get("unregistered"):
        out.append(("still-registered", "the lost endpoint is still registered under its name"))
    if not c.get("servefront_returned"):
        out.append(("servefront-stuck", "ServeFront did not return within 10 s of its context being cancelled"))
    if not c.get("accept_returned", True):
        out.append(("accept-stuck", "Accept on the endpoint still blocks 10 s after the server dropped the "
                                    "endpoint (fault '%s'): the control websocket was not closed" % c["fault"]))
    if not c.get("serveback_returned"):
        out.append(("serveback-stuck", "ServeBack did not return for the lost endpoint"))
    if c.get("leak"):
        out.append(("goroutine-left", "goroutines still inside sniproxy/netutil after teardown: %s"
                    % ", ".join(sorted(set(c["leak"]))[:4])))
    return out


def run_side_script(binp, script, bound):
    """Run a script of cases in a harness process of its own; returns the cases."""
    d = os.path.join(vlib.BUILD, "cases", "C04")
    os.makedirs(d, exist_ok=True)
    sp = os.path.join(d, "side_script.json")
    json.dump(script, open(sp, "w"))
    rc, out, err = vlib.sh2([binp, "-script", sp, "-bound", bound, "-budget", "150"], timeout=1200)
    return [json.loads(l) for l in out.splitlines() if l.startswith("{")]


def epb_oracle(c, out):
    """Accept backlog against the loss of the tunnel (stream epb)."""
    fc = c.get("front_closed") or []
    nopen = len([x for x in fc if not x])
    rs, ls = c.get("read_stuck") or [], c.get("later_stuck") or []
    where = "parked in sendAccept"
    if c.get("mode") == "siding-stalled":
        where = "inside their side dial (application-supplied websocket dialer, upgrade never answered)"
    how = "scenario '%s' with %d front connections (%d dial handlers %s when the control " \
          "connection went; %d connections handed out by Accept)" % (c["fault"], c.get("fronts", 0),
                                                                     c.get("parked", 0), where, c.get("accepted", 0))
    side = bool(c.get("mode"))
    if c.get("accept_end") == "stuck":
        out.append(("accept-stuck", "Endpoint.Accept did not return after the tunnel was gone; " + how))
    if c.get("close_stuck"):
        out.append(("close-stuck", "Endpoint.Close did not return; " + how))
    elif c.get("close_ms", 0) > 8000:
        out.append(("close-slow", "Endpoint.Close took %d ms (its graceful wait is bounded by a 5 s timer); %s"
                    % (c["close_ms"], how)))
    if rs and not side:
        out.append(("accepted-conn-never-ends",
                    "%d of %d connections handed out by Endpoint.Accept still block in Read although the tunnel "
                    "is gone and the endpoint is closed (connections no. %s in order of acceptance; the first "
                    "%d had been in the backlog when the tunnel went, the others got their slot afterwards): "
                    "nobody closes them; %s" % (len(rs), c.get("accepted", 0), rs[:12], BACKLOG, how)))
    if rs and side:
        # (established side connections are websockets of their own and live on with their front connections;
        #  the scenario's clients hang up before the reads are observed)
        out.append(("orphan-conn",
                    "%s mode: %d of %d connections handed out by Endpoint.Accept still block in Read although "
                    "every front connection is gone -- closed by the proxy when the control connection went, or "
                    "by the client (connections no. %s in order of acceptance): the side connection of a dial "
                    "that was in flight when the control connection went is never closed by the server; %s"
                    % (c["mode"], len(rs), c.get("accepted", 0), rs[:12], how)))
    if ls:
        out.append(("accepted-conn-later-op-stuck",
                    "a later Read/Write on %d accepted connection(s) did not return; %s" % (len(ls), how)))
    if not side:
        if not all(fc):
            out.append(("front-not-closed", "%d of %d front connections were not closed by the proxy; %s"
                        % (nopen, len(fc), how)))
    else:
        want = max(0, c.get("fronts", 0) - BACKLOG)
        if c["mode"] == "siding-stalled":        # every dial is in flight (inside the side dial)
            want = c.get("fronts", 0)
        if len(fc) - nopen < want:
            out.append(("front-not-closed", "%s mode: only %d of the %d front connections whose dial was in flight "
                        "were closed by the proxy %s ms after the control connection went; %s"
                        % (c["mode"], len(fc) - nopen, want, (c.get("timeline_ms") or [0] * 4)[3], how)))
    if not c.get("unregistered"):
        out.append(("still-registered", "the lost endpoint is still registered under its name; " + how))
    if not c.get("servefront_returned"):
        out.append(("servefront-stuck", "ServeFront did not return after its context was cancelled; " + how))
    if not c.get("serveback_returned"):
        out.append(("serveback-stuck", "a ServeBack handler did not return although the endpoint, every accepted "
                                       "connection and every front connection were closed; " + how))
    if c.get("leak"):
        out.append(("goroutine-left", "goroutines still inside sniproxy/netutil after teardown: %s; %s"
                    % (", ".join(sorted(set(c["leak"]))[:4]), how)))
    return out


def run(ck):
    n, ne = (400, 80) if not ck.thorough else (6000, 1200)
    ck.gen()
    built = ck.coq_make(MODEL + PROOFS, clean=ck.thorough)
    ck.obligations = ck.count_statements(STATEMENT_FILES)
    proofs_ok = all(built.get(x) for x in PROOFS)
    if proofs_ok and ck.audit("theories/Props/C04.v"):
        ck.discharged = list(ck.obligations)
    if ck.thorough and proofs_ok:
        ck.coqchk(["Verif.Props.C04"])

    binp = ck.build_harness("c04")
    cases = []
    replayed = rpc_common.replay_case(ck)
    if binp and replayed is not None:
        cases = rpc_common.run_script(ck, binp, [replayed])
        ck.log("replaying %s: %d case(s)" % (ck.replay, len(cases)))
    elif binp:
        bound = os.environ.get("VERIF_C04_BOUND", "10")     # observation bound in seconds
        n = int(os.environ.get("VERIF_C04_N", n))           # (for demonstrations on a defective tree,
        ne = int(os.environ.get("VERIF_C04_E2E", ne))       #  where every stranded thread costs a bound)
        nep = int(os.environ.get("VERIF_C04_EP", 8 if not ck.thorough else 64))
        nepb = int(os.environ.get("VERIF_C04_EPB", 5 if not ck.thorough else 80))
        # the accept-backlog scenarios in the side modes run in a process of their own, next to the main run
        # (on a tree that orphans side connections each of them waits out two observation bounds)
        # ("siding-stalled": an application-supplied websocket dialer without a handshake time-out, side dials
        #  reaching a listener that accepts the TCP connection and never answers the upgrade; the handlers'
        #  own 5 s bound is what the scenario waits for)
        side_script = [{"stream": "epb", "fault": f, "conns": k, "mode": m}
                       for f, k, m in ([("sever-endpoint", 13, "siding"), ("kick", 3, "siding-stalled")]
                                       if not ck.thorough else
                                       [("sever-endpoint", 13, "siding"), ("kick", 24, "sidingaddr"),
                                        ("shutdown", 15, "siding"), ("sever-server", 31, "sidingaddr"),
                                        ("close-endpoint", 12, "siding"), ("kick", 7, "siding"),
                                        ("sever-endpoint", 3, "siding-stalled"), ("shutdown", 2, "siding-stalled"),
                                        ("sever-server", 4, "siding-stalled")])]
        from concurrent.futures import ThreadPoolExecutor
        with ThreadPoolExecutor(max_workers=2) as ex:
            main_run = ex.submit(vlib.sh2, [binp, "-seed", str(ck.seed), "-n", str(n), "-e2e", str(ne),
                                            "-bound", bound, "-ep", str(nep), "-epb", str(nepb),
                                            "-budget", "210" if not ck.thorough else "1500"], timeout=6000)
            side_run = ex.submit(run_side_script, binp, side_script, bound)
            rc, out, err = main_run.result()
            side_cases = side_run.result()
        if rc != 0:
            ck.broken.append({"what": "harness run failed", "detail": err[-1500:]})
        for line in out.splitlines():
            if line.startswith("{"):
                cases.append(json.loads(line))
        if len(side_cases) != len(side_script):
            ck.broken.append({"what": "harness run (side-mode accept-backlog scenarios) failed"})
        for j, c in enumerate(side_cases):
            c["i"] = len(cases)
            cases.append(c)

    # concurrent side dials under the race detector (the session key source is shared by all dials)
    if binp and replayed is None:
        rb = ck.build_harness("c04", race=True)
        if rb:
            script = [{"stream": "tl", "steps": [{"op": "new", "k": 1, "kind": "sidedial", "ctx": "never"},
                                                 {"op": "burst", "k": 10, "n": 48 if not ck.thorough else 200,
                                                  "kind": "sidedial"},
                                                 {"op": "reply", "k": 1, "good": True}, {"op": "sever"}]}
                      for _ in range(2 if not ck.thorough else 10)]
            d = os.path.join(vlib.BUILD, "cases", ck.pid)
            os.makedirs(d, exist_ok=True)
            sp = os.path.join(d, "race_script.json")
            json.dump(script, open(sp, "w"))
            rc, out, err = vlib.sh2([rb, "-script", sp, "-child"], timeout=1200)   # (child mode: stderr is ours)
            nraces = err.count("WARNING: DATA RACE")
            ck.coverage["race_detector_scenarios"] = len(script)
            ck.coverage["data_races"] = nraces
            for line in out.splitlines():
                if line.startswith("{"):
                    ck.count("race", key=("race", len(script)), trivial=False)
            if nraces:
                first = err[err.find("WARNING: DATA RACE"):][:1800]
                ck.violation("impl:data-race", "the race detector reports a data race between concurrent side dials "
                             "(a racing math/rand source can index out of range and crash the process)",
                             {"case": script[0], "race_report": first, "races": nraces})

    faults, kinds = {}, {}
    epb = {"scenarios": 0, "window_reached": 0, "parked_handlers": 0, "accepted_connections": 0,
           "accepted_after_the_loss": 0}
    shrunk = set()
    ck.coverage["cases_skipped_after_repeated_stranding"] = len([c for c in cases if c.get("skipped")
                                                                 and not c.get("skipped_budget")])
    ck.coverage["cases_skipped_wall_clock_budget"] = len([c for c in cases if c.get("skipped_budget")])
    cases = [c for c in cases if not c.get("skipped")]
    for c in cases:
        if c["stream"] == "tl":
            key = json.dumps([c["steps"], [(x["k"], x["returned"], x["front"]) for x in c.get("callers", [])]])
            trivial = len(c.get("callers", [])) == 0
            for x in c.get("callers", []):
                kk = "%s/%s" % (x["kind"], x["ctx"])
                kinds[kk] = kinds.get(kk, 0) + 1
        elif c["stream"] == "epb":
            key = json.dumps(["epb", c["fault"], c["conns"], c.get("mode"), c.get("accepted"),
                              c.get("read_stuck"), c.get("accept_end")])
            # non-trivial: the window was reached (handlers parked, the endpoint in its clean-up before the drain)
            trivial = not (c.get("parked", 0) > 0 and c.get("noticed"))
            fk = "epb:" + c["fault"] + (":" + c["mode"] if c.get("mode") else "")
            faults[fk] = faults.get(fk, 0) + 1
            epb["scenarios"] += 1
            epb["window_reached"] += 0 if trivial else 1
            epb["parked_handlers"] += c.get("parked", 0)
            epb["accepted_connections"] += c.get("accepted", 0)
            epb["accepted_after_the_loss"] += max(0, c.get("accepted", 0) - BACKLOG)
        elif c["stream"] == "ep":
            key = json.dumps(["ep", c["fault"], c["conns"], [(x["kind"], x["returned"]) for x in c.get("ep", [])]])
            trivial = False
            faults["ep:" + c["fault"]] = faults.get("ep:" + c["fault"], 0) + 1
        else:
            key = json.dumps([c["fault"], c["conns"], c.get("hold"), c.get("front_closed")])
            trivial = c["conns"] == 0
            faults[c["fault"]] = faults.get(c["fault"], 0) + 1
        ck.count(c["stream"], key=key, trivial=trivial)
        for k, why in impl_oracle(c):
            small = c
            if binp and replayed is None and c["stream"] == "tl" and k not in shrunk and len(shrunk) < 2 \
                    and k != "hang":
                shrunk.add(k)
                # (every run on a defective tree costs an observation bound: small budget, short bound)
                small = rpc_common.shrink(ck, binp, c, k, impl_oracle, extra=["-bound", "3"], budget=6)
            stream = c["stream"] + ("-side" if c["stream"] == "epb" and c.get("mode") else "")
            ck.violation("impl:%s:%s" % (stream, k), why,
                         {"case": small, "original_case": c if small is not c else None,
                          "expected": "every operation returns, front connections are closed, the name "
                                      "is unregistered, serving terminates, no goroutine is left",
                          "observed": {k2: small.get(k2) for k2 in ("callers", "reader_alive", "front_closed", "mid_dial", "ep", "close_ms",
                                                                    "unregistered", "servefront_returned", "leak",
                                                                    "parked", "noticed", "accepted", "accept_end",
                                                                    "read_stuck", "later_stuck", "close_stuck",
                                                                    "serveback_returned")
                                       if small.get(k2) is not None}})
    ck.coverage["e2e_faults"] = faults
    ck.coverage["accept_backlog"] = epb
    if epb["scenarios"] and not epb["window_reached"] and replayed is None:
        ck.broken.append({"what": "no accept-backlog scenario reached its window (dial handlers parked in "
                                  "sendAccept and the endpoint in its clean-up before the application drains)"})
    ck.coverage["tl_caller_kinds"] = kinds
    ck.coverage["tl_callers_total"] = sum(len(c.get("callers", [])) for c in cases if c["stream"] == "tl")
    ck.coverage["e2e_front_connections"] = sum(c.get("conns", 0) for c in cases if c["stream"] == "e2e")
    tl = [c for c in cases if c["stream"] == "tl" and not c.get("crash")]
    for c in tl[:2] + [c for c in cases if c["stream"] == "e2e"][:2] + [c for c in cases if c["stream"] == "epb"][:2]:
        ck.sample({k: c.get(k) for k in ("stream", "steps", "callers", "fault", "conns", "mode", "front_closed",
                                         "unregistered", "servefront_returned", "parked", "noticed", "accepted",
                                         "accept_end", "read_stuck") if c.get(k) is not None})

    model_ok = all(built.get(x) for x in MODEL)
    if tl and model_ok:
        from concurrent.futures import ThreadPoolExecutor
        nsh = 6      # interleaved shards, evaluated in parallel (the burst scenarios are the expensive ones)

        def eval_shard(k):
            part = tl[k::nsh]
            txt = ("From Coq Require Import List NArith.\n"
                   "From Verif Require Import Sni.Shutdown Sni.ShutdownCorr.\n"
                   "Import ListNotations.\nLocal Open Scope N_scope.\n"
                   "Definition cases : list ccase := [\n  "
                   + ";\n  ".join(to_coq(c) for c in part) + "\n].\n"
                   "Definition M := Eval vm_compute in mismatches cases.\nPrint M.\n"
                   "Definition B := Eval vm_compute in map blocked_count cases.\nPrint B.\n")
            return k, ck.coq_eval("cases_%d" % k, txt)

        with ThreadPoolExecutor(max_workers=nsh) as ex:
            results = list(ex.map(eval_shard, range(nsh)))
        got, blocked = [], []
        for k, (rc, out) in results:
            g = vlib.parse_coq_list_of_nat(out, "M") if rc == 0 else None
            if g is None:
                ck.broken.append({"what": "correspondence evaluation failed", "detail": out[-1500:]})
                continue
            got += [k + nsh * i for i in g]
            blocked += vlib.parse_coq_list_of_nat(out, "B") or []
        got.sort()
        ck.coverage["correspondence_cases"] = len(tl)
        ck.coverage["correspondence_mismatches"] = len(got)
        ck.coverage["model_blocked_threads_total"] = sum(blocked)
        for i in got[:50]:
            c = tl[i]
            ck.broken.append({"what": "correspondence: model and implementation disagree", "case_index": c["i"]})
            if not impl_oracle(c):
                ck.violation("corr:tl", "the transport does not block/return as the proved model on this scenario",
                             {"case": c, "model": "Sni/Shutdown.v with gen_cfg replayed by vm_compute disagrees"})
    elif tl and not model_ok:
        ck.broken.append({"what": "model does not compile; correspondence not evaluated"})

    return ck.finish(
        level="proof",
        checker_cmd="bin/check C04 (gen -> make -C coq theories/Props/C04.vo -> Print Assumptions audit -> "
                    "harness c04 vs vm_compute of Sni/ShutdownCorr.v + end-to-end observations)",
        trusted=["Coq 8.16.1 kernel + vm_compute", "translator gen/sni_rpc.go (select arms, channel capacities, "
                 "statement skeletons, the statements of the dial handlers)", "harness/cmd/c04 + harness/rpcx + checks/c04.py",
                 "sniproxy/verif_rpc.go, verif_point.go hooks",
                 "modelled not verified: Go channels/select/scheduler fairness, timers, TCP and websocket close"],
        rule="4 fixed scenarios then seeded transport-level scenarios (2-10 steps of {new hello/read/closeAll/"
             "shutdown call with never-cancelled or cancellable context, good or mistyped reply, connection lost, "
             "writes broken, cancel, bursts of 130-240 concurrent calls after the loss or against a peer that has stopped "
             "reading}; every scenario ends with the connection lost) replayed on the model; plus "
             "end-to-end scenarios {endpoint-side sever, server-side sever, graceful close, kick, kick while the old "
             "control path is black-holed by a frozen TCP relay, the endpoint's shutdown hint first (the server-to-endpoint "
             "direction already dark, so the server's shutdown request is never answered) then the black hole then a kick "
             "resp. the server's own Close, server-side serve loop ended by an error-byte reply "
             "while the websocket is healthy; in the side modes: control connection lost on either side with side "
             "connections established, endpoint kicked while a side dial is in flight and its side websocket is held "
             "in the server} x 0-8 tunnelled "
             "TLS front connections with the server thread held after serve() until the connections' close calls "
             "are issued; plus endpoint-side scenarios driving Endpoint.Accept / Close / sendAccept explicitly (Accept "
             "pending when the server severs, kicks or closes the endpoint; two Close calls concurrent with Accepts; 12 "
             "dials with nobody accepting, then Close or a late Accept); plus accept-backlog scenarios on a real "
             "Server + ServeFront + Endpoint {15-40 front connections with the application not accepting: 10 fill the "
             "backlog, the other dial handlers are parked in sendAccept (observed through the goroutine profile); then "
             "the control connection is severed on the endpoint side / severed on the server side / kicked by a second "
             "endpoint / shut down by the server / the application calls Endpoint.Close; once the endpoint's serve "
             "loop is in its deferred clean-up the application runs an accept loop and reads from every connection it "
             "gets}, also in the side modes (in a process of their own). Non-trivial: a scenario with >= 1 caller / >= 1 front connection; distinct = distinct "
             "(steps, per-caller outcome) resp. (fault, connections, hold, outcome); an accept-backlog scenario is "
             "non-trivial when its window was reached (handlers parked and the endpoint in its clean-up before the drain)",
        assumptions=["enabled goroutines are eventually scheduled (Go runtime)",
                     "a 10 s observation bound stands in for 'bounded time'",
                     "the peer of a lost connection does not come back"])
